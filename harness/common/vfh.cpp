#include <vfh.h>
#include <csignal>
#include <cstdlib>
#include <exception>
#include <unistd.h>
#include <sys/wait.h>

// Globals that libtest_util expects from the test binary (declared extern in test/util/setup_common.h).
extern const std::function<void(const std::string&)> G_TEST_LOG_FUN;
extern const std::function<std::vector<const char*>()> G_TEST_COMMAND_LINE_ARGUMENTS;
extern const std::function<std::string()> G_TEST_GET_FULL_NAME;
const std::function<void(const std::string&)> G_TEST_LOG_FUN{};
static std::vector<std::string> g_vfh_args;
namespace vfh { std::vector<std::string>& TestArgs() { return g_vfh_args; } }
const std::function<std::vector<const char*>()> G_TEST_COMMAND_LINE_ARGUMENTS = []() {
    std::vector<const char*> v; for (auto& s : g_vfh_args) v.push_back(s.c_str()); return v; };
const std::function<std::string()> G_TEST_GET_FULL_NAME = []() { return std::string{"vfh"}; };

namespace vfh {

Reporter& R() { static Reporter r; return r; }

void Emit(const UniValue& o) { std::cout << o.write() << std::endl; }

void Reporter::Mismatch(const UniValue& action, const std::string& why)
{
    ++mismatches;
    if (mismatches > 200) return;
    UniValue o(UniValue::VOBJ);
    o.pushKV("kind", "mismatch"); o.pushKV("test", (uint64_t)cur_test); o.pushKV("step", (uint64_t)cur_step);
    o.pushKV("action", action); o.pushKV("why", why);
    Emit(o);
}
void Reporter::Deviation(const UniValue& action, const std::string& why, const UniValue& impl_state)
{
    ++deviations;
    if (deviations > 2000) return;
    UniValue o(UniValue::VOBJ);
    o.pushKV("kind", "deviation"); o.pushKV("test", (uint64_t)cur_test); o.pushKV("step", (uint64_t)cur_step);
    o.pushKV("action", action); o.pushKV("why", why); o.pushKV("state", impl_state);
    Emit(o);
}
void Reporter::Info(const UniValue& o) { Emit(o); }
void Reporter::Summary()
{
    UniValue o(UniValue::VOBJ);
    o.pushKV("kind", "summary"); o.pushKV("tests", (uint64_t)tests); o.pushKV("steps", (uint64_t)steps);
    o.pushKV("mismatches", (uint64_t)mismatches); o.pushKV("deviations", (uint64_t)deviations);
    for (auto& [k, v] : counters) o.pushKV(k, v);
    Emit(o);
}

static void AbortLine(const char* what)
{
    // async-signal-unsafe, but we are about to die anyway and the line matters more
    UniValue o(UniValue::VOBJ);
    o.pushKV("kind", "abort"); o.pushKV("test", (uint64_t)R().cur_test); o.pushKV("step", (uint64_t)R().cur_step);
    o.pushKV("action", R().cur_action); o.pushKV("why", std::string("process aborted inside replayed step: ") + what);
    std::string s = o.write() + "\n";
    (void)!write(1, s.data(), s.size());
    _exit(3);
}
static void OnSignal(int sig) { AbortLine(sig == SIGABRT ? "SIGABRT (assertion)" : sig == SIGSEGV ? "SIGSEGV" : "signal"); }
static void OnTerminate()
{
    std::string w = "std::terminate";
    if (auto e = std::current_exception()) { try { std::rethrow_exception(e); } catch (const std::exception& ex) { w += std::string(": ") + ex.what(); } catch (...) {} }
    AbortLine(w.c_str());
}
void InstallAbortHandlers()
{
    std::set_terminate(OnTerminate);
    std::signal(SIGABRT, OnSignal); std::signal(SIGSEGV, OnSignal); std::signal(SIGFPE, OnSignal);
}

bool ForkChild(size_t test_index)
{
    std::cout.flush();
    pid_t pid = fork();
    if (pid < 0) { std::cerr << "fork failed\n"; std::exit(2); }
    if (pid == 0) { R() = Reporter{}; R().cur_test = test_index; return true; }
    int status = 0;
    waitpid(pid, &status, 0);
    if (!(WIFEXITED(status) && (WEXITSTATUS(status) == 0 || WEXITSTATUS(status) == 3))) {
        // the child died without reporting (exit code 3 = it already printed an abort line)
        UniValue o(UniValue::VOBJ);
        o.pushKV("kind", "abort"); o.pushKV("test", (uint64_t)test_index); o.pushKV("step", 0);
        o.pushKV("action", UniValue::VNULL); o.pushKV("why", "child process ended abnormally, status " + std::to_string(status));
        Emit(o);
    }
    return false;
}
void ExitChild() { std::cout.flush(); _exit(0); }

void ForEachLine(const std::string& path, const std::function<void(size_t, const UniValue&)>& fn)
{
    std::ifstream in(path);
    if (!in) { std::cerr << "cannot open " << path << "\n"; std::exit(2); }
    std::string line; size_t n = 0;
    while (std::getline(in, line)) {
        if (line.empty()) continue;
        UniValue t;
        if (!t.read(line)) { std::cerr << "bad json on line " << n << "\n"; std::exit(2); }
        fn(n, t); ++n;
    }
}

int TableMain(const std::string& path, const std::function<std::string(const UniValue& row)>& check)
{
    InstallAbortHandlers();
    ForEachLine(path, [&](size_t n, const UniValue& row) {
        R().cur_test = n; R().cur_step = 0; R().cur_action = row;
        std::string why;
        try { why = check(row); } catch (const std::exception& e) { why = std::string("exception: ") + e.what(); }
        ++R().steps; ++R().tests;
        if (!why.empty()) R().Mismatch(row, why);
    });
    R().Summary();
    return 0;
}

int64_t AmountFromLimbs(const UniValue& a)
{
    const UniValue& d = a["d"];
    // computed in unsigned 128-bit so that -2^63 is representable
    unsigned __int128 m = (unsigned __int128)d[0].getInt<int64_t>() + (unsigned __int128)d[1].getInt<int64_t>() * 100000000ULL +
                          (unsigned __int128)d[2].getInt<int64_t>() * 10000000000000000ULL;
    if (a["neg"].get_bool()) return (int64_t)(~(uint64_t)m + 1);
    return (int64_t)(uint64_t)m;
}
UniValue LimbsFromAmount(int64_t v)
{
    const bool neg = v < 0;
    unsigned __int128 m = neg ? (unsigned __int128)(~(uint64_t)v) + 1 : (unsigned __int128)v;
    UniValue d(UniValue::VARR);
    d.push_back((int64_t)(m % 100000000ULL)); m /= 100000000ULL;
    d.push_back((int64_t)(m % 100000000ULL)); m /= 100000000ULL;
    d.push_back((int64_t)m);
    UniValue o(UniValue::VOBJ); o.pushKV("neg", neg); o.pushKV("d", d);
    return o;
}

UniValue Obj(std::initializer_list<std::pair<std::string, UniValue>> kv)
{
    UniValue o(UniValue::VOBJ); for (auto& [k, v] : kv) o.pushKV(k, v); return o;
}
UniValue Arr(std::initializer_list<UniValue> xs)
{
    UniValue a(UniValue::VARR); for (auto& x : xs) a.push_back(x); return a;
}

bool JsonEq(const UniValue& a, const UniValue& b) { return JsonDiff(a, b).empty(); }

std::string JsonDiff(const UniValue& exp, const UniValue& have, const std::string& path)
{
    auto show = [&](const UniValue& v) { std::string s = v.write(); if (s.size() > 160) s = s.substr(0, 160) + "..."; return s; };
    if (exp.isObject()) {
        if (!have.isObject()) return path + ": expected " + show(exp) + " have " + show(have);
        for (const auto& k : exp.getKeys()) {
            if (!have.exists(k)) return path + "." + k + ": missing in implementation projection";
            std::string d = JsonDiff(exp[k], have[k], path + "." + k);
            if (!d.empty()) return d;
        }
        return "";
    }
    if (exp.isArray()) {
        if (!have.isArray() || exp.size() != have.size()) return path + ": expected " + show(exp) + " have " + show(have);
        for (size_t i = 0; i < exp.size(); ++i) {
            std::string d = JsonDiff(exp[i], have[i], path + "[" + std::to_string(i) + "]");
            if (!d.empty()) return d;
        }
        return "";
    }
    if (exp.isNum() && have.isNum()) { return exp.getValStr() == have.getValStr() ? "" : path + ": expected " + show(exp) + " have " + show(have); }
    if (exp.getType() != have.getType() || exp.write() != have.write()) return path + ": expected " + show(exp) + " have " + show(have);
    return "";
}

} // namespace vfh
