// The UtxoChain world shared by the adapters that replay UtxoChain behaviours on a real node (utxochain, crashnode):
// a base chain per the specification's universe, the universe materialised as real signed transactions, the model's
// actions and the projection of the node (tip, stored/failed flags, UTXO set over the universe).
#ifndef VFH_UTXOWORLD_H
#define VFH_UTXOWORLD_H
#include <chainsim.h>
#include <consensus/tx_check.h>
#include <consensus/tx_verify.h>
namespace vfh {

inline UniValue g_uni;
inline std::unique_ptr<ChainSim> g_pristine;
inline SimOptions g_simopts;
struct Base {
    std::vector<CTransactionRef> cbs;     // coinbase transaction of every base height (index = height)
    std::vector<std::shared_ptr<CBlock>> blocks;   // base blocks (index = height)
    std::map<uint256, int> hash_at;       // base block hash -> height
    uint256 tip_hash; int h0; int64_t t0; int64_t basedt;
};
inline Base g_base;

// Builds the base chain's blocks (pure: needs only the chain parameters); `sim` is used for BuildBlock only.
inline void BuildBase(ChainSim& sim)
{
    const int h0 = g_uni["h0"].getInt<int>();
    const int64_t basedt = g_uni["basedt"].getInt<int64_t>();
    std::map<int, CAmount> coin_at;   // base height -> coinbase value
    for (size_t i = 0; i < g_uni["base"].size(); ++i) coin_at[g_uni["base"][i]["h"].getInt<int>()] = g_uni["base"][i]["v"].getInt<int64_t>();
    const int64_t g = Params().GenesisBlock().nTime;
    SetMockTime(g + (int64_t)h0 * basedt + 100000);   // all block times of the behaviour stay in the past
    g_base = Base{}; g_base.h0 = h0; g_base.basedt = basedt;
    g_base.cbs.push_back(nullptr); g_base.blocks.push_back(nullptr);
    g_base.hash_at[Params().GenesisBlock().GetHash()] = 0;
    uint256 prev = Params().GenesisBlock().GetHash();
    for (int h = 1; h <= h0; ++h) {
        ChainSim::BlockSpec s; s.prev = prev; s.height = h; s.time = g + (int64_t)h * basedt; s.extra_nonce = 7;
        s.cb_value = coin_at.count(h) ? coin_at[h] : 0;
        auto b = sim.BuildBlock(s);
        g_base.blocks.push_back(b); g_base.cbs.push_back(b->vtx[0]);
        prev = b->GetHash();
        g_base.hash_at[prev] = h;
    }
    g_base.tip_hash = prev; g_base.t0 = g + (int64_t)h0 * basedt;
}
inline std::unique_ptr<ChainSim> MakeBaseSim()
{
    auto sim = MakeSim(g_simopts);
    BuildBase(*sim);
    for (int h = 1; h <= g_base.h0; ++h) {
        auto [r, nb] = sim->SubmitBlock(g_base.blocks[h], true);
        if (!r || sim->Tip()->GetBlockHash() != g_base.blocks[h]->GetHash()) throw std::runtime_error("base chain block rejected");
    }
    return sim;
}

struct Blk { std::shared_ptr<CBlock> block; uint256 hash; int height; int64_t time; bool dup{false}; };

struct World {
    std::unique_ptr<ChainSim> sim;
    std::vector<Blk> blks;                 // index = model block id, [0] = base tip
    std::map<uint256, int> ids;
    std::vector<CTransactionRef> txu;      // index = model tx id (1-based)
    std::vector<CAmount> fee;              // fee of each universe tx if all its inputs are known, else 0
    std::map<std::pair<int, int>, COutPoint> ops;    // model outpoint -> real outpoint
    std::map<std::pair<int, int>, CTxOut> outs;      // model outpoint -> real output (for signing / values)

    bool dry{false};                       // build blocks but do not submit them (recovery harness: learn the ids of a past run)
    World() : World(nullptr, false) {}
    World(std::unique_ptr<ChainSim> given, bool dry_run) : dry(dry_run)
    {
        if (given) { sim = std::move(given); BuildBase(*sim); }
        else sim = g_pristine ? std::move(g_pristine) : MakeBaseSim();
        blks.push_back({nullptr, g_base.tip_hash, g_base.h0, g_base.t0});
        ids[g_base.tip_hash] = 0;
        for (size_t i = 0; i < g_uni["base"].size(); ++i) {
            const auto& cb = g_base.cbs.at(g_uni["base"][i]["h"].getInt<int>());
            ops[{0, (int)i + 1}] = COutPoint(cb->GetHash(), 0);
            outs[{0, (int)i + 1}] = cb->vout[0];
        }
        ops[{99, 1}] = COutPoint(Txid::FromUint256(uint256{0x99}), 3);
        BuildUniverse();
    }
    static uint32_t SeqOf(const UniValue& sq)
    {
        const std::string k = sq["kind"].get_str();
        const uint32_t v = (uint32_t)sq["v"].getInt<int>();
        if (k == "final") return CTxIn::SEQUENCE_FINAL;
        if (k == "disabled") return CTxIn::SEQUENCE_LOCKTIME_DISABLE_FLAG | 5;
        if (k == "height") return v;
        if (k == "time") return CTxIn::SEQUENCE_LOCKTIME_TYPE_FLAG | v;
        throw std::runtime_error("bad seq kind");
    }
    void BuildUniverse()
    {
        const UniValue& U = g_uni["universe"];
        txu.resize(U.size() + 1); fee.assign(U.size() + 1, 0);
        for (size_t t = 1; t <= U.size(); ++t) {
            const UniValue& T = U[t - 1];
            CMutableTransaction m;
            // version codes 98 / 99 stand for 0x80000000 / 0xffffffff (TLC integers are 32-bit signed)
            { const int v = T["ver"].getInt<int>(); m.version = v == 98 ? 0x80000000u : v == 99 ? 0xffffffffu : (uint32_t)v; }
            const std::string lk = T["lock"]["kind"].get_str();
            m.nLockTime = lk == "none" ? 0 : lk == "height" ? (uint32_t)T["lock"]["v"].getInt<int>() : (uint32_t)(g_base.t0 + T["lock"]["v"].getInt<int64_t>());
            bool all_known = true; CAmount in = 0, out = 0;
            for (size_t j = 0; j < T["ins"].size(); ++j) {
                const std::pair<int, int> key{T["ins"][j]["op"][0].getInt<int>(), T["ins"][j]["op"][1].getInt<int>()};
                CTxIn ti(ops.at(key)); ti.nSequence = SeqOf(T["ins"][j]["seq"]);
                m.vin.push_back(ti);
                if (outs.count(key)) in += outs[key].nValue; else all_known = false;
            }
            for (size_t i = 0; i < T["outs"].size(); ++i) {
                const std::string cls = T["outs"][i]["cls"].get_str();
                CScript spk;
                if (cls == "true") spk = CScript() << OP_TRUE;
                else if (cls == "opret") spk = CScript() << OP_RETURN << std::vector<unsigned char>(20, (unsigned char)t);
                else if (cls == "fail") spk = CScript() << OP_1 << OP_VERIFY << OP_0;
                else if (cls == "big") {
                    // anyone-can-spend script of exactly MAX_SCRIPT_SIZE (10000) bytes: 19 x (520-byte push + DROP), a 41-byte push + DROP, OP_TRUE
                    for (int k = 0; k < 19; ++k) spk << std::vector<unsigned char>(520, (unsigned char)(k + 1)) << OP_DROP;
                    spk << std::vector<unsigned char>(41, 0x42) << OP_DROP << OP_TRUE;
                    if (spk.size() != 10000) throw std::runtime_error("big script is not 10000 bytes");
                }
                else throw std::runtime_error("bad script class");
                m.vout.emplace_back(T["outs"][i]["v"].getInt<int64_t>(), spk);
                out += T["outs"][i]["v"].getInt<int64_t>();
            }
            if (T.exists("bulk") && T["bulk"].getInt<int>() > 0) {
                // `bulk` outputs of MAX_MONEY each plus one residue output: the exact total is far above MAX_MONEY, but a 64-bit
                // accumulator that is only range-checked at the end wraps around to the sum of the listed outputs
                const int nb = T["bulk"].getInt<int>();
                unsigned __int128 tot = (unsigned __int128)nb * (unsigned __int128)MAX_MONEY;
                const unsigned __int128 two64 = (unsigned __int128)1 << 64;
                const unsigned __int128 residue = (two64 - (tot % two64)) % two64;
                for (int k = 0; k < nb; ++k) m.vout.emplace_back(MAX_MONEY, CScript() << OP_TRUE);
                if (residue > 0 && residue <= (unsigned __int128)MAX_MONEY) m.vout.emplace_back((CAmount)residue, CScript() << OP_TRUE);
            }
            // distinguish otherwise identical transactions and stay away from the 64-byte ambiguity
            m.vout.emplace_back(0, CScript() << OP_RETURN << std::vector<unsigned char>(30, (unsigned char)(0xA0 + t)));
            for (size_t j = 0; j < m.vin.size(); ++j) {
                const std::pair<int, int> key{T["ins"][j]["op"][0].getInt<int>(), T["ins"][j]["op"][1].getInt<int>()};
                if (key.first == 0) sim->SignP2PK(m, j, outs.at(key));       // base coins are P2PK
            }
            txu[t] = MakeTransactionRef(m);
            fee[t] = all_known ? in - out : 0;
            for (size_t i = 0; i < T["outs"].size(); ++i) {
                ops[{(int)t, (int)i + 1}] = COutPoint(txu[t]->GetHash(), i);
                outs[{(int)t, (int)i + 1}] = txu[t]->vout[i];
            }
        }
    }
    UniValue Apply(const UniValue& a)
    {
        const std::string op = a[0].get_str();
        UniValue res(UniValue::VARR);
        if (op == "mine") {
            const int id = blks.size();
            const Blk p = blks.at(a[1].getInt<int>());
            ChainSim::BlockSpec s; s.prev = p.hash; s.height = p.height + 1; s.time = p.time + a[4].getInt<int64_t>(); s.extra_nonce = id;
            CAmount fees = 0;
            for (size_t i = 0; i < a[2].size(); ++i) { const int t = a[2][i].getInt<int>(); s.txs.push_back(txu.at(t)); fees += std::max<CAmount>(fee.at(t), 0); }
            const std::string cb = a[3].get_str();
            const CAmount limit = GetBlockSubsidy(s.height, sim->consensus()) + fees;
            s.cb_value = (cb == "zero" || cb == "dup") ? 0 : cb == "max" ? limit : limit + 1;
            if (cb == "dup") { s.dup_coinbase = true; s.version = 0x20000000 | (id << 8); }   // identical coinbase; the header still differs per block
            auto b = sim->BuildBlock(s);
            blks.push_back({b, b->GetHash(), s.height, (int64_t)s.time, cb == "dup"});
            ids[b->GetHash()] = id;
            if (dry) { res.push_back("dry"); return res; }
            auto [r, nb] = sim->SubmitBlock(b, true);
            std::string why = sim->Reason(b->GetHash());
            if (why.empty()) {
                LOCK(cs_main);
                const CBlockIndex* pi = sim->cm().m_blockman.LookupBlockIndex(b->GetHash());
                why = (pi && sim->cm().ActiveChain().Contains(*pi)) ? "connected" : (pi && (pi->nStatus & BLOCK_HAVE_DATA)) ? "stored" : "dropped";
            }
            if (why.rfind("mandatory-script-verify-flag-failed", 0) == 0 || why.rfind("block-script-verify-flag-failed", 0) == 0) why = "script-failed";
            res.push_back(why);
        } else if (dry) { res.push_back("dry");
        } else if (op == "invalidate") { sim->Invalidate(blks.at(a[1].getInt<int>()).hash); res.push_back("none"); }
        else if (op == "reconsider") { sim->Reconsider(blks.at(a[1].getInt<int>()).hash); res.push_back("none"); }
        else if (op == "flush") { sim->cm().ActiveChainstate().ForceFlushStateToDisk(); res.push_back("none"); }
        else throw std::runtime_error("unknown op " + op);
        return res;
    }
    UniValue Project()
    {
        LOCK(cs_main);
        auto& cm = sim->cm();
        const uint256 tiph = cm.ActiveChain().Tip() ? cm.ActiveChain().Tip()->GetBlockHash() : uint256();
        // a model block id, or (crash recovery only) -1000 - h for the base block at height h below the base tip
        const int tip = ids.count(tiph) ? ids.at(tiph) : g_base.hash_at.count(tiph) ? -1000 - g_base.hash_at.at(tiph) : -9999;
        std::set<int> stored, failed;
        for (size_t i = 0; i < blks.size(); ++i) {
            const CBlockIndex* pi = cm.m_blockman.LookupBlockIndex(blks[i].hash);
            if (!pi) continue;
            if (pi->nStatus & BLOCK_HAVE_DATA) stored.insert(i);
            if (pi->nStatus & BLOCK_FAILED_VALID) failed.insert(i);
        }
        // the UTXO set restricted to the universe: base coins, every universe output, every model block's coinbase output
        std::vector<std::pair<std::pair<int, int>, COutPoint>> cand(ops.begin(), ops.end());
        bool dup_listed = false;
        for (size_t b = 1; b < blks.size(); ++b) {
            if (blks[b].dup) { if (!dup_listed) cand.push_back({{-99, 1}, COutPoint(blks[b].block->vtx[0]->GetHash(), 0)}); dup_listed = true; continue; }
            cand.push_back({{-(int)b, 1}, COutPoint(blks[b].block->vtx[0]->GetHash(), 0)});
        }
        auto& view = cm.ActiveChainstate().CoinsTip();
        std::map<std::pair<int, int>, UniValue> have;
        for (auto& [key, op] : cand) {
            auto c = view.GetCoin(op);
            if (!c) continue;
            const CAmount S = 50 * COIN;
            const CAmount v = c->out.nValue;
            have[key] = Obj({{"t", key.first}, {"i", key.second}, {"k", (int)(v >= S ? v / S : 0)}, {"s", (int64_t)(v >= S ? v % S : v)},
                             {"h", (int)c->nHeight}, {"cb", c->IsCoinBase()}});
        }
        UniValue ul(UniValue::VARR);
        for (auto& [k, v] : have) ul.push_back(v);
        UniValue obs = Obj({{"tip", tip}, {"stored", SortedIntArr(stored)}, {"failed", SortedIntArr(failed)}, {"utxo", ul}});
        return Obj({{"obs", obs}});
    }
};
} // namespace vfh
#endif
