// Common helpers for the conformance harness adapters (see DESIGN.md 2.3).
// Convention: `adapter <mode> <input.ndjson> [args...]`; one JSON object per output line:
//   {"kind":"mismatch","test":n,"step":i,"action":..,"why":".."}   model prediction != implementation
//   {"kind":"abort","test":n,"step":i,...}                          the code under test aborted inside a replayed step
//   {"kind":"summary","tests":..,"steps":..,"mismatches":..}        always last; its absence = infrastructure failure
#ifndef VFH_H
#define VFH_H
#include <univalue.h>
#include <algorithm>
#include <cstdint>
#include <fstream>
#include <functional>
#include <iostream>
#include <map>
#include <sstream>
#include <memory>
#include <string>
#include <vector>

namespace vfh {

struct Reporter {
    size_t tests{0}, steps{0}, mismatches{0};
    std::map<std::string, int64_t> counters;
    size_t cur_test{0}, cur_step{0};
    UniValue cur_action{UniValue::VNULL};
    size_t deviations{0};
    void Mismatch(const UniValue& action, const std::string& why);
    void Deviation(const UniValue& action, const std::string& why, const UniValue& impl_state);
    void Count(const std::string& k, int64_t n = 1) { counters[k] += n; }
    void Info(const UniValue& o);
    void Summary();
};
Reporter& R();

// Installs terminate/SIGABRT/SIGSEGV handlers that print an "abort" line with the current test/step and _exit(3).
void InstallAbortHandlers();

// Calls fn(line_index, parsed) for each line of an ndjson file.
void ForEachLine(const std::string& path, const std::function<void(size_t, const UniValue&)>& fn);

inline std::string S(const UniValue& v) { return v.isStr() ? v.get_str() : v.write(); }
inline int64_t I(const UniValue& v) { return v.getInt<int64_t>(); }
inline bool B(const UniValue& v) { return v.get_bool(); }
UniValue Obj(std::initializer_list<std::pair<std::string, UniValue>> kv);
UniValue Arr(std::initializer_list<UniValue> xs);
// Structural equality of JSON values; objects compared as maps (key order irrelevant).
bool JsonEq(const UniValue& a, const UniValue& b);
// First difference between expected and have, as a path description ("" if equal)
std::string JsonDiff(const UniValue& exp, const UniValue& have, const std::string& path = "");
void Emit(const UniValue& o);   // prints one line

// fork(): returns true in the child; in the parent waits for the child, reports an abnormal end as an abort line, returns false.
bool ForkChild(size_t test_index);
[[noreturn]] void ExitChild();

// Generic replay loop over tests {init, steps:[{a, r, exp}]}.
// make(init) builds a fresh world; apply(world, action) -> result; project(world) -> JSON compared with exp
// (only keys present in exp are compared, recursively). r == null means "no predicted result".
template <typename World>
int ReplayMain(const std::string& path,
               const std::function<std::unique_ptr<World>(const UniValue& init)>& make,
               const std::function<UniValue(World&, const UniValue& action)>& apply,
               const std::function<UniValue(World&)>& project,
               const std::vector<std::string>& internal_keys = {}, bool fork_per_test = false)
{
    InstallAbortHandlers();
    ForEachLine(path, [&](size_t n, const UniValue& t) {
        R().cur_test = n; R().cur_step = 0; R().cur_action = UniValue::VNULL;
        // fork_per_test: the test runs in a forked child that inherits whatever expensive pristine state the adapter built
        // before calling ReplayMain (make() then only wraps it). The child prints its own lines and a summary and _exits.
        if (fork_per_test && !ForkChild(n)) return;
        auto w = make(t["init"]);
        const UniValue& st = t["steps"];
        for (size_t i = 0; i < st.size(); ++i) {
            R().cur_step = i; R().cur_action = st[i]["a"];
            std::string why;
            UniValue res;
            try { res = apply(*w, st[i]["a"]); }
            catch (const std::exception& e) { why = std::string("exception: ") + e.what(); }
            ++R().steps;
            std::string result_dev;
            if (why.empty() && st[i].exists("r") && !st[i]["r"].isNull()) {
                std::string d = JsonDiff(st[i]["r"], res, "result");
                // "@result" among the internal keys: a differing call result is a deviation, not a mismatch
                if (!d.empty()) { if (std::find(internal_keys.begin(), internal_keys.end(), "@result") != internal_keys.end()) result_dev = d; else why = d; }
            }
            if (why.empty() && st[i].exists("exp") && !st[i]["exp"].isNull()) {
                // Observable keys first: a difference there is a mismatch. A difference only in `internal_keys`
                // (bookkeeping the property does not mention) is a *deviation*: the path is truncated and the
                // implementation's state is handed back so that TLC can evaluate the invariants on it.
                UniValue have;
                try { have = project(*w); } catch (const std::exception& e) { why = std::string("exception in projection: ") + e.what(); }
                if (why.empty()) {
                    const UniValue& exp = st[i]["exp"];
                    std::string internal_diff;
                    for (const auto& k : exp.getKeys()) {
                        const bool internal = std::find(internal_keys.begin(), internal_keys.end(), k) != internal_keys.end();
                        if (!have.exists(k)) { why = "state." + k + ": missing in implementation projection"; break; }
                        std::string d = JsonDiff(exp[k], have[k], "state." + k);
                        if (d.empty()) continue;
                        if (internal) { if (internal_diff.empty()) internal_diff = d; } else { why = d; break; }
                    }
                    if (why.empty() && internal_diff.empty() && !result_dev.empty()) internal_diff = result_dev;
                    if (why.empty() && !internal_diff.empty()) { have.pushKV("@result", res); R().Deviation(st[i]["a"], internal_diff, have); break; }
                }
            }
            if (!why.empty()) { R().Mismatch(st[i]["a"], why); break; }
        }
        ++R().tests;
        if (fork_per_test) { R().Summary(); std::cout.flush(); ExitChild(); }
    });
    R().Summary();
    return 0;
}

// Engine E4: one row per line; check(row) returns "" or a description of the disagreement.
int TableMain(const std::string& path, const std::function<std::string(const UniValue& row)>& check);
// int64 from the Amount record {neg, d:[lo, mid, hi]} (base 10^8 limbs)
int64_t AmountFromLimbs(const UniValue& a);
UniValue LimbsFromAmount(int64_t v);

} // namespace vfh
#endif
