// chainsim: an in-process regtest node for the conformance adapters (DESIGN.md section 5, "chainsim").
// Header-only on purpose: only adapters that include it pay for it.
// Real ChainstateManager, CTxMemPool, block files in a temp dir; blocks are built by hand (no mempool/miner involved), so that
// arbitrary — including invalid — blocks on arbitrary parents can be produced and delivered in any order.
#ifndef VFH_CHAINSIM_H
#define VFH_CHAINSIM_H
#include <vfh.h>
#include <test/util/setup_common.h>
#include <test/util/random.h>
#include <arith_uint256.h>
#include <chainparams.h>
#include <coins.h>
#include <consensus/merkle.h>
#include <consensus/validation.h>
#include <key.h>
#include <node/blockstorage.h>
#include <node/chainstate.h>
#include <node/kernel_notifications.h>
#include <pow.h>
#include <primitives/block.h>
#include <primitives/transaction.h>
#include <script/script.h>
#include <script/sign.h>
#include <script/signingprovider.h>
#include <txmempool.h>
#include <util/time.h>
#include <validation.h>
#include <validationinterface.h>
#include <map>
#include <optional>
#include <set>

namespace vfh {
std::vector<std::string>& TestArgs();   // extra command line arguments for the next TestingSetup (vfh.cpp)

struct SimOptions {
    std::vector<std::string> args;                 // chain-parameter / mempool style options ("-acceptnonstdtxn=1", ...)
    std::optional<arith_uint256> min_chain_work;   // ChainstateManager::Options::minimum_chain_work
    std::optional<uint256> assumed_valid;
    int worker_threads{0};
    int prevout_threads{0};
    bool validation_cache{true};
    bool coins_db_in_memory{true};
    bool block_tree_db_in_memory{true};
    bool prune{false};
    uint64_t prune_target{0};
    uint64_t coins_batch_bytes{0};                 // > 0: CoinsViewOptions::batch_write_bytes (forces partial coin batches)
    std::string preload_dir;                       // non-empty: replace blocks/ and chainstate/ of the fresh datadir by this image before loading
    bool defer_load{false};                        // do not load the chainstate in the constructor; call TryLoad()
};

struct Verdicts : public CValidationInterface {
    std::map<uint256, BlockValidationState> checked;    // last BlockChecked state per block hash
    std::vector<std::pair<std::string, uint256>> events; // connected / disconnected, in delivery order (scheduler thread)
    void BlockChecked(const std::shared_ptr<const CBlock>& block, const BlockValidationState& st) override { checked[block->GetHash()] = st; }
};

class ChainSim : public ChainTestingSetup
{
public:
    CKey coinbaseKey;
    CScript coinbaseSpk;                            // P2PK to coinbaseKey
    std::shared_ptr<Verdicts> verdicts{std::make_shared<Verdicts>()};
    SimOptions simopts;

    static TestOpts MakeOpts(const SimOptions& o)
    {
        TestOpts t;
        t.setup_net = false;
        t.coins_db_in_memory = o.coins_db_in_memory;
        t.block_tree_db_in_memory = o.block_tree_db_in_memory;
        t.min_validation_cache = !o.validation_cache;
        static std::vector<std::string> keep;   // extra_args holds const char*: keep the strings alive
        keep = o.args;
        keep.insert(keep.begin(), {"-nodebuglogfile", "-nodebug"});
        for (auto& s : keep) t.extra_args.push_back(s.c_str());
        return t;
    }

    explicit ChainSim(const SimOptions& o = {}) : ChainTestingSetup(ChainType::REGTEST, MakeOpts(o)), simopts(o)
    {
        m_coins_db_in_memory = o.coins_db_in_memory;
        m_block_tree_db_in_memory = o.block_tree_db_in_memory;
        // Re-create the ChainstateManager with our own options (the stock fixture hard-codes them).
        m_node.chainman.reset();
        const CChainParams& chainparams = Params();
        m_make_chainman = [this, &chainparams, o] {
            Assert(!m_node.chainman);
            ChainstateManager::Options chainman_opts{
                .chainparams = chainparams,
                .datadir = m_args.GetDataDirNet(),
                .check_block_index = 1,
                .minimum_chain_work = o.min_chain_work,
                .assumed_valid_block = o.assumed_valid,
                .notifications = *m_node.notifications,
                .signals = m_node.validation_signals.get(),
                .worker_threads_num = o.worker_threads,
                .prevoutfetch_threads_num = o.prevout_threads,
            };
            if (!o.validation_cache) { chainman_opts.script_execution_cache_bytes = 0; chainman_opts.signature_cache_bytes = 0; }
            if (o.coins_batch_bytes > 0) chainman_opts.coins_view.batch_write_bytes = o.coins_batch_bytes;
            node::BlockManager::Options blockman_opts{
                .chainparams = chainman_opts.chainparams,
                .blocks_dir = m_args.GetBlocksDirPath(),
                .notifications = chainman_opts.notifications,
                .block_tree_db_params = DBParams{
                    .path = m_args.GetDataDirNet() / "blocks" / "index",
                    .cache_bytes = m_kernel_cache_sizes.block_tree_db,
                    .memory_only = o.block_tree_db_in_memory,
                },
            };
            if (o.prune) blockman_opts.prune_target = o.prune_target;
            m_node.chainman = std::make_unique<ChainstateManager>(*Assert(m_node.shutdown_signal), chainman_opts, blockman_opts);
        };
        if (!o.preload_dir.empty()) {
            // a crash image: the block files, block index and chainstate of a previous run
            const fs::path net = m_args.GetDataDirNet();
            fs::remove_all(net / "blocks"); fs::remove_all(net / "chainstate");
            fs::copy(fs::PathFromString(o.preload_dir), net, fs::copy_options::recursive | fs::copy_options::overwrite_existing);
        }
        if (!o.defer_load) {
            m_make_chainman();
            LoadVerifyActivateChainstate();
        }
        constexpr std::array<unsigned char, 32> vchKey = {{0, 0, 0, 0, 0, 0, 0, 0, 0, 0, 0, 0, 0, 0, 0, 0, 0, 0, 0, 0, 0, 0, 0, 0, 0, 0, 0, 0, 0, 0, 0, 1}};
        coinbaseKey.Set(vchKey.begin(), vchKey.end(), true);
        coinbaseSpk = CScript() << ToByteVector(coinbaseKey.GetPubKey()) << OP_CHECKSIG;
        if (m_node.validation_signals) m_node.validation_signals->RegisterSharedValidationInterface(verdicts);
    }
    // Creates the ChainstateManager and loads the chainstate; returns "" or a description of the failure (instead of asserting).
    std::string TryLoad()
    {
        try {
            m_make_chainman();
            auto& chainman{*Assert(m_node.chainman)};
            node::ChainstateLoadOptions options;
            options.mempool = Assert(m_node.mempool.get());
            options.coins_db_in_memory = m_coins_db_in_memory;
            options.prune = chainman.m_blockman.IsPruneMode();
            auto [status, error] = node::LoadChainstate(chainman, m_kernel_cache_sizes, options);
            if (status != node::ChainstateLoadStatus::SUCCESS) return "load: " + error.original;
            std::tie(status, error) = node::VerifyLoadedChainstate(chainman, options);
            if (status != node::ChainstateLoadStatus::SUCCESS) return "verify: " + error.original;
            m_node.notifications->setChainstateLoaded(true);
            return "";
        } catch (const std::exception& e) {
            return std::string("exception: ") + e.what();
        }
    }
    ~ChainSim()
    {
        if (m_node.validation_signals) { m_node.validation_signals->UnregisterSharedValidationInterface(verdicts); }
    }

    ChainstateManager& cm() { return *m_node.chainman; }
    CBlockIndex* Tip() { LOCK(cs_main); return cm().ActiveChain().Tip(); }
    CBlockIndex* Lookup(const uint256& h) { LOCK(cs_main); return cm().m_blockman.LookupBlockIndex(h); }
    const Consensus::Params& consensus() { return Params().GetConsensus(); }

    struct BlockSpec {
        uint256 prev; int height{0}; uint32_t time{0};
        std::vector<CTransactionRef> txs;           // non-coinbase transactions
        CAmount cb_value{0};                        // coinbase output value
        CScript cb_spk;                             // coinbase output script (default: P2PK to coinbaseKey)
        int cb_height{-1};                          // BIP34 height pushed in the coinbase (-1: the correct one)
        int64_t extra_nonce{0};                     // distinguishes otherwise identical blocks
        int32_t version{0x20000000};
        bool witness_commitment{false};             // add the BIP141 commitment output (needed iff a tx carries a witness)
        bool dup_coinbase{false};                   // coinbase without height / nonce: identical in every such block (BIP34 must be inactive)
    };

    std::shared_ptr<CBlock> BuildBlock(const BlockSpec& s)
    {
        auto b = std::make_shared<CBlock>();
        b->nVersion = s.version; b->hashPrevBlock = s.prev; b->nTime = s.time; b->nBits = Params().GenesisBlock().nBits;
        CMutableTransaction cb;
        cb.vin.resize(1); cb.vin[0].prevout.SetNull();
        cb.vin[0].scriptSig = s.dup_coinbase ? (CScript() << OP_1 << OP_1) : (CScript() << (s.cb_height < 0 ? s.height : s.cb_height) << CScriptNum(1000 + s.extra_nonce));
        cb.vout.resize(1); cb.vout[0].nValue = s.cb_value; cb.vout[0].scriptPubKey = s.cb_spk.empty() ? coinbaseSpk : s.cb_spk;
        b->vtx.push_back(MakeTransactionRef(cb));
        for (const auto& t : s.txs) b->vtx.push_back(t);
        if (s.witness_commitment) {
            // BIP141: commitment = SHA256d(witness merkle root || witness nonce), nonce = coinbase witness stack item
            CMutableTransaction cb2(*b->vtx[0]);
            cb2.vin[0].scriptWitness.stack = {std::vector<unsigned char>(32, 0x00)};
            b->vtx[0] = MakeTransactionRef(cb2);
            uint256 root = BlockWitnessMerkleRoot(*b);
            uint256 commit;
            CHash256().Write(root).Write(cb2.vin[0].scriptWitness.stack[0]).Finalize(commit);
            CTxOut out; out.nValue = 0;
            out.scriptPubKey.resize(38);
            out.scriptPubKey[0] = OP_RETURN; out.scriptPubKey[1] = 0x24; out.scriptPubKey[2] = 0xaa; out.scriptPubKey[3] = 0x21; out.scriptPubKey[4] = 0xa9; out.scriptPubKey[5] = 0xed;
            memcpy(&out.scriptPubKey[6], commit.begin(), 32);
            cb2.vout.push_back(out);
            b->vtx[0] = MakeTransactionRef(cb2);
        }
        b->hashMerkleRoot = BlockMerkleRoot(*b);
        Solve(*b);
        return b;
    }
    void Solve(CBlock& b) { while (!CheckProofOfWork(b.GetHash(), b.nBits, consensus())) ++b.nNonce; }

    // Mines `n` empty blocks paying the full subsidy to coinbaseKey on top of the active tip; returns the coinbase transactions.
    std::vector<CTransactionRef> MineBase(int n)
    {
        std::vector<CTransactionRef> cbs;
        for (int i = 0; i < n; ++i) {
            CBlockIndex* tip = Tip();
            BlockSpec s; s.prev = tip->GetBlockHash(); s.height = tip->nHeight + 1; s.time = tip->GetBlockTime() + 1;
            s.cb_value = GetBlockSubsidy(s.height, consensus());
            auto b = BuildBlock(s);
            bool nb{false};
            if (!cm().ProcessNewBlock(b, true, true, &nb) || Tip()->GetBlockHash() != b->GetHash()) throw std::runtime_error("MineBase: block not connected");
            cbs.push_back(b->vtx[0]);
        }
        return cbs;
    }

    bool SubmitHeader(const CBlockHeader& h, BlockValidationState& st)
    {
        std::vector<CBlockHeader> v{h};
        return cm().ProcessNewBlockHeaders(v, /*min_pow_checked=*/true, st);
    }
    // returns <ProcessNewBlock return value, new_block>
    std::pair<bool, bool> SubmitBlock(const std::shared_ptr<const CBlock>& b, bool requested)
    {
        bool nb{false};
        verdicts->checked.erase(b->GetHash());
        const bool r = cm().ProcessNewBlock(b, /*force_processing=*/requested, /*min_pow_checked=*/true, &nb);
        return {r, nb};
    }
    void Invalidate(const uint256& h)
    {
        BlockValidationState st; CBlockIndex* pi = Lookup(h);
        if (!pi) throw std::runtime_error("invalidate: unknown block");
        cm().ActiveChainstate().InvalidateBlock(st, pi);
        BlockValidationState s2; cm().ActiveChainstate().ActivateBestChain(s2);
    }
    void Reconsider(const uint256& h)
    {
        CBlockIndex* pi = Lookup(h);
        if (!pi) throw std::runtime_error("reconsider: unknown block");
        { LOCK(cs_main); cm().ActiveChainstate().ResetBlockFailureFlags(pi); cm().RecalculateBestHeader(); }
        BlockValidationState s2; cm().ActiveChainstate().ActivateBestChain(s2);
    }
    // reject reason of the last BlockChecked for h, "" if none or valid
    std::string Reason(const uint256& h)
    {
        auto it = verdicts->checked.find(h);
        return (it != verdicts->checked.end() && it->second.IsInvalid()) ? it->second.GetRejectReason() : "";
    }
    std::optional<Coin> GetCoin(const COutPoint& o) { LOCK(cs_main); return cm().ActiveChainstate().CoinsTip().GetCoin(o); }

    // Signs input `i` of mtx spending a P2PK-to-coinbaseKey output
    void SignP2PK(CMutableTransaction& mtx, size_t i, const CTxOut& spent)
    {
        FillableSigningProvider keystore; keystore.AddKey(coinbaseKey);
        SignatureData sd;
        if (!ProduceSignature(keystore, MutableTransactionSignatureCreator(mtx, i, spent.nValue, SignOptions{.sighash_type = SIGHASH_ALL}), spent.scriptPubKey, sd)) throw std::runtime_error("signing failed");
        UpdateInput(mtx.vin.at(i), sd);
    }
};

inline std::unique_ptr<ChainSim> MakeSim(const SimOptions& o = {})
{
    return std::make_unique<ChainSim>(o);
}

inline UniValue SortedIntArr(const std::set<int>& s) { UniValue a(UniValue::VARR); for (int x : s) a.push_back(x); return a; }

} // namespace vfh
#endif
