// Adapter for specs/UnreqSnapshot (C58 with two chainstates): every test starts from a regtest node on which the assumeutxo
// snapshot of height 110 has been activated (active chainstate at the snapshot base, historical chainstate at genesis,
// block data below the base forgotten, headers kept), then replays ProcessNewBlock deliveries of the six blocks of the
// specification's universe, requested (force_processing) or not.
//   unreqsnap replay <tests.ndjson>
#include <vfh.h>
#include <test/util/chainstate.h>
#include <test/util/setup_common.h>
#include <chain.h>
#include <chainparams.h>
#include <consensus/merkle.h>
#include <consensus/validation.h>
#include <pow.h>
#include <primitives/block.h>
#include <script/script.h>
#include <validation.h>
using namespace vfh;

namespace {
constexpr int SNAPH = 110;

std::shared_ptr<CBlock> MakeBlock(const Consensus::Params& cp, const uint256& prev, int height, int64_t prev_time, uint32_t bits, int salt)
{
    auto b = std::make_shared<CBlock>();
    CMutableTransaction cb;
    cb.vin.resize(1); cb.vin[0].prevout.SetNull();
    cb.vin[0].scriptSig = CScript() << height << CScriptNum(0x5F00 + salt);
    cb.vout.resize(1); cb.vout[0].nValue = 0; cb.vout[0].scriptPubKey = CScript() << OP_TRUE;
    b->vtx.push_back(MakeTransactionRef(std::move(cb)));
    b->nVersion = 0x20000000; b->hashPrevBlock = prev; b->nTime = (uint32_t)(prev_time + 1); b->nBits = bits; b->nNonce = 0;
    b->hashMerkleRoot = BlockMerkleRoot(*b);
    while (!CheckProofOfWork(b->GetHash(), b->nBits, cp)) ++b->nNonce;
    return b;
}

struct World {
    std::unique_ptr<TestChain100Setup> setup;
    std::map<int, std::shared_ptr<CBlock>> blk;    // specification block id -> block
    ChainstateManager& cm() { return *setup->m_node.chainman; }

    World()
    {
        setup = std::make_unique<TestChain100Setup>();
        setup->mineBlocks(10);
        const Consensus::Params& cp = Params().GetConsensus();
        uint256 h1, h109, h110; int64_t t1, t109, t110; uint32_t bits;
        {
            LOCK(cs_main);
            if (cm().ActiveHeight() != SNAPH) throw std::runtime_error("setup: height");
            for (int id : {1, 2}) {
                auto b = std::make_shared<CBlock>();
                if (!cm().m_blockman.ReadBlock(*b, *cm().ActiveChain()[id])) throw std::runtime_error("setup: read block");
                blk[id] = b;
            }
            const CBlockIndex* i1 = cm().ActiveChain()[1]; const CBlockIndex* i109 = cm().ActiveChain()[SNAPH - 1]; const CBlockIndex* i110 = cm().ActiveChain()[SNAPH];
            h1 = i1->GetBlockHash(); t1 = i1->GetBlockTime(); h109 = i109->GetBlockHash(); t109 = i109->GetBlockTime();
            h110 = i110->GetBlockHash(); t110 = i110->GetBlockTime(); bits = i110->nBits;
        }
        // block times must exceed the median time past of the parent; the chain's timestamps are increasing, so parent time + k does
        blk[3] = MakeBlock(cp, h1, 2, t1 + 1, bits, 3);
        blk[4] = MakeBlock(cp, h109, SNAPH, t109 + 1, bits, 4);
        blk[5] = MakeBlock(cp, h110, SNAPH + 1, t110, bits, 5);
        blk[6] = MakeBlock(cp, blk[5]->GetHash(), SNAPH + 2, blk[5]->nTime, bits, 6);
        if (!CreateAndActivateUTXOSnapshot(setup.get(), NoMalleation, /*reset_chainstate=*/true)) throw std::runtime_error("setup: snapshot activation failed");
        LOCK(cs_main);
        if (!cm().CurrentChainstate().m_from_snapshot_blockhash || !cm().HistoricalChainstate() || cm().ActiveHeight() != SNAPH)
            throw std::runtime_error("setup: unexpected state after snapshot activation");
    }

    UniValue Apply(const UniValue& a)
    {
        const int id = (int)I(a[1]); const bool req = B(a[2]);
        bool new_block = false;
        const bool ok = cm().ProcessNewBlock(blk.at(id), /*force_processing=*/req, /*min_pow_checked=*/true, &new_block);
        (void)ok;
        return UniValue(new_block ? "stored" : "other");
    }

    UniValue Project()
    {
        LOCK(cs_main);
        UniValue hdr(UniValue::VARR), data(UniValue::VARR), failed(UniValue::VARR);
        for (const auto& [id, b] : blk) {
            const CBlockIndex* pi = cm().m_blockman.LookupBlockIndex(b->GetHash());
            if (!pi) continue;
            hdr.push_back(id);
            if (pi->nStatus & BLOCK_HAVE_DATA) data.push_back(id);
            if (pi->nStatus & BLOCK_FAILED_VALID) failed.push_back(id);
        }
        const Chainstate* bgc = cm().HistoricalChainstate();
        UniValue o(UniValue::VOBJ);
        o.pushKV("hdr", hdr); o.pushKV("data", data); o.pushKV("failed", failed);
        o.pushKV("act", cm().ActiveHeight());
        o.pushKV("bg", bgc ? bgc->m_chain.Height() : -1);
        return Obj({{"obs", o}});
    }
};
} // namespace

int main(int argc, char** argv)
{
    if (argc < 3 || std::string(argv[1]) != "replay") { std::cerr << "usage: unreqsnap replay <tests.ndjson>\n"; return 2; }
    return ReplayMain<World>(argv[2],
        [](const UniValue&) { return std::make_unique<World>(); },
        [](World& w, const UniValue& a) { return w.Apply(a); },
        [](World& w) { return w.Project(); },
        {"obs", "@result"});
}
