// C37 adapter: drives a real AddrMan (deterministic = true, consistency_check_ratio = 1, NetGroupManager::NoAsmap(), mock
// time) with seeded operation sequences and records one JSON line per public call for TLC trace validation
// (specs/AddrMan/TraceAddrMan.tla).
//
//   addrman drive <seed> <sessions> <ops_per_session>      -> trace on stdout
//   addrman universe                                        -> prints the address universes (for inspection)
//
// After every call the line carries the complete observable state: Size() by network / table, the slot tables and the
// per-address statistics from GetEntries(), FindAddressEntry() of every universe address, and (through the friend class
// AddrManDeterministic the repository's fuzz target also uses) the pending test-before-evict collisions and m_last_good.
// "Hints" (hb / heb / hebs / order) tell the trace specification which bucket the code's keyed hash selects; they only
// resolve nondeterminism of the specification - a wrong hint can make a line unmatched but never makes a bad line match.
// CheckAddrman runs before and after every call (ratio 1) and aborts on failure: the SIGABRT handler then writes an
// {"e":"Abort"} line, which no action of the specification matches.
#include <vfh.h>

#include <addrman.h>
#include <addrman_impl.h>
#include <crypto/common.h>
#include <netaddress.h>
#include <netgroup.h>
#include <protocol.h>
#include <random.h>
#include <streams.h>
#include <test/util/random.h>
#include <test/util/setup_common.h>
#include <uint256.h>
#include <util/chaintype.h>
#include <util/time.h>

#include <csignal>
#include <cstdio>
#include <map>
#include <set>
#include <unistd.h>

using namespace vfh;

static const NetGroupManager g_ngm{NetGroupManager::NoAsmap()};

// friend of AddrManImpl (declared in addrman_impl.h for the fuzz target's helper of the same name)
class AddrManDeterministic : public AddrMan
{
public:
    AddrManDeterministic(uint64_t seed) : AddrMan(g_ngm, /*deterministic=*/true, /*consistency_check_ratio=*/1)
    {
        uint256 s; std::memcpy(s.begin(), &seed, sizeof(seed)); s.begin()[31] = 0x5a;
        LOCK(m_impl->cs);
        m_impl->insecure_rand.Reseed(s);
    }
    uint256 Key() const { return m_impl->nKey; }
    // test generation only: reseed the object's random generator so that the next Add passes the 1-in-2^refcount test
    // (Add draws randrange(check ratio) in Check() and then randrange(2^refcount))
    void ForcePass(int refcount)
    {
        for (uint64_t k = 1;; ++k) {
            uint256 s; std::memcpy(s.begin(), &k, sizeof(k)); s.begin()[31] = 0x77;
            FastRandomContext r{s};
            (void)r.randrange(1);
            if (r.randrange(uint64_t{1} << refcount) == 0) { LOCK(m_impl->cs); m_impl->insecure_rand.Reseed(s); return; }
        }
    }
    int64_t LastGood() const { LOCK(m_impl->cs); return TicksSinceEpoch<std::chrono::seconds>(m_impl->m_last_good); }
    // pending collisions in id order: the address if the id still exists
    std::vector<std::optional<CService>> Collisions() const
    {
        LOCK(m_impl->cs);
        std::vector<std::optional<CService>> out;
        for (nid_type id : m_impl->m_tried_collisions) {
            auto it = m_impl->mapInfo.find(id);
            if (it == m_impl->mapInfo.end()) out.emplace_back(std::nullopt); else out.emplace_back(CService{it->second});
        }
        return out;
    }
};

// ------------------------------------------------------------------------------------------------ universe
static const char* NetName(Network n)
{
    switch (n) {
    case NET_IPV4: return "ipv4"; case NET_IPV6: return "ipv6"; case NET_ONION: return "onion";
    case NET_I2P: return "i2p"; case NET_CJDNS: return "cjdns"; default: return "unroutable";
    }
}
static const std::vector<std::string> NET_NAMES{"ipv4", "ipv6", "onion", "i2p", "cjdns", "unroutable"};
static const std::vector<Network> NETS{NET_IPV4, NET_IPV6, NET_ONION, NET_I2P, NET_CJDNS};

static CNetAddr MakeNetAddr(Network net, FastRandomContext& rng, const std::vector<uint8_t>& prefix)
{
    uint8_t id; size_t len;
    switch (net) {
    case NET_IPV4: id = CNetAddr::BIP155Network::IPV4; len = ADDR_IPV4_SIZE; break;
    case NET_IPV6: id = CNetAddr::BIP155Network::IPV6; len = ADDR_IPV6_SIZE; break;
    case NET_ONION: id = CNetAddr::BIP155Network::TORV3; len = ADDR_TORV3_SIZE; break;
    case NET_I2P: id = CNetAddr::BIP155Network::I2P; len = ADDR_I2P_SIZE; break;
    default: id = CNetAddr::BIP155Network::CJDNS; len = ADDR_CJDNS_SIZE; break;
    }
    std::vector<uint8_t> b = rng.randbytes(len);
    for (size_t i = 0; i < prefix.size() && i < len; ++i) b[i] = prefix[i];
    if (net == NET_CJDNS) b[0] = 0xfc;
    DataStream s; s << id << b;
    CNetAddr a; s >> CAddress::V2_NETWORK(a);
    return a;
}

struct Slot { int b, p; bool operator==(const Slot&) const = default; };
struct UAddr { std::string name; CService svc; std::string net; std::string cls; bool routable; std::string self; };   // net = GetNetwork(), cls = GetNetClass()
struct USrc { std::string name; CNetAddr addr; };
struct Universe {
    std::vector<UAddr> addrs; std::vector<USrc> srcs;
    std::map<CService, size_t> idx; std::map<CNetAddr, size_t> sidx;
    // groups of addresses that share a tried slot (src = -1) or a new slot under source src: the driver dwells on them
    struct Cluster { int src; std::vector<size_t> addrs; };
    std::vector<Cluster> clusters;
    std::string Name(const CService& s) const { auto it = idx.find(s); return it == idx.end() ? "?" + s.ToStringAddrPort() : addrs[it->second].name; }
    std::string SrcName(const CNetAddr& s) const { auto it = sidx.find(s); return it == sidx.end() ? "?" + s.ToStringAddr() : srcs[it->second].name; }
};

static uint256 g_key;
static Slot TriedSlot(const CService& a) { AddrInfo i{CAddress{a, NODE_NONE}, CNetAddr{}}; int b = i.GetTriedBucket(g_key, g_ngm); return {b, i.GetBucketPosition(g_key, false, b)}; }
static int NewBucket(const CService& a, const CNetAddr& src) { AddrInfo i{CAddress{a, NODE_NONE}, src}; return i.GetNewBucket(g_key, src, g_ngm); }
static int NewPos(const CService& a, int bucket) { AddrInfo i{CAddress{a, NODE_NONE}, CNetAddr{}}; return i.GetBucketPosition(g_key, true, bucket); }
static Slot NewSlot(const CService& a, const CNetAddr& src) { int b = NewBucket(a, src); return {b, NewPos(a, b)}; }

struct Builder {
    Universe U; FastRandomContext rng{uint256{77}};
    const USrc& S(const std::string& n) { for (auto& s : U.srcs) if (s.name == n) return s; std::abort(); }
    const UAddr& A(const std::string& n) { for (auto& a : U.addrs) if (a.name == n) return a; std::abort(); }
    void AddSrc(const CNetAddr& a) { U.srcs.push_back({"s" + std::to_string(U.srcs.size() + 1), a}); U.sidx[a] = U.srcs.size() - 1; }
    // a routable address of `net` (bytes start with prefix) that satisfies pred
    CService Find(Network net, const std::vector<uint8_t>& prefix, const std::function<bool(const CService&)>& pred, uint16_t port = 8333)
    {
        for (int n = 0; n < 20'000'000; ++n) {
            CService c{MakeNetAddr(net, rng, prefix), port};
            if (!c.IsValid() || !c.IsRoutable() || U.idx.count(c)) continue;
            if (pred(c)) return c;
        }
        std::fprintf(stderr, "universe: search exhausted\n"); std::exit(2);
    }
    void Add(const CService& c)
    {
        UAddr a; a.name = "a" + std::to_string(U.addrs.size() + 1); a.svc = c; a.routable = c.IsRoutable();
        a.net = a.routable ? NetName(c.GetNetwork()) : "unroutable"; a.self = "none";
        a.cls = a.routable ? NetName(c.GetNetClass()) : "unroutable";
        U.idx[c] = U.addrs.size(); U.addrs.push_back(a);
    }
    void Finish()
    {
        for (auto& a : U.addrs) { auto it = U.sidx.find(static_cast<const CNetAddr&>(a.svc)); if (it != U.sidx.end()) a.self = U.srcs[it->second].name; }
        std::map<std::pair<int, int>, std::vector<size_t>> by_tried;
        for (size_t i = 0; i < U.addrs.size(); ++i) if (U.addrs[i].routable) { Slot t = TriedSlot(U.addrs[i].svc); by_tried[{t.b, t.p}].push_back(i); }
        for (auto& [k, v] : by_tried) if (v.size() > 1) U.clusters.push_back({-1, v});
        for (int si = 0; si < 3; ++si) {
            std::map<std::pair<int, int>, std::vector<size_t>> by_new;
            for (size_t i = 0; i < U.addrs.size(); ++i) if (U.addrs[i].routable) { Slot t = NewSlot(U.addrs[i].svc, U.srcs[si].addr); by_new[{t.b, t.p}].push_back(i); }
            for (auto& [k, v] : by_new) if (v.size() > 1) U.clusters.push_back({si, v});
        }
    }
};
static const auto ANY = [](const CService&) { return true; };

// IPv6 addresses with an embedded IPv4 address: GetNetwork() says IPv6, GetNetClass() (and the netgroup) say IPv4
enum class Emb { SIXTO4, TEREDO, NAT64, SIIT };
static CNetAddr Embedded(Emb kind, uint32_t ipv4, FastRandomContext& rng)
{
    std::array<uint8_t, 16> b{};
    const auto r = rng.randbytes(16);
    switch (kind) {
    case Emb::SIXTO4: std::copy(r.begin(), r.end(), b.begin()); b[0] = 0x20; b[1] = 0x02; WriteBE32(&b[2], ipv4); break;
    case Emb::TEREDO: std::copy(r.begin(), r.end(), b.begin()); b[0] = 0x20; b[1] = 0x01; b[2] = 0; b[3] = 0; WriteBE32(&b[12], ~ipv4); break;
    case Emb::NAT64: b[1] = 0x64; b[2] = 0xff; b[3] = 0x9b; WriteBE32(&b[12], ipv4); break;
    case Emb::SIIT: b[8] = 0xff; b[9] = 0xff; WriteBE32(&b[12], ipv4); break;
    }
    in6_addr a; std::memcpy(a.s6_addr, b.data(), 16);
    return CNetAddr{a};
}
// an embedded-IPv4 address of the given kind whose IPv4 address lies in hi16.x.y and that satisfies pred
static CService FindEmbedded(Builder& B, Emb kind, uint32_t hi16, const std::function<bool(const CService&)>& pred)
{
    for (int n = 0; n < 20'000'000; ++n) {
        CService c{Embedded(kind, (hi16 << 16) | uint32_t(B.rng.randbits(16)), B.rng), 8333};
        if (!c.IsValid() || !c.IsRoutable() || B.U.idx.count(c)) continue;
        if (c.GetNetwork() != NET_IPV6 || c.GetNetClass() != NET_IPV4) { std::fprintf(stderr, "universe: %s is not classified IPv6 / IPv4\n", c.ToStringAddr().c_str()); std::exit(2); }
        if (pred(c)) return c;
    }
    std::fprintf(stderr, "universe: search exhausted (embedded)\n"); std::exit(2);
}

static void CommonSources(Builder& B)
{
    // 12 sources in distinct groups (an address reaches refcount 8 only through 8 different source groups)
    for (int g = 1; g <= 9; ++g) { in_addr v4{}; v4.s_addr = htonl((251u << 24) | (uint32_t(g) << 16) | 0x0101); B.AddSrc(CNetAddr{v4}); }
    B.AddSrc(MakeNetAddr(NET_IPV6, B.rng, {0x2a, 0x02, 0x11, 0x22}));
    B.AddSrc(MakeNetAddr(NET_ONION, B.rng, {}));
    B.AddSrc(MakeNetAddr(NET_I2P, B.rng, {}));
}

// Universe 0: all networks; tried-slot clusters {a1,a2,a3}, {a4,a5,a15}, {a6,a7}; new-slot collisions under the frequent sources.
// (A keyed hash maps each group to 8 tried buckets: cross-network matches need a partner whose group can vary.)
static Universe BuildMixed()
{
    Builder B; CommonSources(B);
    auto ts = [&](const std::string& n) { return TriedSlot(B.A(n).svc); };
    auto ns = [&](const std::string& n, const std::string& s) { return NewSlot(B.A(n).svc, B.S(s).addr); };
    B.Add(B.Find(NET_IPV4, {250, 1}, ANY));                                                                   // a1
    B.Add(B.Find(NET_IPV4, {250, 1}, [&](const CService& c) { return TriedSlot(c) == ts("a1"); }));           // a2
    B.Add(B.Find(NET_IPV6, {0x2a, 0x01}, [&](const CService& c) { return TriedSlot(c) == ts("a1"); }));       // a3
    {   // a4 (onion) and a5 (i2p) with the same tried slot: birthday search
        std::map<std::pair<int, int>, CService> seen;
        for (int i = 0; i < 6000; ++i) { CService c = B.Find(NET_ONION, {}, ANY); Slot t = TriedSlot(c); seen.emplace(std::make_pair(t.b, t.p), c); }
        CService i2p = B.Find(NET_I2P, {}, [&](const CService& c) { Slot t = TriedSlot(c); return seen.count({t.b, t.p}) > 0; });
        Slot t = TriedSlot(i2p);
        B.Add(seen.at({t.b, t.p})); B.Add(i2p);                                                                // a4, a5
    }
    B.Add(B.Find(NET_CJDNS, {}, ANY));                                                                         // a6
    B.Add(B.Find(NET_IPV4, {250}, [&](const CService& c) { return TriedSlot(c) == ts("a6"); }));              // a7
    B.Add(B.Find(NET_IPV4, {250, 1}, [&](const CService& c) { return NewSlot(c, B.S("s1").addr) == ns("a1", "s1"); }));   // a8
    B.Add(B.Find(NET_IPV4, {}, [&](const CService& c) { return NewSlot(c, B.S("s1").addr) == ns("a4", "s1"); }));        // a9 (other network, same new slot)
    B.Add(B.Find(NET_ONION, {}, [&](const CService& c) { return NewSlot(c, B.S("s1").addr) == ns("a4", "s1"); }));        // a10
    B.Add(B.Find(NET_IPV6, {0x2a}, [&](const CService& c) { return NewSlot(c, B.S("s2").addr) == ns("a2", "s2"); }));      // a11
    B.Add(B.Find(NET_I2P, {}, [&](const CService& c) { return NewSlot(c, B.S("s2").addr) == ns("a5", "s2"); }));          // a12
    B.Add(B.Find(NET_CJDNS, {}, [&](const CService& c) { return NewSlot(c, B.S("s1").addr) == ns("a6", "s1"); }));        // a13
    B.Add(CService{static_cast<const CNetAddr&>(B.A("a1").svc), 8334});                                        // a14: a1's IP, other port
    B.Add(B.Find(NET_IPV4, {250}, [&](const CService& c) { return TriedSlot(c) == ts("a4"); }));              // a15
    { in_addr v4{}; v4.s_addr = htonl(0x0a000001); B.Add(CService{CNetAddr{v4}, 8333}); }                     // a16: 10.0.0.1, not routable
    // two sources that are universe addresses themselves (self-announcements carry no time penalty)
    B.AddSrc(static_cast<const CNetAddr&>(B.A("a1").svc));
    B.AddSrc(static_cast<const CNetAddr&>(B.A("a4").svc));
    B.Finish();
    return B.U;
}

// Universe 1: thirteen addresses of three networks share one tried slot (fills the test-before-evict set: limit 10), and
// three more collide with a1 in the new table under s1, s2, s3
static Universe BuildCluster()
{
    Builder B; CommonSources(B);
    B.Add(B.Find(NET_ONION, {}, ANY));
    const Slot t = TriedSlot(B.A("a1").svc);
    B.Add(B.Find(NET_ONION, {}, [&](const CService& c) { return TriedSlot(c) == t; }));
    for (int i = 3; i <= 11; ++i) B.Add(B.Find(NET_IPV4, {250}, [&](const CService& c) { return TriedSlot(c) == t; }));
    for (int i = 12; i <= 13; ++i) B.Add(B.Find(NET_IPV6, {0x2a, 0x03}, [&](const CService& c) { return TriedSlot(c) == t; }));
    for (int i = 1; i <= 3; ++i) {
        const CNetAddr src = B.S("s" + std::to_string(i)).addr;
        const Slot n = NewSlot(B.A("a1").svc, src);
        B.Add(B.Find(NET_ONION, {}, [&](const CService& c) { return NewSlot(c, src) == n; }));
    }
    B.AddSrc(static_cast<const CNetAddr&>(B.A("a2").svc));
    B.AddSrc(static_cast<const CNetAddr&>(B.A("a5").svc));
    B.Finish();
    return B.U;
}

// Universe 2: addresses that the two classification functions put into different networks (GetNetwork() = IPv6, GetNetClass() =
// IPv4: 6to4, Teredo, NAT64, SIIT). They share tried slots with ordinary IPv4 / IPv6 addresses (their netgroup is the embedded
// IPv4 address' /16), so that either kind gets evicted by the other, and new slots under the frequent sources.
static Universe BuildEmbedded()
{
    Builder B; CommonSources(B);
    auto ts = [&](const std::string& n) { return TriedSlot(B.A(n).svc); };
    auto ns = [&](const std::string& n, const std::string& s) { return NewSlot(B.A(n).svc, B.S(s).addr); };
    const uint32_t G1 = (8u << 8) | 8u, G2 = (9u << 8) | 9u, G3 = (11u << 8) | 11u, G4 = (12u << 8) | 12u;
    B.Add(B.Find(NET_IPV4, {8, 8}, ANY));                                                                                 // a1  8.8.x.y
    B.Add(FindEmbedded(B, Emb::SIXTO4, G1, [&](const CService& c) { return TriedSlot(c) == ts("a1"); }));                  // a2  6to4, a1's tried slot
    B.Add(FindEmbedded(B, Emb::TEREDO, G1, [&](const CService& c) { return TriedSlot(c) == ts("a1"); }));                  // a3  Teredo
    B.Add(FindEmbedded(B, Emb::NAT64, G1, [&](const CService& c) { return TriedSlot(c) == ts("a1"); }));                   // a4  NAT64
    B.Add(FindEmbedded(B, Emb::SIIT, G1, [&](const CService& c) { return TriedSlot(c) == ts("a1"); }));                    // a5  SIIT
    B.Add(FindEmbedded(B, Emb::SIXTO4, G2, ANY));                                                                          // a6  6to4 anchor
    B.Add(B.Find(NET_IPV4, {9, 9}, [&](const CService& c) { return TriedSlot(c) == ts("a6"); }));                          // a7  IPv4, a6's tried slot
    B.Add(B.Find(NET_IPV6, {0x2a, 0x01}, [&](const CService& c) { return TriedSlot(c) == ts("a6"); }));                    // a8  plain IPv6, a6's tried slot
    B.Add(FindEmbedded(B, Emb::TEREDO, G3, ANY));                                                                          // a9  Teredo anchor
    B.Add(B.Find(NET_IPV4, {11, 11}, [&](const CService& c) { return TriedSlot(c) == ts("a9"); }));                        // a10 IPv4, a9's tried slot
    B.Add(FindEmbedded(B, Emb::SIXTO4, G1, [&](const CService& c) { return NewSlot(c, B.S("s1").addr) == ns("a1", "s1"); })); // a11 6to4, a1's new slot under s1
    B.Add(B.Find(NET_IPV4, {9, 9}, [&](const CService& c) { return NewSlot(c, B.S("s2").addr) == ns("a6", "s2"); }));       // a12 IPv4, a6's new slot under s2
    B.Add(FindEmbedded(B, Emb::NAT64, G4, ANY));                                                                           // a13 NAT64
    B.Add(B.Find(NET_ONION, {}, ANY));                                                                                     // a14
    B.Add(B.Find(NET_IPV6, {0x2a, 0x04}, ANY));                                                                            // a15 plain IPv6
    B.Add(B.Find(NET_IPV4, {8, 8}, [&](const CService& c) { return NewSlot(c, B.S("s1").addr) == ns("a2", "s1"); }));       // a16 IPv4, a2's new slot under s1
    B.AddSrc(static_cast<const CNetAddr&>(B.A("a2").svc));
    B.AddSrc(static_cast<const CNetAddr&>(B.A("a7").svc));
    B.Finish();
    return B.U;
}

// ------------------------------------------------------------------------------------------------ logging
static const std::vector<std::pair<std::string, uint64_t>> FLAGS{{"N", NODE_NETWORK}, {"W", NODE_WITNESS}, {"C", NODE_COMPACT_FILTERS}};
static UniValue SvcJson(uint64_t f) { UniValue a(UniValue::VARR); for (auto& [n, b] : FLAGS) if (f & b) a.push_back(n); return a; }
static int64_t Secs(NodeSeconds t) { return TicksSinceEpoch<std::chrono::seconds>(t); }

static std::string g_cur_line;   // the call in flight, for the abort handler
static void OnAbort(int sig)
{
    std::string s = "{\"e\":\"Abort\",\"signal\":" + std::to_string(sig) + ",\"call\":" + (g_cur_line.empty() ? "null" : g_cur_line) + "}\n";
    (void)!write(1, s.data(), s.size());
    _exit(0);
}

struct Driver {
    const Universe* U{nullptr};
    std::unique_ptr<AddrManDeterministic> am;
    int64_t now{0};
    uint64_t seed{0};
    FastRandomContext rng{uint256{1}};
    std::map<std::string, int64_t> stats;
    int max_ref{0};

    UniValue State()
    {
        UniValue st(UniValue::VOBJ);
        std::map<std::string, UniValue> infos;
        UniValue nt(UniValue::VARR), tt(UniValue::VARR);
        for (bool tried : {false, true}) {
            for (const auto& [info, pos] : am->GetEntries(tried)) {
                const std::string n = U->Name(info);
                UniValue e(UniValue::VARR); e.push_back(pos.bucket); e.push_back(pos.position); e.push_back(n);
                (tried ? tt : nt).push_back(e);
                UniValue i(UniValue::VOBJ);
                i.pushKV("known", true); i.pushKV("tried", info.fInTried); i.pushKV("ref", info.nRefCount);
                i.pushKV("lastTry", Secs(info.m_last_try)); i.pushKV("lastCount", Secs(info.m_last_count_attempt));
                i.pushKV("lastSucc", Secs(info.m_last_success)); i.pushKV("attempts", info.nAttempts);
                i.pushKV("src", U->SrcName(info.source)); i.pushKV("nTime", Secs(info.nTime)); i.pushKV("svc", SvcJson(info.nServices));
                infos[n] = i;
                max_ref = std::max(max_ref, info.nRefCount);
            }
        }
        UniValue io(UniValue::VOBJ);
        for (const auto& a : U->addrs) {
            auto it = infos.find(a.name);
            if (it != infos.end()) { io.pushKV(a.name, it->second); infos.erase(it); continue; }
            UniValue i(UniValue::VOBJ);
            i.pushKV("known", false); i.pushKV("tried", false); i.pushKV("ref", 0); i.pushKV("lastTry", 0); i.pushKV("lastCount", 0);
            i.pushKV("lastSucc", 0); i.pushKV("attempts", 0); i.pushKV("src", "none"); i.pushKV("nTime", 0); i.pushKV("svc", UniValue(UniValue::VARR));
            io.pushKV(a.name, i);
        }
        UniValue foreign(UniValue::VARR);
        for (auto& [n, v] : infos) foreign.push_back(n);     // entries that are not universe addresses: must stay empty
        st.pushKV("info", io); st.pushKV("new", nt); st.pushKV("tried", tt); st.pushKV("foreign", foreign);
        UniValue live(UniValue::VARR); int64_t stale = 0;
        for (const auto& c : am->Collisions()) { if (c) live.push_back(U->Name(*c)); else ++stale; }
        st.pushKV("coll", live); st.pushKV("stale", stale); st.pushKV("lg", am->LastGood());
        UniValue sz(UniValue::VOBJ);
        sz.pushKV("all", (int64_t)am->Size()); sz.pushKV("new", (int64_t)am->Size(std::nullopt, true)); sz.pushKV("tried", (int64_t)am->Size(std::nullopt, false));
        UniValue bn(UniValue::VOBJ);
        for (Network n : NETS) { UniValue p(UniValue::VARR); p.push_back((int64_t)am->Size(n, true)); p.push_back((int64_t)am->Size(n, false)); p.push_back((int64_t)am->Size(n)); bn.pushKV(NetName(n), p); }
        { UniValue p(UniValue::VARR); p.push_back((int64_t)am->Size(NET_UNROUTABLE, true)); p.push_back((int64_t)am->Size(NET_UNROUTABLE, false)); p.push_back((int64_t)am->Size(NET_UNROUTABLE)); bn.pushKV("unroutable", p); }
        sz.pushKV("net", bn); st.pushKV("sz", sz);
        UniValue fe(UniValue::VOBJ);
        for (const auto& a : U->addrs) {
            UniValue p(UniValue::VARR);
            if (auto pos = am->FindAddressEntry(CAddress{a.svc, NODE_NONE})) { p.push_back(true); p.push_back(pos->tried); p.push_back(pos->multiplicity); p.push_back(pos->bucket); p.push_back(pos->position); }
            else { p.push_back(false); p.push_back(false); p.push_back(0); p.push_back(-1); p.push_back(-1); }
            fe.pushKV(a.name, p);
        }
        st.pushKV("fe", fe);
        return st;
    }

    void Out(UniValue& line, bool with_state = true)
    {
        if (with_state) line.pushKV("st", State());
        std::cout << line.write() << "\n" << std::flush;      // flushed line by line: the abort handler writes to the same descriptor
        g_cur_line.clear();
    }
    void Begin(const UniValue& line) { g_cur_line = line.write(); }

    void Reset(const Universe& u, int64_t t0, const char* kind)
    {
        U = &u; now = t0; SetMockTime(now); focus = nullptr; focus_left = 0;
        am = std::make_unique<AddrManDeterministic>(seed * 1000 + stats["sessions"]);
        ++stats["sessions"]; max_ref = 0;
        UniValue line(UniValue::VOBJ); line.pushKV("e", "Reset"); line.pushKV("kind", kind); line.pushKV("now", now);
        UniValue net(UniValue::VOBJ), routable(UniValue::VOBJ), self(UniValue::VOBJ), tslot(UniValue::VOBJ), npos(UniValue::VOBJ), text(UniValue::VOBJ);
        for (const auto& a : u.addrs) {
            net.pushKV(a.name, a.net); routable.pushKV(a.name, a.routable); self.pushKV(a.name, a.self); text.pushKV(a.name, a.svc.ToStringAddrPort());
            Slot t = TriedSlot(a.svc); UniValue tj(UniValue::VARR); tj.push_back(t.b); tj.push_back(t.p); tslot.pushKV(a.name, tj);
            UniValue pj(UniValue::VARR); for (int b = 0; b < ADDRMAN_NEW_BUCKET_COUNT; ++b) pj.push_back(NewPos(a.svc, b)); npos.pushKV(a.name, pj);
        }
        UniValue cls(UniValue::VOBJ); for (const auto& a : u.addrs) cls.pushKV(a.name, a.cls);
        UniValue uni(UniValue::VOBJ); uni.pushKV("net", net); uni.pushKV("cls", cls); uni.pushKV("routable", routable); uni.pushKV("self", self);
        UniValue hash(UniValue::VOBJ); hash.pushKV("tslot", tslot); hash.pushKV("npos", npos);
        line.pushKV("uni", uni); line.pushKV("hash", hash); line.pushKV("text", text);
        Out(line);
    }

    // the driver dwells on one cluster of colliding addresses for a while (collisions need the same few addresses and the
    // cluster's source again and again)
    const Universe::Cluster* focus{nullptr}; int focus_left{0};
    void Refocus() { if (focus_left-- <= 0) { focus = U->clusters.empty() ? nullptr : &U->clusters[rng.randrange(U->clusters.size())]; focus_left = 15 + rng.randrange(40); } }
    const UAddr& PickAddr()
    {
        Refocus();
        if (focus && rng.randrange(100) < 55) return U->addrs[focus->addrs[rng.randrange(focus->addrs.size())]];
        return U->addrs[rng.randrange(U->addrs.size())];
    }
    const USrc& PickSrc()
    {
        Refocus();
        if (focus && focus->src >= 0 && rng.randrange(100) < 60) return U->srcs[focus->src];
        // the first three sources are frequent (the designed new-table collisions happen under them)
        if (rng.randrange(10) < 6) return U->srcs[rng.randrange(3)];
        return U->srcs[rng.randrange(U->srcs.size())];
    }
    // t takes the tried slot, x collides and - five hours and a failed connection to t later - evicts it; then the same the other
    // way round. Each eviction moves an entry from the tried counters of its network to the new counters of its network.
    void EvictBothWays(const UAddr& t, const UAddr& x)
    {
        Add({&t}, PickSrc(), 0, {now}, {NODE_NETWORK}); Good(t, now);
        Add({&x}, PickSrc(), 0, {now}, {NODE_NETWORK}); Good(x, now);
        Tick(5 * 3600); Attempt(t, true, now); Tick(120); Resolve();
        Good(t, now);
        Tick(5 * 3600); Attempt(x, true, now); Tick(120); Resolve();
    }
    // y is announced into a new slot that x (fresh, referenced once) occupies: y is refused and its entry dropped again
    void BlockedScenario()
    {
        for (const auto& nc : U->clusters) {
            if (nc.src < 0) continue;
            const UAddr &x = U->addrs[nc.addrs[0]], &y = U->addrs[nc.addrs[1]];
            if (am->FindAddressEntry(CAddress{x.svc, NODE_NONE}) || am->FindAddressEntry(CAddress{y.svc, NODE_NONE})) continue;
            Add({&x}, U->srcs[nc.src], 0, {now}, {NODE_NETWORK});
            Add({&y}, U->srcs[nc.src], 0, {now}, {NODE_NETWORK});
            return;
        }
    }
    // a pending collision whose entry is deleted (its id stays behind in the set): t takes the tried slot, x collides with it,
    // a month later x is terrible and z, which shares x's new slot under src, overwrites it
    void StaleScenario()
    {
        for (int tries = 0; tries < 20; ++tries) {
            const auto& nc = U->clusters[rng.randrange(U->clusters.size())];
            if (nc.src < 0) continue;
            for (size_t xi : nc.addrs) for (const auto& tc : U->clusters) {
                if (tc.src >= 0 || std::find(tc.addrs.begin(), tc.addrs.end(), xi) == tc.addrs.end()) continue;
                size_t ti = tc.addrs[0] == xi ? tc.addrs[1] : tc.addrs[0];
                size_t zi = nc.addrs[0] == xi ? nc.addrs[1] : nc.addrs[0];
                const UAddr &x = U->addrs[xi], &t = U->addrs[ti], &z = U->addrs[zi];
                Add({&t}, PickSrc(), 0, {now}, {NODE_NETWORK}); Good(t, now);
                Add({&x}, U->srcs[nc.src], 0, {now}, {NODE_NETWORK}); Good(x, now);
                Tick(31 * 86400 + 200);
                Add({&z}, U->srcs[nc.src], 0, {now}, {NODE_NETWORK});
                return;
            }
        }
    }
    int64_t PickCallTime()
    {
        switch (rng.randrange(8)) { case 0: return now - 30; case 1: return now - 3600; case 2: return now + 5; default: return now; }
    }

    void Tick(int64_t d)
    {
        now += d; SetMockTime(now);
        UniValue line(UniValue::VOBJ); line.pushKV("e", "Tick"); line.pushKV("now", now);
        Out(line, false);
    }
    void RandomTick()
    {
        static const int64_t steps[] = {1, 7, 45, 90, 600, 1500, 3000, 3 * 3600, 5 * 3600, 26 * 3600, 3 * 86400, 8 * 86400, 31 * 86400};
        const int r = rng.randrange(100);
        Tick(r < 50 ? steps[rng.randrange(5)] : r < 82 ? steps[5 + rng.randrange(4)] : steps[9 + rng.randrange(4)]);
    }

    void Add(const std::vector<const UAddr*>& as, const USrc& src, int64_t pen, const std::vector<int64_t>& times, const std::vector<uint64_t>& svcs)
    {
        UniValue line(UniValue::VOBJ); line.pushKV("e", "Add");
        UniValue items(UniValue::VARR), hb(UniValue::VARR);
        std::vector<CAddress> v;
        for (size_t i = 0; i < as.size(); ++i) {
            UniValue it(UniValue::VOBJ); it.pushKV("a", as[i]->name); it.pushKV("t", times[i]); it.pushKV("svc", SvcJson(svcs[i]));
            items.push_back(it); hb.push_back(NewBucket(as[i]->svc, src.addr));
            v.emplace_back(as[i]->svc, ServiceFlags(svcs[i]), NodeSeconds{std::chrono::seconds{times[i]}});
        }
        line.pushKV("items", items); line.pushKV("src", src.name); line.pushKV("pen", pen); line.pushKV("hb", hb);
        Begin(line);
        const bool r = am->Add(v, src.addr, std::chrono::seconds{pen});
        line.pushKV("res", r); Out(line); ++stats["add"];
    }
    void RandomAdd()
    {
        static const int64_t ages[] = {0, 0, 0, 30, 600, 2 * 3600, 30 * 3600, 6 * 86400, 40 * 86400, -1200, -300};
        static const int64_t pens[] = {0, 0, 7200, 7200, 600, 90000, 100000000};
        const size_t k = rng.randrange(6) == 0 ? 2 + rng.randrange(3) : 1;
        std::vector<const UAddr*> as; std::vector<int64_t> ts; std::vector<uint64_t> sv;
        for (size_t i = 0; i < k; ++i) {
            as.push_back(&PickAddr()); ts.push_back(std::max<int64_t>(0, now - ages[rng.randrange(std::size(ages))]));
            sv.push_back(FLAGS[rng.randrange(3)].second | (rng.randbool() ? NODE_NETWORK : 0));
        }
        const USrc& src = rng.randrange(12) == 0 && as[0]->self != "none" ? U->srcs[U->sidx.at(static_cast<const CNetAddr&>(as[0]->svc))] : PickSrc();
        Add(as, src, pens[rng.randrange(std::size(pens))], ts, sv);
    }

    int EvictHint(const CService& a)   // bucket the occupant of a's tried slot would be moved to (its primary source's bucket)
    {
        const Slot t = TriedSlot(a);
        for (const auto& [info, pos] : am->GetEntries(true)) if (pos.bucket == t.b && pos.position == t.p) return info.GetNewBucket(g_key, g_ngm);
        return 0;
    }
    void Good(const UAddr& a, int64_t t)
    {
        UniValue line(UniValue::VOBJ); line.pushKV("e", "Good"); line.pushKV("a", a.name); line.pushKV("t", t); line.pushKV("heb", EvictHint(a.svc));
        Begin(line);
        const bool r = am->Good(a.svc, NodeSeconds{std::chrono::seconds{t}});
        line.pushKV("res", r); Out(line); ++stats["good"]; if (r) ++stats["good_moved"];
    }
    void Attempt(const UAddr& a, bool cf, int64_t t)
    {
        UniValue line(UniValue::VOBJ); line.pushKV("e", "Attempt"); line.pushKV("a", a.name); line.pushKV("cf", cf); line.pushKV("t", t);
        Begin(line); am->Attempt(a.svc, cf, NodeSeconds{std::chrono::seconds{t}}); Out(line); ++stats["attempt"];
    }
    void Connected(const UAddr& a, int64_t t)
    {
        UniValue line(UniValue::VOBJ); line.pushKV("e", "Connected"); line.pushKV("a", a.name); line.pushKV("t", t);
        Begin(line); am->Connected(a.svc, NodeSeconds{std::chrono::seconds{t}}); Out(line);
    }
    void SetServices(const UAddr& a, uint64_t f)
    {
        UniValue line(UniValue::VOBJ); line.pushKV("e", "SetServices"); line.pushKV("a", a.name); line.pushKV("svc", SvcJson(f));
        Begin(line); am->SetServices(a.svc, ServiceFlags(f)); Out(line);
    }
    void Resolve()
    {
        UniValue line(UniValue::VOBJ); line.pushKV("e", "Resolve");
        UniValue order(UniValue::VARR), hebs(UniValue::VARR);
        for (const auto& c : am->Collisions()) if (c) { order.push_back(U->Name(*c)); hebs.push_back(EvictHint(*c)); }
        line.pushKV("order", order); line.pushKV("hebs", hebs);
        Begin(line); am->ResolveCollisions(); Out(line); ++stats["resolve"];
    }
    UniValue SelRes(const std::pair<CAddress, NodeSeconds>& r)
    {
        UniValue o(UniValue::VOBJ);
        if (!r.first.IsValid() && r.first == CAddress{}) { o.pushKV("a", "none"); o.pushKV("lt", 0); }
        else { o.pushKV("a", U->Name(r.first)); o.pushKV("lt", Secs(r.second)); }
        return o;
    }
    void SelectTriedCollision()
    {
        UniValue line(UniValue::VOBJ); line.pushKV("e", "SelTC");
        Begin(line); auto r = am->SelectTriedCollision(); line.pushKV("res", SelRes(r)); Out(line);
    }
    void Select()
    {
        const bool new_only = rng.randrange(3) == 0;
        std::unordered_set<Network> nets; UniValue nj(UniValue::VARR);
        if (rng.randbool()) for (Network n : NETS) if (rng.randrange(3) == 0) { nets.insert(n); nj.push_back(NetName(n)); }
        UniValue line(UniValue::VOBJ); line.pushKV("e", "Select"); line.pushKV("newOnly", new_only); line.pushKV("nets", nj);
        Begin(line); auto r = const_cast<const AddrManDeterministic&>(*am).Select(new_only, nets); line.pushKV("res", SelRes(r)); Out(line);
    }
    void GetAddr()
    {
        static const size_t maxes[] = {0, 0, 1, 3, 8, 1000}; static const size_t pcts[] = {0, 0, 23, 50, 100};
        const size_t mx = maxes[rng.randrange(std::size(maxes))], pct = pcts[rng.randrange(std::size(pcts))];
        std::optional<Network> net; std::string nn = "any";
        if (rng.randrange(3) == 0) { net = NETS[rng.randrange(NETS.size())]; nn = NetName(*net); }
        const bool filtered = rng.randbool();
        UniValue line(UniValue::VOBJ); line.pushKV("e", "GetAddr"); line.pushKV("max", (int64_t)mx); line.pushKV("pct", (int64_t)pct); line.pushKV("net", nn); line.pushKV("filt", filtered);
        Begin(line);
        UniValue res(UniValue::VARR);
        for (const auto& a : am->GetAddr(mx, pct, net, filtered)) res.push_back(U->Name(a));
        line.pushKV("res", res); Out(line);
    }
    void Reload()
    {
        UniValue line(UniValue::VOBJ); line.pushKV("e", "Reload");
        Begin(line);
        try {
            DataStream s{};
            s << static_cast<const AddrMan&>(*am);
            line.pushKV("bytes", (int64_t)s.size());
            auto fresh = std::make_unique<AddrManDeterministic>(seed * 1000 + 500 + stats["reload"]);
            s >> static_cast<AddrMan&>(*fresh);
            am = std::move(fresh);
        } catch (const std::exception& e) {
            line.pushKV("e", "ReloadFailed"); line.pushKV("what", std::string(e.what()));
        }
        Out(line); ++stats["reload"];
    }

    void RandomOp()
    {
        const int r = rng.randrange(100);
        if (r < 34) RandomAdd();
        else if (r < 50) Good(PickAddr(), PickCallTime());
        else if (r < 61) Attempt(PickAddr(), rng.randrange(4) != 0, PickCallTime());
        else if (r < 72) RandomTick();
        else if (r < 79) Resolve();
        else if (r < 83) SelectTriedCollision();
        else if (r < 88) Select();
        else if (r < 91) Connected(PickAddr(), PickCallTime());
        else if (r < 93) SetServices(PickAddr(), FLAGS[rng.randrange(3)].second);
        else if (r < 96) GetAddr();
        else if (r < 97) StaleScenario();
        else Reload();
    }

    // one address is announced again and again by rotating sources until it sits in 8 new buckets and is then refused a ninth.
    // Each further reference is 2^refcount times harder to get, so the object's random generator is steered (ForcePass): the
    // limit is then the only thing that can refuse the ninth reference.
    void Pump()
    {
        const UAddr& target = U->addrs[rng.randrange(4)];
        const size_t start = rng.randrange(12);
        int at_limit = 0;
        for (int i = 0; i < 70 && at_limit < 10; ++i) {
            Tick(1 + rng.randrange(20));
            const auto pos = am->FindAddressEntry(CAddress{target.svc, NODE_NONE});
            if (pos && pos->tried) break;
            const int ref = pos ? pos->multiplicity : 0;
            if (ref >= ADDRMAN_NEW_BUCKETS_PER_ADDRESS) ++at_limit;
            am->ForcePass(ref);
            Add({&target}, U->srcs[(start + i) % 12], 0, {now}, {NODE_NETWORK});
            if (rng.randrange(8) == 0) RandomOp();
        }
    }
};

static int Drive(uint64_t seed, int sessions, int ops)
{
    std::signal(SIGABRT, OnAbort); std::signal(SIGSEGV, OnAbort);
    {
        AddrManDeterministic probe{0};
        g_key = probe.Key();
    }
    const Universe mixed = BuildMixed(), cluster = BuildCluster(), embedded = BuildEmbedded();
    Driver D; D.seed = seed;
    { uint256 s; std::memcpy(s.begin(), &seed, sizeof(seed)); s.begin()[30] = 0x33; D.rng.Reseed(s); }
    const int64_t T0 = 1'200'000'000;
    for (int s = 0; s < sessions; ++s) {
        const int kind = s % 4;     // 0: mixed universe, random calls; 1: cluster universe; 2: embedded-IPv4 universe; 3: pump
        if (kind == 2) {
            D.Reset(embedded, T0 + s * 1000, "embedded");
            // evictions in both directions between embedded-IPv4 and ordinary addresses, then random calls
            static const int pairs[][2] = {{0, 1}, {5, 6}, {8, 9}, {3, 4}, {7, 5}, {0, 2}};
            const size_t first = D.rng.randrange(std::size(pairs));
            for (size_t k = 0; k < 3; ++k) { const auto& p = pairs[(first + k) % std::size(pairs)]; D.EvictBothWays(embedded.addrs[p[0]], embedded.addrs[p[1]]); }
            for (int i = 0; i < ops; ++i) D.RandomOp();
        } else if (kind == 1) {
            D.Reset(cluster, T0 + s * 1000, "cluster");
            // fill phase: everything announced, the first Good takes the slot, the others collide
            for (const auto& a : cluster.addrs) D.Add({&a}, D.PickSrc(), 0, {D.now - 100}, {NODE_NETWORK});
            for (size_t i = 0; i < 13; ++i) D.Good(cluster.addrs[i], D.now);     // one enters tried, ten collide, two find the set full
            for (int i = 0; i < ops; ++i) D.RandomOp();
        } else if (kind == 3) {
            D.Reset(mixed, T0 + s * 1000, "pump");
            D.Pump();
            for (int i = 0; i < ops / 2; ++i) D.RandomOp();
            D.Pump();
        } else {
            D.Reset(mixed, T0 + s * 1000, "mixed");
            D.BlockedScenario(); D.StaleScenario();        // on the fresh object: the pending entry is certain to be overwritten
            for (int i = 0; i < ops; ++i) { if (i == ops / 2) D.StaleScenario(); D.RandomOp(); }
        }
    }
    UniValue end(UniValue::VOBJ); end.pushKV("e", "End");
    for (auto& [k, v] : D.stats) end.pushKV(k, v);
    std::cout << end.write() << std::endl;
    return 0;
}

int main(int argc, char** argv)
{
    if (argc < 2) { std::cerr << "usage: addrman drive <seed> <sessions> <ops> | universe\n"; return 2; }
    const std::string mode = argv[1];
    auto setup = MakeNoLogFileContext<const BasicTestingSetup>(ChainType::REGTEST);
    SeedRandomStateForTest(SeedRand::ZEROS);
    if (mode == "drive") return Drive(argc > 2 ? std::strtoull(argv[2], nullptr, 10) : 1, argc > 3 ? std::atoi(argv[3]) : 4, argc > 4 ? std::atoi(argv[4]) : 300);
    if (mode == "universe") {
        { AddrManDeterministic probe{0}; g_key = probe.Key(); }
        for (const Universe& u : {BuildMixed(), BuildCluster(), BuildEmbedded()}) {
            for (const auto& a : u.addrs) { Slot t = TriedSlot(a.svc); std::printf("%s %s/%s %s tried=(%d,%d) self=%s\n", a.name.c_str(), a.net.c_str(), a.cls.c_str(), a.svc.ToStringAddrPort().c_str(), t.b, t.p, a.self.c_str()); }
            for (const auto& s : u.srcs) std::printf("%s %s\n", s.name.c_str(), s.addr.ToStringAddr().c_str());
        }
        return 0;
    }
    std::cerr << "unknown mode\n";
    return 2;
}
