// Adapter for specs/TxPrivacy (C39).
//   txprivacy replay <tests.ndjson>          TxPrivacy.tla behaviours on a real PeerManager (netsim.h, every message the node pushes is captured)
//   txprivacy drive <seed> <episodes> <maxtx> <maxatt>   seeded random driver of the real PrivateBroadcast(maxtx, maxatt); prints one JSON
//                                             line per call (engine E3, validated by TracePrivBroadcast.tla)
// replay: peers 1 (manual: outbound-style inventory timer, no eviction logic), 2 (inbound), 3 (inbound, noban) and private-broadcast
// connections are real CNodes; transactions "a" and "b" are fresh signed segwit transactions per test; "submit" / "submitprivate" go
// through node::BroadcastTransaction (the RPC path), "peertx" / "getdata" / "pbgetdata" / "pbpong" are real serialized messages,
// "trickle" is SendMessages after the mock clock moved 10 minutes, "block" is a block the node connects. Compared: the tx-related
// messages (inv of transactions, tx, notfound, ping on private-broadcast connections) the acting peer receives, mempool membership, the
// private broadcast queue; tx-related messages to any other peer are reported as well.
#include "netsim.h"
#include <node/transaction.h>
#include <node/types.h>
#include <private_broadcast.h>
#include <random.h>
using namespace vfh;
using namespace netsim;

namespace {

constexpr CAmount LARGE_COIN{10'000'000};     // coins above 0.1 BTC are split into 100 before tests spend them

struct World {
    std::unique_ptr<NetSim> sim;
    World()
    {
        NetOptions o; o.fund_coins = 100; o.capture = true;
        sim = std::make_unique<NetSim>(o);
        sim->connman().SetPeerConnectTimeout(std::chrono::seconds{99999999});     // no inactivity checks: the test peers never answer pings
        Split(60);
    }
    // every test spends two coins: turn `k` of the funded 2 BTC coins into 100 coins each (one block)
    void Split(int k)
    {
        NetSim& S = *sim;
        if (S.coins.empty() || S.coins.back().out.nValue < LARGE_COIN) S.Fund(100);     // no large coin left: fund more from the next mature coinbases
        auto sp = S.OnTip();
        std::vector<CMutableTransaction> made;
        for (int i = 0; i < k && !S.coins.empty() && S.coins.back().out.nValue > LARGE_COIN; ++i) {
            const SimCoin c = S.coins.back(); S.coins.pop_back();      // the large coins are kept at the back
            CMutableTransaction m; m.version = 2;
            m.vin.emplace_back(c.op, CScript(), MAX_BIP125_RBF_SEQUENCE);
            for (int j = 0; j < 100; ++j) m.vout.emplace_back((c.out.nValue - 200000) / 100, S.wpkh);
            S.SignWpkh(m, 0, c.out);
            sp.txs.push_back(MakeTransactionRef(m));
            made.push_back(m);
        }
        auto b = S.BuildBlock(sp);
        if (!S.SubmitOwn(b) || S.Tip()->GetBlockHash() != b->GetHash()) throw std::runtime_error("split block not connected");
        std::deque<SimCoin> small;
        for (const auto& m : made) for (uint32_t j = 0; j < m.vout.size(); ++j) small.push_back(NetSim::OutputOf(m, j));
        // the small coins first, the remaining large ones stay at the back as a reserve for further splits
        for (auto it = small.rbegin(); it != small.rend(); ++it) S.coins.push_front(*it);
        S.Advance(std::chrono::seconds{1});
    }
};

struct Test {
    NetSim& S;
    std::map<std::string, CTransactionRef> tx;
    std::map<int, CNode*> peer;
    std::map<int, CNode*> pbconn;
    std::map<int, uint64_t> ping_nonce;
    std::set<std::string> confirmed;

    // `used`: the normal peers the test talks to (the others would only cost their bloom filters)
    Test(NetSim& s, const std::set<int>& used) EXCLUSIVE_LOCKS_REQUIRED(NetEventsInterface::g_msgproc_mutex) : S(s)
    {
        if (S.coins.size() < 10 || S.coins.front().out.nValue > LARGE_COIN) throw std::runtime_error("out of coins");
        SentLog().clear();
        // keep the tip recent (the clock moves 10 minutes per trickle)
        if (GetTime() - S.Tip()->GetBlockTime() > 3600) { auto b = S.BuildBlock(S.OnTip()); if (!S.SubmitOwn(b)) throw std::runtime_error("cannot refresh tip"); }
        tx["a"] = MakeTransactionRef(S.Spend({S.TakeCoin()}, 1, 30000));
        tx["b"] = MakeTransactionRef(S.Spend({S.TakeCoin()}, 1, 40000));
        PeerSpec p1; p1.conn = ConnectionType::MANUAL;
        PeerSpec p2; p2.conn = ConnectionType::INBOUND;
        PeerSpec p3; p3.conn = ConnectionType::INBOUND; p3.perms = NetPermissionFlags::NoBan;
        if (used.count(1)) peer[1] = &S.AddPeer(p1);
        if (used.count(2)) peer[2] = &S.AddPeer(p2);
        if (used.count(3)) peer[3] = &S.AddPeer(p3);
        for (auto& [i, n] : peer) { S.Pump(*n); if (n->fDisconnect) throw std::runtime_error("peer disconnected after handshake"); }
    }
    ~Test()
    {
        // nothing of this test may stay in the shared node's private broadcast queue or mempool
        for (const auto& [nme, t] : tx) S.peerman().AbortPrivateBroadcast(t->GetHash().ToUint256());
        {
            LOCK2(cs_main, S.pool().cs);
            for (const auto& [nme, t] : tx) S.pool().removeRecursive(*t, MemPoolRemovalReason::EXPIRY);
        }
        S.Sync();
        S.DropPeers();
    }
    std::string NameOfHash(const uint256& h) const
    {
        for (const auto& [nme, t] : tx) if (t->GetHash().ToUint256() == h || t->GetWitnessHash().ToUint256() == h) return nme;
        return "?";
    }
    // tx-related messages pushed to `node` since SentLog index `from`
    UniValue MsgsTo(const CNode& node, size_t from, bool with_ping, std::map<int, uint64_t>* nonce_out = nullptr, int conn_id = 0) const
    {
        UniValue out(UniValue::VARR);
        for (const SentMsg* m : SentTo(node, from)) {
            UniValue txs(UniValue::VARR);
            std::vector<std::string> names;
            if (m->type == NetMsgType::INV || m->type == NetMsgType::NOTFOUND) {
                DataStream ds{m->data}; std::vector<CInv> v; ds >> v;
                for (const CInv& inv : v) if (inv.IsGenTxMsg()) names.push_back(NameOfHash(inv.hash));
                if (names.empty()) continue;
            } else if (m->type == NetMsgType::TX) {
                DataStream ds{m->data}; CTransactionRef t; ds >> TX_WITH_WITNESS(t);
                names.push_back(NameOfHash(t->GetWitnessHash().ToUint256()));
            } else if (m->type == NetMsgType::PING && with_ping) {
                DataStream ds{m->data}; uint64_t nonce{0}; ds >> nonce;
                if (nonce_out) (*nonce_out)[conn_id] = nonce;
            } else continue;
            std::sort(names.begin(), names.end());
            for (const auto& s : names) txs.push_back(s);
            out.push_back(Obj({{"type", m->type}, {"txs", txs}}));
        }
        return out;
    }
    // tx-related messages to anybody but `except`
    UniValue Others(const CNode* except, size_t from) const
    {
        UniValue out(UniValue::VARR);
        auto scan = [&](const std::string& who, const CNode* n) {
            if (n == except) return;
            const UniValue m = MsgsTo(*n, from, false);
            for (size_t i = 0; i < m.size(); ++i) out.push_back(Obj({{"to", who}, {"type", m[i]["type"]}, {"txs", m[i]["txs"]}}));
        };
        for (const auto& [i, n] : peer) scan("p" + std::to_string(i), n);
        for (const auto& [i, n] : pbconn) scan("c" + std::to_string(i), n);
        return out;
    }

    UniValue Apply(const UniValue& a, UniValue& others) EXCLUSIVE_LOCKS_REQUIRED(NetEventsInterface::g_msgproc_mutex)
    {
        const std::string op = a[0].get_str();
        const size_t from = SentLog().size();
        const CNode* actor = nullptr;
        UniValue res(UniValue::VOBJ);
        std::string to = "none";
        UniValue msgs(UniValue::VARR);
        if (op == "submit" || op == "submitprivate") {
            std::string err;
            const auto r = node::BroadcastTransaction(S.m_node, tx.at(a[1].get_str()), err, /*max_tx_fee=*/0,
                                                      op == "submit" ? node::TxBroadcast::MEMPOOL_AND_BROADCAST_TO_ALL : node::TxBroadcast::NO_MEMPOOL_PRIVATE_BROADCAST,
                                                      /*wait_callback=*/false);
            if (r != node::TransactionError::OK) throw std::runtime_error("BroadcastTransaction failed: " + err);
            S.Sync();
        } else if (op == "trickle") {
            CNode& n = *peer.at(a[1].getInt<int>());
            S.Advance(std::chrono::minutes{10});
            S.peerman().SendMessages(n);
            actor = &n; to = "p" + std::to_string(a[1].getInt<int>());
            msgs = MsgsTo(n, from, false);
        } else if (op == "getdata") {
            CNode& n = *peer.at(a[1].getInt<int>());
            std::vector<CInv> v{CInv(MSG_WTX, tx.at(a[2].get_str())->GetWitnessHash().ToUint256())};
            S.Deliver(n, NetMsgType::GETDATA, v);
            actor = &n; to = "p" + std::to_string(a[1].getInt<int>());
            msgs = MsgsTo(n, from, false);
        } else if (op == "peertx") {
            CNode& n = *peer.at(a[1].getInt<int>());
            S.DeliverRaw(n, NetMsgType::TX, NetSim::Ser(*tx.at(a[2].get_str())));
            actor = &n; to = "p" + std::to_string(a[1].getInt<int>());
            msgs = MsgsTo(n, from, false);
        } else if (op == "block") {
            auto sp = S.OnTip();
            for (const auto& [nme, t] : tx) if (S.pool().exists(t->GetWitnessHash())) { sp.txs.push_back(t); confirmed.insert(nme); }
            auto b = S.BuildBlock(sp);
            if (!S.SubmitOwn(b) || S.Tip()->GetBlockHash() != b->GetHash()) throw std::runtime_error("block not connected");
        } else if (op == "pbconnect") {
            const int c = a[1].getInt<int>();
            PeerSpec ps; ps.conn = ConnectionType::PRIVATE_BROADCAST; ps.wtxid = false;
            CNode& n = S.AddPeer(ps);
            pbconn[c] = &n;
            actor = &n; to = "c";
            msgs = MsgsTo(n, from, true, &ping_nonce, c);
        } else if (op == "pbgetdata") {
            const int c = a[1].getInt<int>();
            CNode& n = *pbconn.at(c);
            std::vector<CInv> v{CInv(MSG_TX, tx.at(a[2].get_str())->GetHash().ToUint256())};
            S.Deliver(n, NetMsgType::GETDATA, v);
            actor = &n; to = "c";
            msgs = MsgsTo(n, from, true, &ping_nonce, c);
        } else if (op == "pbpong") {
            const int c = a[1].getInt<int>();
            CNode& n = *pbconn.at(c);
            S.Deliver(n, NetMsgType::PONG, ping_nonce.at(c));
            actor = &n; to = "c";
            msgs = MsgsTo(n, from, true, &ping_nonce, c);
        } else {
            throw std::runtime_error("unknown action " + op);
        }
        others = Others(actor, from);
        res.pushKV("to", to); res.pushKV("msgs", msgs);
        return res;
    }

    UniValue Project()
    {
        UniValue o(UniValue::VOBJ);
        UniValue pool(UniValue::VARR), pbq(UniValue::VARR);
        std::set<uint256> queued;
        for (const auto& info : S.peerman().GetPrivateBroadcastInfo()) queued.insert(info.tx->GetWitnessHash().ToUint256());
        for (const auto& [nme, t] : tx) {
            if (S.pool().exists(t->GetWitnessHash())) pool.push_back(nme);
            if (queued.count(t->GetWitnessHash().ToUint256())) pbq.push_back(nme);
        }
        o.pushKV("pool", pool); o.pushKV("pbq", pbq);
        UniValue closed(UniValue::VARR);
        for (const auto& [c, n] : pbconn) if (n->fDisconnect) closed.push_back(c);
        o.pushKV("closed", closed);
        return o;
    }
};

int Replay(const std::string& path)
{
    InstallAbortHandlers();
    World w;
    ForEachLine(path, [&](size_t tn, const UniValue& t) {
        R().cur_test = tn; R().cur_step = 0; R().cur_action = UniValue::VNULL;
        LOCK(NetEventsInterface::g_msgproc_mutex);
        std::string why;
        try {
            if (w.sim->coins.size() < 60 || w.sim->coins[59].out.nValue > LARGE_COIN) w.Split(20);      // fewer than 60 small coins left
            const UniValue& st = t["steps"];
            std::set<int> used;
            for (size_t i = 0; i < st.size(); ++i) {
                const std::string op = st[i]["a"][0].get_str();
                if (op == "trickle" || op == "getdata" || op == "peertx") used.insert(st[i]["a"][1].getInt<int>());
            }
            Test T(*w.sim, used);
            for (size_t i = 0; i < st.size() && why.empty(); ++i) {
                R().cur_step = i; R().cur_action = st[i]["a"];
                UniValue others(UniValue::VARR);
                const UniValue res = T.Apply(st[i]["a"], others);
                ++R().steps;
                R().Count(std::string("act_") + st[i]["a"][0].get_str());
                const UniValue have = T.Project();
                UniValue keys(UniValue::VARR), obs(UniValue::VOBJ);
                if (!JsonDiff(st[i]["r"], res, "result").empty()) { keys.push_back("result"); obs.pushKV("result", res); }
                if (others.size() > 0) { keys.push_back("others"); obs.pushKV("others", others); }
                for (const char* k : {"pool", "pbq"}) {
                    if (!JsonDiff(st[i]["exp"][k], have[k], k).empty()) { keys.push_back(std::string("state.") + k); obs.pushKV(std::string("state.") + k, have[k]); }
                }
                // the model's connection states: "closed" must agree with fDisconnect
                const UniValue& conn = st[i]["exp"]["hid"]["conn"];
                for (size_t c = 1; c <= conn.size(); ++c) {
                    if (!T.pbconn.count((int)c)) continue;
                    const bool model_closed = conn[c - 1].get_str() == "closed";
                    if (model_closed != (bool)T.pbconn[(int)c]->fDisconnect) { keys.push_back("state.closed"); obs.pushKV("state.closed", have["closed"]); break; }
                }
                if (keys.size() > 0) { UniValue d(UniValue::VOBJ); d.pushKV("keys", keys); d.pushKV("obs", obs); why = d.write(); }
            }
        } catch (const std::exception& e) { why = std::string("exception: ") + e.what(); }
        if (!why.empty()) R().Mismatch(R().cur_action, why);
        ++R().tests;
    });
    R().Summary();
    return 0;
}

// ---------------------------------------------------------------------------------------------------------------------- E3 driver
int Drive(uint64_t seed, int episodes, size_t maxtx, size_t maxatt)
{
    BasicTestingSetup setup{ChainType::REGTEST};
    FastRandomContext rng{uint256{(uint8_t)(seed & 0xff)}};
    const std::vector<std::string> names{"a", "b", "c", "d"};
    std::vector<CTransactionRef> txs;
    for (size_t i = 0; i < names.size(); ++i) {
        CMutableTransaction m; m.version = 2; m.vin.emplace_back(COutPoint(Txid::FromUint256(uint256{(uint8_t)(i + 1)}), 0)); m.vout.emplace_back(1000 + i, CScript() << OP_TRUE);
        txs.push_back(MakeTransactionRef(m));
    }
    auto name_of = [&](const CTransactionRef& t) { for (size_t i = 0; i < txs.size(); ++i) if (txs[i]->GetWitnessHash() == t->GetWitnessHash()) return names[i]; return std::string("?"); };
    int64_t now = 1000;
    for (int ep = 0; ep < episodes; ++ep) {
        now = 1000 + 1600000000;
        SetMockTime(now);
        PrivateBroadcast pb{maxtx, maxatt};
        NodeId next_node = 0;
        auto info = [&]() {
            UniValue o(UniValue::VOBJ);
            std::map<std::string, std::tuple<bool, int64_t, int64_t>> m;
            for (const auto& nme : names) m[nme] = {false, 0, 0};
            for (const auto& e : pb.GetBroadcastInfo()) {
                int64_t conf = 0; for (const auto& p : e.peers) if (p.received.has_value()) ++conf;
                m[name_of(e.tx)] = {true, (int64_t)e.peers.size(), conf};
            }
            for (const auto& [nme, v] : m) o.pushKV(nme, Obj({{"present", std::get<0>(v)}, {"sent", std::get<1>(v)}, {"confirmed", std::get<2>(v)}}));
            return o;
        };
        Emit(Obj({{"e", "reset"}}));
        const int steps = 10 + (int)rng.randrange(30);
        for (int s = 0; s < steps; ++s) {
            const int r = (int)rng.randrange(100);
            const size_t ti = rng.randrange(txs.size());
            const NodeId nd = next_node == 0 ? 1 : 1 + (NodeId)rng.randrange(next_node + 1);      // a node id seen so far, or the next one
            UniValue e(UniValue::VOBJ);
            if (r < 22) {
                const auto res = pb.Add(txs[ti]);
                e = Obj({{"e", "add"}, {"tx", names[ti]}, {"res", res == PrivateBroadcast::AddResult::Added ? "Added" : res == PrivateBroadcast::AddResult::AlreadyPresent ? "AlreadyPresent" : "QueueFull"}});
            } else if (r < 30) {
                const auto res = pb.Remove(txs[ti]);
                e = Obj({{"e", "remove"}, {"tx", names[ti]}, {"res", Obj({{"found", res.has_value()}, {"confirmed", (int64_t)res.value_or(0)}})}});
            } else if (r < 58) {
                // mostly a fresh connection; now and then one that asked before (the class must not give it a second transaction)
                const NodeId id = (next_node > 0 && rng.randrange(8) == 0) ? 1 + (NodeId)rng.randrange(next_node) : ++next_node;
                const auto res = pb.PickTxForSend(id, CService{});
                e = Obj({{"e", "pick"}, {"node", (int64_t)id}, {"res", res ? name_of(*res) : std::string("none")}});
            } else if (r < 66) {
                const auto res = pb.GetTxForNode(nd);
                e = Obj({{"e", "txfornode"}, {"node", (int64_t)nd}, {"res", res ? name_of(*res) : std::string("none")}});
            } else if (r < 78) {
                pb.NodeConfirmedReception(nd);
                e = Obj({{"e", "confirm"}, {"node", (int64_t)nd}});
            } else if (r < 83) {
                e = Obj({{"e", "didconfirm"}, {"node", (int64_t)nd}, {"res", pb.DidNodeConfirmReception(nd)}});
            } else if (r < 87) {
                e = Obj({{"e", "havepending"}, {"res", pb.HavePendingTransactions()}});
            } else if (r < 92) {
                UniValue st(UniValue::VARR);
                std::vector<std::string> v; for (const auto& t : pb.GetStale()) v.push_back(name_of(t));
                std::sort(v.begin(), v.end()); for (const auto& x : v) st.push_back(x);
                e = Obj({{"e", "stale"}, {"res", st}});
            } else {
                const int64_t dt = r < 95 ? 1 : r < 98 ? 61 : 301;
                now += dt; SetMockTime(now);
                e = Obj({{"e", "tick"}, {"dt", dt}});
            }
            e.pushKV("info", info());
            Emit(e);
        }
    }
    SetMockTime(0);
    return 0;
}

} // namespace

int main(int argc, char** argv)
{
    if (argc >= 3 && std::string(argv[1]) == "replay") return Replay(argv[2]);
    if (argc >= 6 && std::string(argv[1]) == "drive") return Drive(std::stoull(argv[2]), std::stoi(argv[3]), std::stoul(argv[4]), std::stoul(argv[5]));
    std::cerr << "usage: txprivacy replay <tests.ndjson> | txprivacy drive <seed> <episodes> <maxtx> <maxatt>\n";
    return 2;
}
