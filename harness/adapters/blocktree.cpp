// Adapter for specs/BlockTree (C08, C58): replays model paths on a real in-process regtest node.
// Model block ids <-> real mined blocks; kind "badacc" = wrong BIP34 height in the coinbase (ContextualCheckBlock),
// "badconn" = a transaction spending a non-existent output (ConnectBlock). span > 1 = a chain of `span` blocks whose
// intermediate blocks are only ever delivered as headers.
#include <chainsim.h>
using namespace vfh;

namespace {
struct Blk { std::vector<std::shared_ptr<CBlock>> chain; uint256 hash; int height; uint32_t time; };   // chain.back() is the model block

SimOptions g_opts;
std::unique_ptr<ChainSim> g_pristine;   // built once in the parent; every forked test inherits it untouched

struct World {
    std::unique_ptr<ChainSim> sim;
    std::vector<Blk> blks;            // index = model id; [0] = genesis
    std::map<uint256, int> ids;
    explicit World(const UniValue& init, int minwork)
    {
        if (g_pristine) sim = std::move(g_pristine); else sim = MakeSim(g_opts);
        const CBlock& g = Params().GenesisBlock();
        blks.push_back({{}, g.GetHash(), 0, g.nTime});
        ids[g.GetHash()] = 0;
        // the world of the initial state (normally empty) is built by replaying its mine actions
        const UniValue& w = init["world"];
        for (int b = 1; b <= w["n"].getInt<int>(); ++b) { const std::string k = std::to_string(b); Mine(w["parent"][k].getInt<int>(), w["kind"][k].get_str(), w["span"][k].getInt<int>()); }
    }
    void Mine(int parent, const std::string& kind, int span)
    {
        const int id = blks.size();
        Blk nb; uint256 prev = blks.at(parent).hash; int h = blks.at(parent).height; uint32_t t = blks.at(parent).time;
        for (int k = 1; k <= span; ++k) {
            ChainSim::BlockSpec s; s.prev = prev; s.height = ++h; s.time = ++t; s.extra_nonce = id * 1000 + k; s.cb_value = 0;
            s.cb_spk = CScript() << OP_TRUE;
            // the defect sits in the block the model block stands for: the last one of a header-only chain (spans 288/289), the
            // first one of a fully delivered chain (so that the chain fails as a unit, as the model treats it)
            const bool full = span > 1 && span < 200;
            const bool last = full ? k == 1 : k == span;
            if (last && kind == "badacc") s.cb_height = h + 1;
            if (last && kind == "badconn") {
                CMutableTransaction tx;
                tx.vin.resize(1); tx.vin[0].prevout = COutPoint(Txid::FromUint256(uint256{static_cast<uint8_t>(100 + id)}), 0);
                tx.vout.resize(1); tx.vout[0].nValue = 0;
                tx.vout[0].scriptPubKey = CScript() << OP_RETURN << std::vector<unsigned char>(40, 0x42);
                s.txs.push_back(MakeTransactionRef(tx));
            }
            auto b = sim->BuildBlock(s);
            nb.chain.push_back(b); prev = b->GetHash();
        }
        nb.hash = prev; nb.height = h; nb.time = t;
        ids[nb.hash] = id;
        blks.push_back(std::move(nb));
    }
    UniValue Apply(const UniValue& a)
    {
        const std::string op = a[0].get_str();
        UniValue res(UniValue::VARR);
        if (op == "mine") { Mine(a[1].getInt<int>(), a[2].get_str(), a[3].getInt<int>()); res.push_back("none"); }
        else if (op == "header") {
            bool ok = true;
            for (auto& b : blks.at(a[1].getInt<int>()).chain) { BlockValidationState st; ok = sim->SubmitHeader(static_cast<const CBlockHeader&>(*b), st); if (!ok) break; }
            res.push_back(ok ? "true" : "false");
        }
        else if (op == "block") {
            const Blk& B = blks.at(a[1].getInt<int>());
            // spans 288/289 stand for header-only chains (C58); every other span > 1 is a real chain whose blocks are all delivered
            const bool full = B.chain.size() > 1 && B.chain.size() < 200;
            for (size_t k = 0; k + 1 < B.chain.size(); ++k) {
                if (full) { sim->SubmitBlock(B.chain[k], true); continue; }
                BlockValidationState st; if (!sim->SubmitHeader(static_cast<const CBlockHeader&>(*B.chain[k]), st)) break;
            }
            auto [r, nb] = sim->SubmitBlock(B.chain.back(), a[2].get_bool());
            res.push_back(r ? "true" : "false"); res.push_back(nb ? "true" : "false");
        }
        else if (op == "invalidate") { sim->Invalidate(blks.at(a[1].getInt<int>()).hash); res.push_back("none"); }
        else if (op == "reconsider") { sim->Reconsider(blks.at(a[1].getInt<int>()).hash); res.push_back("none"); }
        else throw std::runtime_error("unknown op " + op);
        return res;
    }
    UniValue Project()
    {
        LOCK(cs_main);
        auto& cm = sim->cm();
        const int tip = ids.at(cm.ActiveChain().Tip()->GetBlockHash());
        std::set<int> hdr, data, failed;
        for (size_t i = 0; i < blks.size(); ++i) {
            const CBlockIndex* pi = cm.m_blockman.LookupBlockIndex(blks[i].hash);
            if (!pi) continue;
            hdr.insert(i);
            if (pi->nStatus & BLOCK_HAVE_DATA) data.insert(i);
            if (pi->nStatus & BLOCK_FAILED_VALID) failed.insert(i);
        }
        UniValue obs = Obj({{"hdr", SortedIntArr(hdr)}, {"data", SortedIntArr(data)}, {"failed", SortedIntArr(failed)}, {"tip", tip}});
        return Obj({{"obs", obs}});
    }
};
} // namespace

int main(int argc, char** argv)
{
    if (argc < 3) return 2;
    const int minwork = argc > 3 ? atoi(argv[3]) : 0;
    if (std::string(argv[1]) == "replay") {
        // regtest: every block adds 2 to chain work, genesis has 2: work(height h) = 2 * (h + 1)
        if (minwork > 0) g_opts.min_chain_work = arith_uint256(2 * (uint64_t)(minwork + 1));
        const bool use_fork = argc > 4 && std::string(argv[4]) == "fork";
        if (use_fork) g_pristine = MakeSim(g_opts);
        const int rc = ReplayMain<World>(argv[2],
            [&](const UniValue& init) { return std::make_unique<World>(init, minwork); },
            [](World& w, const UniValue& a) { return w.Apply(a); },
            [](World& w) { return w.Project(); },
            /*internal_keys=*/{"obs", "@result"}, /*fork_per_test=*/use_fork);
        g_pristine.reset();
        return rc;
    }
    return 2;
}
