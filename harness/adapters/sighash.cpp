// Adapter for specs/Sighash (C10). Every row of the TLC-enumerated table holds a base signing context and a single-field
// mutation of it, both as abstract field values, plus the specification's verdicts:
//   valid / mvalid   the context has a digest at all (BIP341 rejects some hash types and SINGLE without output)
//   one / mone       the digest is the constant uint256 1 (legacy SIGHASH_SINGLE without matching output)
//   changed          the digest of the mutated context differs from the base digest
//   sig / multi      VerifyScript verdicts for a real signature made in the base context
// Level A (digest): both contexts are concretised into real transactions; the real SignatureHash / SignatureHashSchnorr are
//   evaluated in every cache mode (none, PrecomputedTransactionData, primed SigHashCache, reused ScriptExecutionData, both
//   transaction classes); all modes must agree and digest equality must be what the specification says.
// Mode `cache` (specs/Sighash/SigCache.tla): behaviours = sequences of signature checks through one SigHashCache and one
//   checker object, with equal / equal-length-but-different / different-length scriptCodes; every digest through the cache is
//   compared with the stateless one and every CheckECDSASignature verdict with the specification's.
// Level B (script): the base digest is signed with a real key; P2PK / P2WPKH / P2WSH / three-signature / P2TR key path /
//   tapscript spends are verified with VerifyScript in the base and in the mutated context, with the signature untouched,
//   bit-flipped, replaced by its high-S twin, or made by another key.
#include <vfh.h>
#include <hash.h>
#include <key.h>
#include <primitives/transaction.h>
#include <pubkey.h>
#include <script/interpreter.h>
#include <script/script.h>
#include <script/script_error.h>
#include <script/signingprovider.h>
#include <addresstype.h>
#include <secp256k1.h>
#include <uint256.h>
#include <memory>
#include <optional>
using namespace vfh;

namespace {

using Bytes = std::vector<unsigned char>;

CKey MakeKey(uint8_t fill)
{
    Bytes b(32, fill);
    CKey k; k.Set(b.begin(), b.end(), true);
    assert(k.IsValid());
    return k;
}
const CKey& KeyA() { static const CKey k = MakeKey(0x11); return k; }
const CKey& KeyB() { static const CKey k = MakeKey(0x22); return k; }   // the "wrong key"
// internal key of a tapscript output, as a function of the abstract script id of the spent output
CKey InternalKey(int v) { Bytes b(32, 0x33); b[0] = (uint8_t)(v & 0xff); b[1] = (uint8_t)(v >> 8); b[2] = 0x77; CKey k; k.Set(b.begin(), b.end(), true); assert(k.IsValid()); return k; }

uint256 TagHash(const char* tag, int v) { HashWriter w{}; w << std::string(tag) << v; return w.GetSHA256(); }

// ---- injective concretisation of the abstract field values
COutPoint Prevout(int v) { return COutPoint(Txid::FromUint256(TagHash("prevout", v)), (uint32_t)v); }
uint32_t Sequence(int v) { return 0xfff00000u + (uint32_t)v; }
CScript ScriptSig(int v) { return CScript() << Bytes{(uint8_t)v, (uint8_t)(v >> 8), 0x55}; }
Bytes WitnessItem(int v) { return Bytes{(uint8_t)v, (uint8_t)(v >> 8), 0x66}; }
CAmount SpentAmount(int v) { return 100000 + 1000 * (CAmount)v; }
CScript SpentScript(int v) { return CScript() << OP_DUP << Bytes{(uint8_t)v, (uint8_t)(v >> 8), 0x44} << OP_EQUAL; }
CAmount OutValue(int v) { return 100 * (CAmount)v; }
CScript OutScript(int v) { return CScript() << OP_1 << Bytes{(uint8_t)v, (uint8_t)(v >> 8), 0x22}; }
// the executed script as a function of its abstract id: id 1 is the plain script, other ids prepend a neutral push/drop
CScript Neutral(int v) { CScript s; if (v != 1) s << Bytes{(uint8_t)v, (uint8_t)(v >> 8), 0x33} << OP_DROP; return s; }
Bytes PubA() { const CPubKey p = KeyA().GetPubKey(); return Bytes(p.begin(), p.end()); }
Bytes XPubA() { const XOnlyPubKey x{KeyA().GetPubKey()}; return Bytes(x.begin(), x.end()); }
CScript CodeSingle(int v) { CScript s = Neutral(v); s << PubA() << OP_CHECKSIG; return s; }
CScript CodeMulti(int v) { CScript s = Neutral(v); s << PubA() << OP_CHECKSIGVERIFY << PubA() << OP_CHECKSIGVERIFY << PubA() << OP_CHECKSIG; return s; }
CScript LeafScript(int v) { CScript s = Neutral(v); s << XPubA() << OP_CHECKSIG; return s; }
Bytes Annex(int v) { return Bytes{0x50, (uint8_t)v, 0xaa}; }
uint32_t CodesepPos(int v) { return v == 1 ? 0xFFFFFFFFu : (uint32_t)v; }

SigVersion SV(const std::string& s)
{
    if (s == "BASE") return SigVersion::BASE;
    if (s == "WITNESS_V0") return SigVersion::WITNESS_V0;
    if (s == "TAPROOT") return SigVersion::TAPROOT;
    return SigVersion::TAPSCRIPT;
}
bool IsTap(SigVersion sv) { return sv == SigVersion::TAPROOT || sv == SigVersion::TAPSCRIPT; }

struct World {
    CMutableTransaction tx;
    std::vector<CTxOut> spent;
    unsigned i{0};
    int32_t ht{0};
};

World BuildWorld(const UniValue& c)
{
    World w;
    w.tx.version = (uint32_t)c["ver"].getInt<int>();
    w.tx.nLockTime = (uint32_t)c["lock"].getInt<int>();
    for (size_t n = 0; n < c["ins"].size(); ++n) {
        const UniValue& in = c["ins"][n];
        CTxIn txin(Prevout(in["prev"].getInt<int>()), ScriptSig(in["ssig"].getInt<int>()), Sequence(in["seq"].getInt<int>()));
        txin.scriptWitness.stack.push_back(WitnessItem(in["wit"].getInt<int>()));
        w.tx.vin.push_back(txin);
        w.spent.emplace_back(SpentAmount(in["amt"].getInt<int>()), SpentScript(in["spk"].getInt<int>()));
    }
    for (size_t m = 0; m < c["outs"].size(); ++m) {
        w.tx.vout.emplace_back(OutValue(c["outs"][m]["val"].getInt<int>()), OutScript(c["outs"][m]["spk"].getInt<int>()));
    }
    w.i = (unsigned)c["i"].getInt<int>() - 1;
    w.ht = c["ht"].getInt<int>();
    return w;
}

struct Dig { bool ok{false}; uint256 h; };

const int32_t PRIME_HTS[] = {1, 2, 3, 0x81, 0x82, 0x83, 0x41, 4, 0, 0xff, 0x101};

ScriptExecutionData ExecData(const UniValue& c, SigVersion sv)
{
    ScriptExecutionData ed;
    ed.m_annex_init = true;
    const int a = c["annex"].getInt<int>();
    ed.m_annex_present = a != 0;
    if (a != 0) ed.m_annex_hash = (HashWriter{} << Annex(a)).GetSHA256();
    if (sv == SigVersion::TAPSCRIPT) {
        ed.m_tapleaf_hash_init = true;
        const CScript leaf = LeafScript(c["leaf"].getInt<int>());
        ed.m_tapleaf_hash = ComputeTapleafHash(TAPROOT_LEAF_TAPSCRIPT, leaf);
        ed.m_codeseparator_pos_init = true;
        ed.m_codeseparator_pos = CodesepPos(c["codesep"].getInt<int>());
    }
    return ed;
}

// Level A: the digest of an abstract context through the real functions, in every cache mode. `err` is set when two modes disagree.
Dig ApiDigest(const UniValue& c, SigVersion sv, std::string& err_out)
{
    std::string err;   // the first inconsistency is the one reported
    struct Keep { std::string& out; std::string& cur; ~Keep() { if (out.empty()) out = cur; } } keep{err_out, err};
    const World w = BuildWorld(c);
    const CTransaction ctx(w.tx);
    Dig d;
    if (!IsTap(sv)) {
        const CScript code = CodeSingle(c["code"].getInt<int>());
        const CScript other_code = CodeMulti(c["code"].getInt<int>());
        const CScript same_len_code = [&] { CScript x = code; x.back() = OP_CHECKSIGVERIFY; return x; }();   // same length as `code`, different content
        const CAmount amount = w.spent[w.i].nValue;
        d.ok = true;
        d.h = SignatureHash(code, w.tx, w.i, w.ht, amount, sv);
        if (SignatureHash(code, ctx, w.i, w.ht, amount, sv) != d.h) { if (err.empty()) err = "CTransaction and CMutableTransaction give different digests"; }
        PrecomputedTransactionData forced; forced.Init(ctx, std::vector<CTxOut>(w.spent), /*force=*/true);
        if (SignatureHash(code, ctx, w.i, w.ht, amount, sv, &forced) != d.h) { if (err.empty()) err = "PrecomputedTransactionData (forced) changes the digest"; }
        const PrecomputedTransactionData plain(ctx);
        if (SignatureHash(code, ctx, w.i, w.ht, amount, sv, &plain) != d.h) { if (err.empty()) err = "PrecomputedTransactionData changes the digest"; }
        // PrecomputedTransactionData must not matter for any hash type
        for (const int32_t h : PRIME_HTS) {
            if (SignatureHash(code, ctx, w.i, h, amount, sv, &forced) != SignatureHash(code, ctx, w.i, h, amount, sv)) { if (err.empty()) err = "PrecomputedTransactionData changes the digest (hash type " + std::to_string(h) + ")"; }
        }
        // one SigHashCache used for many hash types and two scriptCodes, as the checker of one input does: all hash types with
        // one scriptCode (hits within a slot, misses across slots), then the other scriptCode (replaces the slots), twice
        SigHashCache cache;
        for (int round = 0; round < 2; ++round) {
            for (const CScript* sc : {&other_code, &same_len_code, &code}) {
                for (const int32_t h : PRIME_HTS) {
                    const uint256 want = SignatureHash(*sc, ctx, w.i, h, amount, sv, &forced);
                    if (SignatureHash(*sc, ctx, w.i, h, amount, sv, &forced, &cache) != want) { if (err.empty()) err = "SigHashCache changes the digest (hash type " + std::to_string(h) + ")"; }
                }
            }
            if (SignatureHash(code, ctx, w.i, w.ht, amount, sv, &forced, &cache) != d.h) { if (err.empty()) err = "SigHashCache changes the digest"; }
        }
        R().Count("digest_evaluations", 5 + 2 * (int)std::size(PRIME_HTS) + 2 * (3 * 2 * (int)std::size(PRIME_HTS) + 1));
    } else {
        PrecomputedTransactionData td; td.Init(ctx, std::vector<CTxOut>(w.spent), /*force=*/true);
        ScriptExecutionData ed = ExecData(c, sv);
        d.ok = SignatureHashSchnorr(d.h, ed, ctx, w.i, (uint8_t)w.ht, sv, td, MissingDataBehavior::FAIL);
        {   // CMutableTransaction instantiation
            PrecomputedTransactionData td2; td2.Init(w.tx, std::vector<CTxOut>(w.spent), true);
            ScriptExecutionData ed2 = ExecData(c, sv);
            uint256 h2;
            const bool ok2 = SignatureHashSchnorr(h2, ed2, w.tx, w.i, (uint8_t)w.ht, sv, td2, MissingDataBehavior::FAIL);
            if (ok2 != d.ok || (ok2 && h2 != d.h)) { if (err.empty()) err = "CTransaction and CMutableTransaction give different digests"; }
        }
        {   // one ScriptExecutionData used for several signatures of the same input (caches the SINGLE output hash)
            ScriptExecutionData ed3 = ExecData(c, sv);
            for (const uint8_t h : {(uint8_t)3, (uint8_t)0x83, (uint8_t)1, (uint8_t)w.ht}) {
                uint256 a, b;
                ScriptExecutionData fresh = ExecData(c, sv);
                const bool oka = SignatureHashSchnorr(a, ed3, ctx, w.i, h, sv, td, MissingDataBehavior::FAIL);
                const bool okb = SignatureHashSchnorr(b, fresh, ctx, w.i, h, sv, td, MissingDataBehavior::FAIL);
                if (oka != okb || (oka && a != b)) { if (err.empty()) err = "reused ScriptExecutionData changes the digest"; }
                if (h == (uint8_t)w.ht && (oka != d.ok || (oka && a != d.h))) { if (err.empty()) err = "reused ScriptExecutionData changes the digest"; }
            }
        }
        R().Count("digest_evaluations", 10);
    }
    return d;
}

// ---- Level B: real spends
const script_verify_flags CONSENSUS_FLAGS = SCRIPT_VERIFY_P2SH | SCRIPT_VERIFY_DERSIG | SCRIPT_VERIFY_CHECKLOCKTIMEVERIFY |
                                            SCRIPT_VERIFY_CHECKSEQUENCEVERIFY | SCRIPT_VERIFY_WITNESS | SCRIPT_VERIFY_NULLDUMMY | SCRIPT_VERIFY_TAPROOT;

struct Spend {
    World w;
    SigVersion sv;
    std::string kind;
    CScript script_code;     // ECDSA kinds: what the interpreter passes to the checker
    CScript witness_script;  // p2wsh kinds
    int nsigs{1};
    Bytes annex;             // empty = none
    uint256 merkle_root;     // key path
    CScript leaf; Bytes control;
};

// builds the spend of input c.i for script kind `kind`; the spent output of that input is a real script of that kind
Spend BuildSpend(const UniValue& c, SigVersion sv, const std::string& kind)
{
    Spend s; s.w = BuildWorld(c); s.sv = sv; s.kind = kind;
    World& w = s.w;
    const int code = c["code"].getInt<int>();
    CTxIn& in = w.tx.vin[w.i];
    in.scriptSig = CScript(); in.scriptWitness.SetNull();
    const int own_spk = c["ins"][w.i]["spk"].getInt<int>();
    if (kind == "p2pk") { s.script_code = CodeSingle(code); w.spent[w.i].scriptPubKey = s.script_code; }
    else if (kind == "multi") { s.script_code = CodeMulti(code); w.spent[w.i].scriptPubKey = s.script_code; s.nsigs = 3; }
    else if (kind == "p2wpkh") {
        const CPubKey pk = KeyA().GetPubKey();
        w.spent[w.i].scriptPubKey = GetScriptForDestination(WitnessV0KeyHash(pk));
        s.script_code = CScript() << OP_DUP << OP_HASH160 << ToByteVector(pk.GetID()) << OP_EQUALVERIFY << OP_CHECKSIG;
    } else if (kind == "p2wsh" || kind == "wmulti") {
        s.witness_script = kind == "p2wsh" ? CodeSingle(code) : CodeMulti(code);
        s.nsigs = kind == "p2wsh" ? 1 : 3;
        s.script_code = s.witness_script;
        w.spent[w.i].scriptPubKey = GetScriptForDestination(WitnessV0ScriptHash(s.witness_script));
    } else if (kind == "keypath") {
        s.merkle_root = TagHash("merkle root", own_spk);
        const auto tweaked = XOnlyPubKey(KeyA().GetPubKey()).CreateTapTweak(&s.merkle_root);
        assert(tweaked);
        w.spent[w.i].scriptPubKey = GetScriptForDestination(WitnessV1Taproot(tweaked->first));
    } else if (kind == "tapscript") {
        s.leaf = LeafScript(c["leaf"].getInt<int>());
        TaprootBuilder b;
        b.Add(0, s.leaf, TAPROOT_LEAF_TAPSCRIPT);
        b.Finalize(XOnlyPubKey(InternalKey(own_spk).GetPubKey()));
        w.spent[w.i].scriptPubKey = GetScriptForDestination(b.GetOutput());
        const auto sd = b.GetSpendData();
        const auto it = sd.scripts.find({Bytes(s.leaf.begin(), s.leaf.end()), TAPROOT_LEAF_TAPSCRIPT});
        assert(it != sd.scripts.end() && !it->second.empty());
        s.control = *it->second.begin();
    }
    if (IsTap(sv) && c["annex"].getInt<int>() != 0) s.annex = Annex(c["annex"].getInt<int>());
    return s;
}

// the digest the interpreter will compute for this spend and hash type (real functions); nullopt = no digest
std::optional<uint256> SpendDigest(const Spend& s, int ht)
{
    const CTransaction ctx(s.w.tx);
    if (!IsTap(s.sv)) return SignatureHash(s.script_code, ctx, s.w.i, ht, s.w.spent[s.w.i].nValue, s.sv);
    PrecomputedTransactionData td; td.Init(ctx, std::vector<CTxOut>(s.w.spent), true);
    ScriptExecutionData ed;
    ed.m_annex_init = true; ed.m_annex_present = !s.annex.empty();
    if (!s.annex.empty()) ed.m_annex_hash = (HashWriter{} << s.annex).GetSHA256();
    if (s.sv == SigVersion::TAPSCRIPT) {
        ed.m_tapleaf_hash_init = true; ed.m_tapleaf_hash = ComputeTapleafHash(TAPROOT_LEAF_TAPSCRIPT, s.leaf);
        ed.m_codeseparator_pos_init = true; ed.m_codeseparator_pos = 0xFFFFFFFFu;
    }
    uint256 h;
    if (!SignatureHashSchnorr(h, ed, ctx, s.w.i, (uint8_t)ht, s.sv, td, MissingDataBehavior::FAIL)) return std::nullopt;
    return h;
}

// signature (with hash type byte) by `key` over `digest`
Bytes SignDigest(const Spend& s, const CKey& key, const uint256& digest, int ht)
{
    Bytes sig;
    if (!IsTap(s.sv)) {
        const bool ok = key.Sign(digest, sig);
        assert(ok);
        sig.push_back((unsigned char)ht);
    } else {
        sig.resize(64);
        const uint256 aux = TagHash("aux", 1);
        const bool ok = s.kind == "keypath" ? key.SignSchnorr(digest, sig, &s.merkle_root, aux) : key.SignSchnorr(digest, sig, nullptr, aux);
        assert(ok);
        if (ht != 0) sig.push_back((unsigned char)ht);
    }
    return sig;
}

void SetHashTypeByte(Bytes& sig, SigVersion sv, int ht)
{
    if (!IsTap(sv)) { sig.back() = (unsigned char)ht; return; }
    if (sig.size() == 65) sig.pop_back();
    if (ht != 0) sig.push_back((unsigned char)ht);
}

// mod-n negation of s in a DER signature followed by the hash type byte (same method as src/test/script_tests.cpp)
Bytes HighS(const Bytes& sig_with_ht)
{
    Bytes v(sig_with_ht.begin(), sig_with_ht.end() - 1);
    Bytes r(v.begin() + 4, v.begin() + 4 + v[3]);
    Bytes s(v.begin() + 6 + v[3], v.begin() + 6 + v[3] + v[5 + v[3]]);
    while (s.size() < 33) s.insert(s.begin(), 0x00);
    const int ret = secp256k1_ec_seckey_negate(secp256k1_context_static, s.data() + 1);
    assert(ret);
    if (s[1] < 0x80) s.erase(s.begin());
    Bytes out{0x30, (unsigned char)(4 + r.size() + s.size()), 0x02, (unsigned char)r.size()};
    out.insert(out.end(), r.begin(), r.end());
    out.push_back(0x02); out.push_back((unsigned char)s.size());
    out.insert(out.end(), s.begin(), s.end());
    out.push_back(sig_with_ht.back());
    return out;
}

// puts the signatures (sigs[0] is checked first) into the spend
void Install(Spend& s, const std::vector<Bytes>& sigs)
{
    CTxIn& in = s.w.tx.vin[s.w.i];
    in.scriptSig = CScript(); in.scriptWitness.SetNull();
    auto& st = in.scriptWitness.stack;
    if (s.kind == "p2pk" || s.kind == "multi") {
        for (size_t k = sigs.size(); k-- > 0;) in.scriptSig << sigs[k];
    } else if (s.kind == "p2wpkh") {
        st.push_back(sigs[0]); st.push_back(PubA());
    } else if (s.kind == "p2wsh" || s.kind == "wmulti") {
        for (size_t k = sigs.size(); k-- > 0;) st.push_back(sigs[k]);
        st.emplace_back(s.witness_script.begin(), s.witness_script.end());
    } else if (s.kind == "keypath") {
        st.push_back(sigs[0]);
    } else if (s.kind == "tapscript") {
        st.push_back(sigs[0]); st.emplace_back(s.leaf.begin(), s.leaf.end()); st.push_back(s.control);
    }
    if (!s.annex.empty()) st.push_back(s.annex);
}

// VerifyScript of the spend, as validation does it (PrecomputedTransactionData from the spent outputs); for the ECDSA kinds
// the checker without precomputed data must agree. Returns "" or a description of an inconsistency through `err`.
bool Verify(const Spend& s, script_verify_flags flags, std::string& err)
{
    const CTransaction ctx(s.w.tx);
    PrecomputedTransactionData td; td.Init(ctx, std::vector<CTxOut>(s.w.spent));
    const CAmount amount = s.w.spent[s.w.i].nValue;
    ScriptError se;
    const TransactionSignatureChecker checker(&ctx, s.w.i, amount, td, MissingDataBehavior::ASSERT_FAIL);
    const bool ok = VerifyScript(ctx.vin[s.w.i].scriptSig, s.w.spent[s.w.i].scriptPubKey, &ctx.vin[s.w.i].scriptWitness, flags, checker, &se);
    if (ok != (se == SCRIPT_ERR_OK)) err = "VerifyScript result and ScriptError disagree";
    R().Count("script_verifications");
    if (!IsTap(s.sv)) {
        const TransactionSignatureChecker plain(&ctx, s.w.i, amount, MissingDataBehavior::FAIL);
        const bool ok2 = VerifyScript(ctx.vin[s.w.i].scriptSig, s.w.spent[s.w.i].scriptPubKey, &ctx.vin[s.w.i].scriptWitness, flags, plain, &se);
        if (ok2 != ok) err = "checker with and without PrecomputedTransactionData disagree";
        const MutableTransactionSignatureChecker mut(&s.w.tx, s.w.i, amount, td, MissingDataBehavior::ASSERT_FAIL);
        const bool ok3 = VerifyScript(s.w.tx.vin[s.w.i].scriptSig, s.w.spent[s.w.i].scriptPubKey, &s.w.tx.vin[s.w.i].scriptWitness, flags, mut, &se);
        if (ok3 != ok) err = "CTransaction and CMutableTransaction checkers disagree";
        R().Count("script_verifications", 2);
    }
    return ok;
}

std::string Expect(bool have, bool want, const std::string& what)
{
    if (have == want) return "";
    return what + ": VerifyScript " + (have ? "accepts" : "rejects") + ", specification " + (want ? "accepts" : "rejects");
}

std::string ScriptLevel(const UniValue& row, SigVersion sv, const std::string& kind)
{
    const UniValue& base = row["base"];
    const UniValue& mctx = row["mctx"];
    const std::string mk = row["mut"]["k"].get_str();
    const bool multi = kind == "multi" || kind == "wmulti";
    if (multi && !row["multi"]["run"].get_bool()) return "";
    if (kind == "p2wpkh" && mk == "code") return "";                    // the scriptCode of P2WPKH is fixed by the key
    const int ht = base["ht"].getInt<int>();
    Spend sb = BuildSpend(base, sv, kind);
    std::vector<int> hts{ht};
    if (multi) { hts.push_back(row["ht2"].getInt<int>()); hts.push_back(row["ht3"].getInt<int>()); }
    std::vector<Bytes> sigs;
    std::vector<uint256> digests;
    for (const int h : hts) {
        std::optional<uint256> d = SpendDigest(sb, h);
        if (d.has_value() != row["valid"].get_bool()) return kind + ": the base context " + (d ? "has" : "has no") + " digest, contrary to the specification";
        // no digest exists: sign another digest (SIGHASH_ALL's) and claim the hash type - must be rejected
        if (!d) d = SpendDigest(sb, SIGHASH_ALL);
        if (!d) return kind + ": harness cannot compute a SIGHASH_ALL digest";
        digests.push_back(*d);
        sigs.push_back(SignDigest(sb, KeyA(), *d, h));
        R().Count("signatures_made");
    }
    std::string err, why;
    const bool want_base = row["valid"].get_bool();   // Accepts(c, c, "none") = the context has a digest
    Install(sb, sigs);
    why = Expect(Verify(sb, CONSENSUS_FLAGS, err), want_base, kind + " base context, untouched signature");
    if (!why.empty()) return why;
    if (!err.empty()) return kind + ": " + err;

    // the same signatures in the mutated context
    Spend sm = BuildSpend(mctx, sv, kind);
    std::vector<Bytes> msigs = sigs;
    if (mk == "ht") SetHashTypeByte(msigs[0], sv, mctx["ht"].getInt<int>());
    Install(sm, msigs);
    const bool want_mut = multi ? row["multi"]["ok"].get_bool() : row["sig"]["none"]["cons"].get_bool();
    why = Expect(Verify(sm, CONSENSUS_FLAGS, err), want_mut, kind + " mutated context (" + mk + "), untouched signature");
    if (!why.empty()) return why;
    if (!multi) {
        why = Expect(Verify(sm, CONSENSUS_FLAGS | SCRIPT_VERIFY_LOW_S, err), row["sig"]["none"]["lowS"].get_bool(), kind + " mutated context (" + mk + "), untouched signature, LOW_S");
        if (!why.empty()) return why;
    }
    if (!err.empty()) return kind + ": " + err;

    // signature / key mutations (rows without transaction mutation)
    if (mk == "none" && !multi) {
        {
            Bytes f = sigs[0]; f[10] ^= 0x04;
            Install(sb, {f});
            why = Expect(Verify(sb, CONSENSUS_FLAGS, err), row["sig"]["bitflip"]["cons"].get_bool(), kind + " bit-flipped signature");
            if (!why.empty()) return why;
            Bytes g = sigs[0]; g[IsTap(sv) ? 63 : g.size() - 2] ^= 0x01;   // last byte of s
            Install(sb, {g});
            why = Expect(Verify(sb, CONSENSUS_FLAGS, err), row["sig"]["bitflip"]["cons"].get_bool(), kind + " bit-flipped signature (s)");
            if (!why.empty()) return why;
        }
        {
            Install(sb, {SignDigest(sb, KeyB(), digests[0], ht)});
            why = Expect(Verify(sb, CONSENSUS_FLAGS, err), row["sig"]["wrongkey"]["cons"].get_bool(), kind + " signature by another key");
            if (!why.empty()) return why;
        }
        if (row["sig"].exists("explicit0")) {
            Bytes e = sigs[0]; e.push_back(0x00);
            Install(sb, {e});
            why = Expect(Verify(sb, CONSENSUS_FLAGS, err), row["sig"]["explicit0"]["cons"].get_bool(), kind + " 64-byte signature with an explicit 0x00 hash type byte");
            if (!why.empty()) return why;
        }
        if (row["sig"].exists("highS")) {
            Install(sb, {HighS(sigs[0])});
            why = Expect(Verify(sb, CONSENSUS_FLAGS, err), row["sig"]["highS"]["cons"].get_bool(), kind + " high-S signature, consensus flags");
            if (!why.empty()) return why;
            why = Expect(Verify(sb, CONSENSUS_FLAGS | SCRIPT_VERIFY_LOW_S, err), row["sig"]["highS"]["lowS"].get_bool(), kind + " high-S signature, LOW_S");
            if (!why.empty()) return why;
        }
        if (!err.empty()) return kind + ": " + err;
    }
    return "";
}

std::string CheckRow(const UniValue& row)
{
    const SigVersion sv = SV(row["sv"].get_str());
    // ---- level A
    std::string err;
    const Dig db = ApiDigest(row["base"], sv, err);
    if (!err.empty()) return "base context: " + err;
    const Dig dm = ApiDigest(row["mctx"], sv, err);
    if (!err.empty()) return "mutated context: " + err;
    if (db.ok != row["valid"].get_bool()) return std::string("base context: the implementation ") + (db.ok ? "computes a digest" : "fails") + ", the specification says " + (row["valid"].get_bool() ? "a digest exists" : "failure");
    if (dm.ok != row["mvalid"].get_bool()) return std::string("mutated context: the implementation ") + (dm.ok ? "computes a digest" : "fails") + ", the specification says " + (row["mvalid"].get_bool() ? "a digest exists" : "failure");
    if (db.ok && (db.h == uint256::ONE) != row["one"].get_bool()) return "base context: digest is " + db.h.ToString() + ", specification says it " + (row["one"].get_bool() ? "is" : "is not") + " the constant 1";
    if (dm.ok && (dm.h == uint256::ONE) != row["mone"].get_bool()) return "mutated context: digest is " + dm.h.ToString() + ", specification says it " + (row["mone"].get_bool() ? "is" : "is not") + " the constant 1";
    if (db.ok) {
        const bool changed = !(dm.ok && dm.h == db.h);
        if (changed != row["changed"].get_bool()) {
            return "mutation " + row["mut"].write() + (changed ? " changes" : " does not change") + " the real digest, the specification says it " + (row["changed"].get_bool() ? "does" : "does not");
        }
    }
    // ---- level B
    if (!row["script"].get_bool()) return "";
    R().Count("script_rows");
    std::vector<std::string> kinds;
    switch (sv) {
    case SigVersion::BASE: kinds = {"p2pk", "multi"}; break;
    case SigVersion::WITNESS_V0: kinds = {"p2wpkh", "p2wsh", "wmulti"}; break;
    case SigVersion::TAPROOT: kinds = {"keypath"}; break;
    case SigVersion::TAPSCRIPT: kinds = {"tapscript"}; break;
    }
    for (const auto& k : kinds) {
        const std::string why = ScriptLevel(row, sv, k);
        if (!why.empty()) return why;
    }
    return "";
}

// ---- specs/Sighash/SigCache.tla: sequences of signature checks through ONE checker (one SigHashCache)
// scriptCodes of the cache behaviours: 1 and 2 have the same length and differ in the last opcode, 3 is one byte longer
CScript CacheCode(int k)
{
    if (k == 1) return CScript() << PubA() << OP_CHECKSIG;
    if (k == 2) return CScript() << PubA() << OP_CHECKSIGVERIFY;
    return CScript() << OP_NOP << PubA() << OP_CHECKSIG;
}
struct CacheWorld {
    World w;
    SigVersion sv;
    std::unique_ptr<CTransaction> tx;
    PrecomputedTransactionData txdata;
    SigHashCache cache;                                       // a cache driven directly through SignatureHash
    std::unique_ptr<TransactionSignatureChecker> checker;     // and the private cache of one checker, fed the same requests
    std::unique_ptr<MutableTransactionSignatureChecker> mchecker;
};
std::unique_ptr<CacheWorld> MakeCacheWorld(const UniValue& init)
{
    auto cw = std::make_unique<CacheWorld>();
    cw->w = BuildWorld(init["ctx"]);
    cw->sv = SV(init["sv"].get_str());
    cw->tx = std::make_unique<CTransaction>(cw->w.tx);
    cw->txdata.Init(*cw->tx, std::vector<CTxOut>(cw->w.spent), true);
    const CAmount amount = cw->w.spent[cw->w.i].nValue;
    cw->checker = std::make_unique<TransactionSignatureChecker>(cw->tx.get(), cw->w.i, amount, cw->txdata, MissingDataBehavior::ASSERT_FAIL);
    cw->mchecker = std::make_unique<MutableTransactionSignatureChecker>(&cw->w.tx, cw->w.i, amount, MissingDataBehavior::FAIL);
    return cw;
}
UniValue ApplyCache(CacheWorld& cw, const UniValue& a)
{
    if (a[0].get_str() != "check") throw std::runtime_error("unknown action");
    const CScript signed_code = CacheCode(a[1].getInt<int>()), exec_code = CacheCode(a[2].getInt<int>());
    const int ht = a[3].getInt<int>();
    const CAmount amount = cw.w.spent[cw.w.i].nValue;
    // stateless reference and the digest through the shared cache
    const uint256 ref = SignatureHash(exec_code, *cw.tx, cw.w.i, ht, amount, cw.sv);
    const uint256 got = SignatureHash(exec_code, *cw.tx, cw.w.i, ht, amount, cw.sv, &cw.txdata, &cw.cache);
    // a real signature over the stateless digest for `signed_code`, checked by the long-lived checkers while `exec_code` executes
    Bytes sig;
    const bool s_ok = KeyA().Sign(SignatureHash(signed_code, *cw.tx, cw.w.i, ht, amount, cw.sv), sig);
    assert(s_ok);
    sig.push_back((unsigned char)ht);
    const bool ok = cw.checker->CheckECDSASignature(sig, PubA(), exec_code, cw.sv);
    const bool ok2 = cw.mchecker->CheckECDSASignature(sig, PubA(), exec_code, cw.sv);
    R().Count("cache_requests");
    if (ok != ok2) throw std::runtime_error("CTransaction and CMutableTransaction checkers disagree");
    return Obj({{"ok", ok}, {"eq", got == ref}});
}

} // namespace

int main(int argc, char** argv)
{
    if (argc < 3) return 2;
    ECC_Context ecc;
    if (std::string(argv[1]) == "cache") {
        return ReplayMain<CacheWorld>(argv[2], MakeCacheWorld, ApplyCache, [](CacheWorld&) { return UniValue(UniValue::VOBJ); });
    }
    if (std::string(argv[1]) != "table") return 2;
    // TableMain, but a mismatch is reported with a one-line summary of the row (the replay file holds the whole row)
    InstallAbortHandlers();
    ForEachLine(argv[2], [&](size_t n, const UniValue& row) {
        const UniValue act = Obj({{"sv", row["sv"]}, {"ht", row["base"]["ht"]}, {"i", row["base"]["i"]}, {"nin", (int)row["base"]["ins"].size()},
                                  {"nout", (int)row["base"]["outs"].size()}, {"annex", row["base"]["annex"]}, {"mut", row["mut"]}});
        R().cur_test = n; R().cur_step = 0; R().cur_action = act;
        std::string why;
        try { why = CheckRow(row); } catch (const std::exception& e) { why = std::string("exception: ") + e.what(); }
        ++R().steps; ++R().tests;
        if (!why.empty()) R().Mismatch(act, why);
    });
    R().Summary();
    return 0;
}
