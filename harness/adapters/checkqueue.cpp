// Adapter for specs/CheckQueue (C14): runs the real CCheckQueue with instrumented checks and reports the outcome of every
// Complete(): which checks were executed (and how often) and which result was returned.
//   checkqueue run <cases.ndjson>     case: {W, N, B, bad:[ids], reps, seed, adds}
#include <vfh.h>
#include <checkqueue.h>
#include <random.h>
#include <atomic>
#include <chrono>
#include <thread>
using namespace vfh;

namespace {
struct Shared { std::vector<std::atomic<int>> executed; std::vector<bool> bad; std::vector<int> delay_us; explicit Shared(size_t n) : executed(n + 1), bad(n + 1), delay_us(n + 1) {} };
struct Check {
    Shared* s{nullptr}; int id{0};
    std::optional<int> operator()()
    {
        if (s->delay_us[id] > 0) std::this_thread::sleep_for(std::chrono::microseconds(s->delay_us[id]));
        s->executed[id].fetch_add(1);
        if (s->bad[id]) return id;
        return std::nullopt;
    }
};
} // namespace

int main(int argc, char** argv)
{
    if (argc < 3 || std::string(argv[1]) != "run") return 2;
    InstallAbortHandlers();
    ForEachLine(argv[2], [&](size_t n, const UniValue& c) {
        R().cur_test = n; R().cur_action = c;
        const int W = c["W"].getInt<int>(), N = c["N"].getInt<int>(), B = c["B"].getInt<int>(), reps = c["reps"].getInt<int>();
        FastRandomContext rng(uint256{(uint8_t)(c["seed"].getInt<int>() & 0xff)});
        CCheckQueue<Check> queue(B, W);
        for (int r = 0; r < reps; ++r) {
            Shared sh(N);
            for (size_t i = 0; i < c["bad"].size(); ++i) sh.bad[c["bad"][i].getInt<int>()] = true;
            for (int i = 1; i <= N; ++i) sh.delay_us[i] = rng.randrange(4) == 0 ? (int)rng.randrange(300) : 0;
            std::optional<int> ret;
            {
                CCheckQueueControl<Check> control(queue);
                // the model adds everything in one call; so do we (the order inside the queue is 1..N)
                std::vector<Check> v;
                for (int i = 1; i <= N; ++i) v.push_back(Check{&sh, i});
                control.Add(std::move(v));
                ret = control.Complete();
            }
            UniValue ex(UniValue::VARR);
            for (int i = 1; i <= N; ++i) ex.push_back(sh.executed[i].load());
            Emit(Obj({{"kind", "trace"}, {"test", (uint64_t)n}, {"executed", ex}, {"ret", ret ? *ret : 0}}));
            ++R().steps;
        }
        ++R().tests;
    });
    R().Summary();
    return 0;
}
