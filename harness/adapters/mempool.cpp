// Adapter for specs/Mempool (C22, C26, C27, C28, C29, C55): replays model paths on a real in-process regtest node: real signed
// transactions submitted through ChainstateManager::ProcessTransaction / ProcessNewPackage, real blocks connected / invalidated /
// reorganised, DumpMempool / LoadMempool between two nodes on the same chain, the real CTxMemPool projected.
//   mempool measure <ignored> <universe.json>          one line per universe transaction: {"fee","vsize","weight","mem","dust":[..]}
//   mempool replay|strict <tests.ndjson> <universe.json>
//   mempool pkgtable <rows.ndjson> <universe.json>     E4: IsWellFormedPackage / IsChildWithParents / IsTopoSortedPackage / IsConsistentPackage
//   mempool rule5 <rows.ndjson> <universe.json>        C26: Rule 5 at the real bound (E4 rows of module Rule5) on a pool of 102 singleton clusters
//   mempool loadfuzz <tests.ndjson> <universe.json>    C55: runs the steps of each test, then loads seeded byte-flipped copies of the dump
// universe.json: {universe: [tx...], h0, basedt, base: [{v,h,cls?}...], opts: {minrelay, incr, expiry, maxrepl, maxcluster,
// std?, maxclsize?, maxmempool?}} as printed by the specification (module MU_*).
#include <chainsim.h>
#include <consensus/tx_check.h>
#include <consensus/tx_verify.h>
#include <kernel/mempool_entry.h>
#include <node/mempool_persist.h>
#include <policy/packages.h>
#include <policy/policy.h>
#include <policy/rbf.h>
#include <streams.h>
#include <util/moneystr.h>
#include <util/obfuscation.h>
using namespace vfh;

namespace {
UniValue g_uni;
struct Base {
    std::vector<CTransactionRef> cbs;     // coinbase transaction of every base height (index = height)
    uint256 tip_hash; int h0; int64_t t0; int64_t basedt; int64_t mock0;
};
Base g_base;

std::string PerKvB(int64_t sat) { return FormatMoney(sat); }   // options take BTC/kvB
int64_t OptInt(const char* k, int64_t dflt) { const UniValue& op = g_uni["opts"]; return op.exists(k) ? op[k].getInt<int64_t>() : dflt; }
bool OptStd() { const UniValue& op = g_uni["opts"]; return op.exists("std") && op["std"].get_bool(); }

// ---- script classes of outputs. Bare scripts (nonstandard universes): true / fail / nopx / cltv; standard ones: P2WSH(OP_TRUE) "wtrue",
// P2WSH(OP_DROP OP_TRUE) "wdrop" (one free witness element: a same-txid-different-witness twin), pay-to-anchor "anchor",
// P2WSH(90 x OP_2DROP, OP_TRUE) "wbig" (180 witness elements: a spend whose memory footprint is four times its virtual size).
CScript WitnessScriptOf(const std::string& cls)
{
    if (cls == "wtrue") return CScript() << OP_TRUE;
    if (cls == "wdrop") return CScript() << OP_DROP << OP_TRUE;
    if (cls == "wbig") { CScript s; for (int i = 0; i < 90; ++i) s << OP_2DROP; s << OP_TRUE; return s; }
    throw std::runtime_error("no witness script for class " + cls);
}
CScript P2WSH(const CScript& ws) { uint256 h; CSHA256().Write(ws.data(), ws.size()).Finalize(h.begin()); return CScript() << OP_0 << std::vector<unsigned char>(h.begin(), h.end()); }
CScript SpkOf(const std::string& cls, size_t t)
{
    if (cls == "true") return CScript() << OP_TRUE;
    if (cls == "opret") return CScript() << OP_RETURN << std::vector<unsigned char>(20, (unsigned char)t);
    if (cls == "fail") return CScript() << OP_1 << OP_VERIFY << OP_0;
    if (cls == "nopx") return CScript() << OP_NOP4 << OP_TRUE;        // consensus-valid, rejected by the standard flags
    if (cls == "cltv") return CScript() << 1000 << OP_CHECKLOCKTIMEVERIFY << OP_DROP << OP_TRUE;   // spender has nLockTime 0
    if (cls == "wtrue" || cls == "wdrop" || cls == "wbig") return P2WSH(WitnessScriptOf(cls));
    if (cls == "anchor") return CScript() << OP_1 << std::vector<unsigned char>{0x4e, 0x73};
    throw std::runtime_error("bad script class " + cls);
}

std::unique_ptr<ChainSim> MakeBaseSim()
{
    SimOptions o;
    const UniValue& op = g_uni["opts"];
    o.args = {std::string("-acceptnonstdtxn=") + (OptStd() ? "0" : "1"),   // bare OP_TRUE outputs and friends need a mempool without the standardness rules
              "-minrelaytxfee=" + PerKvB(op["minrelay"].getInt<int64_t>()),
              "-incrementalrelayfee=" + PerKvB(op["incr"].getInt<int64_t>()),
              "-limitclustercount=" + std::to_string(op["maxcluster"].getInt<int64_t>())};
    if (OptInt("maxclsize", 0) > 0) o.args.push_back("-limitclustersize=" + std::to_string(OptInt("maxclsize", 0) / 1000));
    if (OptInt("maxmempool", 0) > 0) o.args.push_back("-maxmempool=" + std::to_string(OptInt("maxmempool", 0) / 1000000));
    auto sim = MakeSim(o);
    const int h0 = g_uni["h0"].getInt<int>();
    const int64_t basedt = g_uni["basedt"].getInt<int64_t>();
    std::map<int, std::pair<CAmount, std::string>> coin_at;   // base height -> coinbase value, script class
    for (size_t i = 0; i < g_uni["base"].size(); ++i) {
        const UniValue& b = g_uni["base"][i];
        coin_at[b["h"].getInt<int>()] = {b["v"].getInt<int64_t>(), b.exists("cls") ? b["cls"].get_str() : "key"};
    }
    const int64_t g = Params().GenesisBlock().nTime;
    g_base = Base{}; g_base.h0 = h0; g_base.basedt = basedt;
    g_base.mock0 = g + (int64_t)h0 * basedt + 100000;   // all block times of a behaviour stay in the past
    SetMockTime(g_base.mock0);
    g_base.cbs.push_back(nullptr);
    uint256 prev = Params().GenesisBlock().GetHash();
    for (int h = 1; h <= h0; ++h) {
        ChainSim::BlockSpec s; s.prev = prev; s.height = h; s.time = g + (int64_t)h * basedt; s.extra_nonce = 7;
        s.cb_value = coin_at.count(h) ? coin_at[h].first : 0;
        if (coin_at.count(h) && coin_at[h].second != "key") s.cb_spk = SpkOf(coin_at[h].second, 0);
        auto b = sim->BuildBlock(s);
        auto [r, nb] = sim->SubmitBlock(b, true);
        if (!r || sim->Tip()->GetBlockHash() != b->GetHash()) throw std::runtime_error("base chain block rejected");
        g_base.cbs.push_back(b->vtx[0]);
        prev = b->GetHash();
    }
    g_base.tip_hash = prev; g_base.t0 = g + (int64_t)h0 * basedt;
    // the node must run with the constants the specification assumes
    CTxMemPool& mp = *sim->m_node.mempool;
    auto need = [&](const char* what, int64_t have, int64_t want) {
        if (have != want) throw std::runtime_error(std::string("node option differs from the specification's constant: ") + what + " node=" + std::to_string(have) + " spec=" + std::to_string(want));
    };
    need("min relay feerate", mp.m_opts.min_relay_feerate.GetFeePerK(), op["minrelay"].getInt<int64_t>());
    need("incremental relay feerate", mp.m_opts.incremental_relay_feerate.GetFeePerK(), op["incr"].getInt<int64_t>());
    need("expiry", std::chrono::duration_cast<std::chrono::seconds>(mp.m_opts.expiry).count(), op["expiry"].getInt<int64_t>());
    need("cluster count limit", mp.m_opts.limits.cluster_count, op["maxcluster"].getInt<int64_t>());
    if (OptInt("maxclsize", 0) > 0) need("cluster size limit", mp.m_opts.limits.cluster_size_vbytes, OptInt("maxclsize", 0));
    if (OptInt("maxmempool", 0) > 0) need("mempool size limit", mp.m_opts.max_size_bytes, OptInt("maxmempool", 0));
    need("check ratio", mp.m_opts.check_ratio, 1);
    need("require standard", mp.m_opts.require_standard, OptStd());
    return sim;
}

struct Blk { uint256 hash; int height; int64_t time; std::shared_ptr<const CBlock> block; };

// byte offsets of the parts of a mempool.dat file, found by walking it with the serialisation code
struct FileMap {
    uint64_t version{0}; int64_t key_end{0}, count_end{0}, deltas_end{0}, size{0}; uint64_t count{0};
    struct Rec { int64_t start, tx_end, time_end, end; };
    std::vector<Rec> recs;
    std::vector<Txid> order;        // txids in file order
    Obfuscation obf;
};

struct World {
    std::unique_ptr<ChainSim> sim;
    std::vector<Blk> chain;                // active chain above (and including, [0]) the base tip
    int nblocks{0};
    int64_t mock;
    std::vector<CTransactionRef> txu;      // index = model tx id (1-based)
    std::vector<CAmount> fee;              // fee of each universe tx if all its inputs are known, else 0
    std::map<Wtxid, int> ids;              // by wtxid: a same-txid-different-witness twin is a different model transaction
    std::map<Txid, int> canon;             // txid -> smallest model id with that txid
    std::map<std::pair<int, int>, COutPoint> ops;    // model outpoint -> real outpoint
    std::map<std::pair<int, int>, CTxOut> outs;      // model outpoint -> real output (for signing / values)
    std::map<std::pair<int, int>, std::string> cls;  // model outpoint -> script class
    fs::path dump_path;                    // last DumpMempool
    bool dumped{false};

    World()
    {
        sim = MakeBaseSim();
        mock = g_base.mock0;
        chain.push_back({g_base.tip_hash, g_base.h0, g_base.t0, nullptr});
        for (size_t i = 0; i < g_uni["base"].size(); ++i) {
            const UniValue& b = g_uni["base"][i];
            const auto& cb = g_base.cbs.at(b["h"].getInt<int>());
            ops[{0, (int)i + 1}] = COutPoint(cb->GetHash(), 0);
            outs[{0, (int)i + 1}] = cb->vout[0];
            cls[{0, (int)i + 1}] = b.exists("cls") ? b["cls"].get_str() : "key";
        }
        BuildUniverse();
    }
    CTxMemPool& mp() { return *sim->m_node.mempool; }
    static uint32_t SeqOf(const UniValue& sq)
    {
        const std::string k = sq["kind"].get_str();
        const uint32_t v = (uint32_t)sq["v"].getInt<int>();
        if (k == "final") return CTxIn::SEQUENCE_FINAL;
        if (k == "disabled") return CTxIn::SEQUENCE_LOCKTIME_DISABLE_FLAG | 5;
        if (k == "height") return v;
        if (k == "time") return CTxIn::SEQUENCE_LOCKTIME_TYPE_FLAG | v;
        throw std::runtime_error("bad seq kind");
    }
    COutPoint OpOf(const std::pair<int, int>& key)
    {
        if (key.first == 99) return COutPoint(Txid::FromUint256(uint256{0x99}), 2 + key.second);   // outputs that never exist
        return ops.at(key);
    }
    void BuildUniverse()
    {
        const UniValue& U = g_uni["universe"];
        txu.resize(U.size() + 1); fee.assign(U.size() + 1, 0);
        for (size_t t = 1; t <= U.size(); ++t) {
            const UniValue& T = U[t - 1];
            const int twin = T.exists("twin") ? T["twin"].getInt<int>() : 0;
            CMutableTransaction m;
            bool all_known = true; CAmount in = 0, out = 0;
            if (twin) {
                // the same transaction as <twin> except for the free witness element of its "wdrop" inputs
                if (twin >= (int)t) throw std::runtime_error("a twin must follow its original");
                m = CMutableTransaction(*txu[twin]);
                bool changed = false;
                for (auto& ti : m.vin) if (ti.scriptWitness.stack.size() == 2 && ti.scriptWitness.stack[0].size() == 1) { ti.scriptWitness.stack[0][0] ^= 0x03; changed = true; }
                if (!changed) throw std::runtime_error("a twin needs an input of class wdrop");
                fee[t] = fee[twin];
            } else {
                m.version = T["ver"].getInt<int>();
                const std::string lk = T["lock"]["kind"].get_str();
                m.nLockTime = lk == "none" ? 0 : lk == "height" ? (uint32_t)T["lock"]["v"].getInt<int>() : (uint32_t)(g_base.t0 + T["lock"]["v"].getInt<int64_t>());
                for (size_t j = 0; j < T["ins"].size(); ++j) {
                    const std::pair<int, int> key{T["ins"][j]["op"][0].getInt<int>(), T["ins"][j]["op"][1].getInt<int>()};
                    CTxIn ti(OpOf(key)); ti.nSequence = SeqOf(T["ins"][j]["seq"]);
                    m.vin.push_back(ti);
                    if (outs.count(key)) in += outs[key].nValue; else all_known = false;
                }
                for (size_t i = 0; i < T["outs"].size(); ++i) {
                    const std::string oc = T["outs"][i]["cls"].get_str();
                    m.vout.emplace_back(T["outs"][i]["v"].getInt<int64_t>(), oc == "key" ? sim->coinbaseSpk : SpkOf(oc, t));   // "key": P2PK, the spender is signed
                    out += T["outs"][i]["v"].getInt<int64_t>();
                }
                // distinguishes otherwise identical transactions, keeps them above the 64-byte minimum; "pad" enlarges a transaction
                const size_t pad = T.exists("pad") ? T["pad"].getInt<int>() : 0;
                m.vout.emplace_back(0, CScript() << OP_RETURN << std::vector<unsigned char>(30 + pad, (unsigned char)(0xA0 + t)));
                const size_t wpad = T.exists("wpad") ? T["wpad"].getInt<int>() : 0;
                for (size_t j = 0; j < m.vin.size(); ++j) {
                    const std::pair<int, int> key{T["ins"][j]["op"][0].getInt<int>(), T["ins"][j]["op"][1].getInt<int>()};
                    const std::string c = cls.count(key) ? cls[key] : "true";
                    if (c == "key") continue;
                    if (c == "wtrue") m.vin[j].scriptWitness.stack = {ToByteVector(WitnessScriptOf(c))};
                    else if (c == "wdrop") m.vin[j].scriptWitness.stack = {{0x01}, ToByteVector(WitnessScriptOf(c))};
                    else if (c == "wbig") {
                        for (int k = 0; k < 180; ++k) m.vin[j].scriptWitness.stack.push_back(std::vector<unsigned char>(wpad, (unsigned char)k));
                        m.vin[j].scriptWitness.stack.push_back(ToByteVector(WitnessScriptOf(c)));
                    }
                }
                for (size_t j = 0; j < m.vin.size(); ++j) {
                    const std::pair<int, int> key{T["ins"][j]["op"][0].getInt<int>(), T["ins"][j]["op"][1].getInt<int>()};
                    if (cls.count(key) && cls[key] == "key") sim->SignP2PK(m, j, outs.at(key));       // base coins are P2PK unless stated otherwise
                }
                fee[t] = all_known ? in - out : 0;
            }
            txu[t] = MakeTransactionRef(m);
            if (ids.count(txu[t]->GetWitnessHash())) throw std::runtime_error("two universe transactions are identical");
            ids[txu[t]->GetWitnessHash()] = (int)t;
            if (!canon.count(txu[t]->GetHash())) canon[txu[t]->GetHash()] = (int)t;
            if (!twin) for (size_t i = 0; i < T["outs"].size(); ++i) {
                ops[{(int)t, (int)i + 1}] = COutPoint(txu[t]->GetHash(), i);
                outs[{(int)t, (int)i + 1}] = txu[t]->vout[i];
                cls[{(int)t, (int)i + 1}] = T["outs"][i]["cls"].get_str();
            }
        }
    }
    static std::string NormReason(std::string why)
    {
        if (why.rfind("mempool-script-verify-flag-failed", 0) == 0 || why.rfind("mandatory-script-verify-flag-failed", 0) == 0 ||
            why.rfind("non-mandatory-script-verify-flag", 0) == 0) return "script-failed";
        // only ConsensusScriptChecks reports this for a loose transaction: the standard flags had accepted it
        if (why.rfind("block-script-verify-flag-failed", 0) == 0) return "consensus-script-failed";
        if (why.rfind("insufficient fee", 0) == 0) return "insufficient fee";
        if (why.rfind("too many potential replacements", 0) == 0) return "too many potential replacements";
        if (why.rfind("package RBF failed: insufficient feerate", 0) == 0) return "package RBF failed: replacement-failed";
        return why;
    }
    UniValue Result(bool ok, const std::string& why, const std::set<int>& ev, bool pure)
    {
        return Obj({{"ok", ok}, {"why", why}, {"evict", SortedIntArr(ev)}, {"pure", pure}});
    }
    std::shared_ptr<CBlock> MakeBlock(const Blk& parent, const UniValue& list, int64_t dt)
    {
        ChainSim::BlockSpec s; s.prev = parent.hash; s.height = parent.height + 1; s.time = parent.time + dt; s.extra_nonce = ++nblocks;
        for (size_t i = 0; i < list.size(); ++i) { s.txs.push_back(txu.at(list[i].getInt<int>())); if (s.txs.back()->HasWitness()) s.witness_commitment = true; }
        s.cb_value = 0;
        return sim->BuildBlock(s);
    }
    // submits b; "" if it became the tip
    std::string Deliver(const std::shared_ptr<CBlock>& b, bool expect_tip)
    {
        sim->SubmitBlock(b, true);
        std::string why = sim->Reason(b->GetHash());
        if (!why.empty()) return "rejected:" + NormReason(why);
        if (expect_tip && sim->Tip()->GetBlockHash() != b->GetHash()) return "not-activated";
        return "";
    }
    int IdOf(const CTransaction& tx) { auto it = ids.find(tx.GetWitnessHash()); return it == ids.end() ? -1 : it->second; }
    int IdOfWtxid(const Wtxid& w) { auto it = ids.find(w); return it == ids.end() ? -1 : it->second; }

    // ---- mempool.dat
    static FileMap WalkFile(const fs::path& p)
    {
        FileMap fm;
        AutoFile f{fsbridge::fopen(p, "rb")};
        if (f.IsNull()) throw std::runtime_error("cannot open the dumped mempool file");
        fm.size = f.size();
        f >> fm.version;
        if (fm.version == 2) { f >> fm.obf; f.SetObfuscation(fm.obf); }
        else if (fm.version != 1) throw std::runtime_error("dumped file has an unknown version");
        fm.key_end = f.tell();
        f >> fm.count; fm.count_end = f.tell();
        for (uint64_t i = 0; i < fm.count; ++i) {
            FileMap::Rec r; r.start = f.tell();
            CTransactionRef tx; int64_t t, d;
            f >> TX_WITH_WITNESS(tx); r.tx_end = f.tell();
            f >> t; r.time_end = f.tell();
            f >> d; r.end = f.tell();
            fm.recs.push_back(r); fm.order.push_back(tx->GetHash());
        }
        std::map<Txid, CAmount> deltas; f >> deltas; fm.deltas_end = f.tell();
        std::set<Txid> unb; f >> unb;
        if (f.tell() != fm.size) throw std::runtime_error("dumped file has trailing bytes");
        return fm;
    }
    static std::vector<unsigned char> ReadAll(const fs::path& p)
    {
        std::ifstream f(fs::PathToString(p), std::ios::binary); return std::vector<unsigned char>((std::istreambuf_iterator<char>(f)), std::istreambuf_iterator<char>());
    }
    static void WriteAll(const fs::path& p, const std::vector<unsigned char>& v)
    {
        std::ofstream f(fs::PathToString(p), std::ios::binary | std::ios::trunc); f.write((const char*)v.data(), v.size());
    }
    // the file as the loading node finds it: truncated at a record boundary / inside a record, or with a framing field changed
    std::vector<unsigned char> Damage(const UniValue& cut, const FileMap& fm, std::vector<unsigned char> bytes)
    {
        const std::string kind = cut["kind"].get_str();
        const int64_t k = cut.exists("k") ? cut["k"].getInt<int64_t>() : 0;
        const std::string sub = cut.exists("sub") ? cut["sub"].get_str() : "at";
        auto set64 = [&](int64_t off, uint64_t oldv, uint64_t newv, bool obfuscated) {
            // a field of the obfuscated part is rewritten by XORing the difference into the stored bytes (XOR is linear)
            for (int i = 0; i < 8; ++i) { const unsigned char o = (oldv >> (8 * i)) & 0xff, n = (newv >> (8 * i)) & 0xff; if (obfuscated) bytes[off + i] ^= (o ^ n); else bytes[off + i] = n; }
        };
        if (kind == "none") return bytes;
        if (kind == "hdr") {
            // inside the version, inside the key, inside the count
            bytes.resize(sub == "ver" ? 4 : sub == "key" ? 12 : fm.key_end + 3);
        } else if (kind == "rec") {
            if (k > (int64_t)fm.recs.size()) throw std::runtime_error("cut beyond the last record");
            if (k == (int64_t)fm.recs.size()) { if (sub != "at") throw std::runtime_error("no record to cut"); bytes.resize(fm.count_end + (fm.recs.empty() ? 0 : fm.recs.back().end - fm.count_end)); }
            else {
                const auto& r = fm.recs[k];
                bytes.resize(sub == "at" ? r.start : sub == "tx" ? (r.start + r.tx_end) / 2 : sub == "time" ? r.tx_end + 4 : r.time_end + 4);
            }
        } else if (kind == "deltas") {
            // inside the map of stray prioritisations (after its length byte)
            const int64_t start = fm.recs.empty() ? fm.count_end : fm.recs.back().end;
            if (fm.deltas_end - start < 2) throw std::runtime_error("the file has no stray prioritisation to cut");
            bytes.resize(start + (fm.deltas_end - start) / 2);
        } else if (kind == "unb") {
            // "at": between the prioritisations and the unbroadcast set; "mid": inside the set
            if (sub == "at") bytes.resize(fm.deltas_end);
            else { if (fm.size - fm.deltas_end < 2) throw std::runtime_error("the file has no unbroadcast entry to cut"); bytes.resize(fm.deltas_end + (fm.size - fm.deltas_end) / 2); }
        } else if (kind == "badver") {
            set64(0, fm.version, 3, false);
        } else if (kind == "ver1") {
            set64(0, fm.version, 1, false);              // the key is then read as data
        } else if (kind == "keyflip") {
            bytes[fm.key_end - 3] ^= 0x40;
        } else if (kind == "count") {
            set64(fm.key_end, fm.count, fm.count + k, fm.version == 2);
        } else if (kind == "flip") {
            // k = seed: three byte flips at seeded positions
            FastRandomContext rng{uint256{(uint8_t)(k & 0xff)}};
            for (int i = 0; i < 3; ++i) bytes[rng.randrange(bytes.size())] ^= (unsigned char)(1 + rng.randrange(255));
        } else throw std::runtime_error("unknown cut " + kind);
        return bytes;
    }
    // a second node on the same chain replaces the first one (both cannot live in one process): the blocks of the active chain are
    // delivered to it, `exist` is submitted normally, then LoadMempool reads the (possibly damaged) file
    UniValue RestartAndLoad(const UniValue& cut, const UniValue& exist, bool& ok, std::string& why)
    {
        if (!dumped) throw std::runtime_error("load without a dump");
        const FileMap fm = WalkFile(dump_path);
        // saved order: parents before children
        {
            std::set<Txid> seen;
            for (const auto& id : fm.order) {
                const auto& tx = txu.at(canon.at(id));
                for (const auto& in : tx->vin) if (canon.count(in.prevout.hash) && std::find(fm.order.begin(), fm.order.end(), in.prevout.hash) != fm.order.end() && !seen.count(in.prevout.hash)) why = "file-order-not-topological";
                seen.insert(id);
            }
        }
        const fs::path damaged = dump_path.parent_path() / "mempool_damaged.dat";
        WriteAll(damaged, Damage(cut, fm, ReadAll(dump_path)));
        std::vector<std::shared_ptr<const CBlock>> blocks;
        for (size_t i = 1; i < chain.size(); ++i) blocks.push_back(chain[i].block);
        sim.reset();
        sim = MakeBaseSim();
        SetMockTime(mock);
        for (const auto& b : blocks) { sim->SubmitBlock(b, true); if (sim->Tip()->GetBlockHash() != b->GetHash()) throw std::runtime_error("second node did not follow the chain"); }
        for (size_t i = 0; i < exist.size(); ++i) { LOCK(cs_main); sim->cm().ProcessTransaction(txu.at(exist[i].getInt<int>()), false); }
        UniValue before = Project();
        ok = node::LoadMempool(mp(), damaged, sim->cm().ActiveChainstate(), {});
        if (why == "none") why = ok ? "ok" : "failed";
        UniValue order(UniValue::VARR);
        for (const auto& id : fm.order) order.push_back(canon.count(id) ? canon[id] : -1);
        return Obj({{"before", before["obs"]}, {"order", order}});
    }

    UniValue Apply(const UniValue& a)
    {
        const std::string op = a[0].get_str();
        std::string why = "none"; bool ok = true; std::set<int> ev; bool pure = true;
        UniValue extra(UniValue::VNULL);
        if (op == "submit" || op == "test") {
            const bool test = op == "test";
            const int t = a[1].getInt<int>();
            std::string before; uint64_t seq0 = 0; unsigned upd0 = 0;
            if (test) { before = Project().write(); LOCK(mp().cs); seq0 = mp().GetSequence(); upd0 = mp().GetTransactionsUpdated(); }
            const MempoolAcceptResult res = WITH_LOCK(cs_main, return sim->cm().ProcessTransaction(txu.at(t), test));
            ok = res.m_result_type == MempoolAcceptResult::ResultType::VALID;
            why = ok ? "ok" : NormReason(res.m_state.GetRejectReason());
            if (ok) for (const auto& r : res.m_replaced_transactions) ev.insert(IdOf(*r));
            if (test) {
                // side-effect freedom: same content (txids, fees, prioritisation, links, totals), same mempool sequence number, same update counter
                const std::string after = Project().write();
                LOCK(mp().cs);
                pure = before == after && seq0 == mp().GetSequence() && upd0 == mp().GetTransactionsUpdated();
            }
        } else if (op == "twin") {
            // C28 directly on the code: test-accept, then submit, from the same state; result = both verdicts
            const int t = a[1].getInt<int>();
            const std::string before = Project().write();
            // would the pool, with this transaction added, exceed its limit? (C28 exempts a full mempool, nothing else)
            const CTxMemPoolEntry e{txu.at(t), 0, 0, 1, 0, false, 0, LockPoints{}};
            const int64_t usage0 = (int64_t)mp().DynamicMemoryUsage();
            const bool full = usage0 + (int64_t)e.DynamicMemoryUsage() + 4096 > mp().m_opts.max_size_bytes;
            const MempoolAcceptResult r1 = WITH_LOCK(cs_main, return sim->cm().ProcessTransaction(txu.at(t), true));
            const bool same_state = before == Project().write();
            const MempoolAcceptResult r2 = WITH_LOCK(cs_main, return sim->cm().ProcessTransaction(txu.at(t), false));
            const bool ok1 = r1.m_result_type == MempoolAcceptResult::ResultType::VALID, ok2 = r2.m_result_type == MempoolAcceptResult::ResultType::VALID;
            const std::string w1 = ok1 ? "ok" : NormReason(r1.m_state.GetRejectReason()), w2 = ok2 ? "ok" : NormReason(r2.m_state.GetRejectReason());
            // "mempool full" is the one verdict only a real submission can produce (LimitMempoolSize runs after the acceptance); the
            // property exempts it when the mempool is full - not when the pool is far from its limit and merely expired an ancestor
            const bool agree = (ok1 == ok2 && w1 == w2) || (ok1 && w2 == "mempool full" && full);
            return Obj({{"agree", agree}, {"pure", same_state},
                        {"verdicts", "test-accept: " + w1 + " / submit: " + w2 + strprintf(" (usage %d of %d bytes)", usage0, mp().m_opts.max_size_bytes)}});
        } else if (op == "pkg") {
            // ProcessNewPackage; result: package verdict + per position the kind of result reported for that transaction
            Package pkg;
            for (size_t i = 0; i < a[1].size(); ++i) pkg.push_back(txu.at(a[1][i].getInt<int>()));
            const PackageMempoolAcceptResult res = WITH_LOCK(cs_main, return ProcessNewPackage(sim->cm().ActiveChainstate(), mp(), pkg, /*test_accept=*/false, /*client_maxfeerate=*/std::nullopt));
            ok = res.m_state.IsValid();
            why = ok ? "ok" : NormReason(res.m_state.GetRejectReason());
            UniValue txr(UniValue::VARR);
            for (const auto& tx : pkg) {
                auto it = res.m_tx_results.find(tx->GetWitnessHash());
                if (it == res.m_tx_results.end()) { txr.push_back(Obj({{"k", "none"}, {"why", "none"}})); continue; }
                const MempoolAcceptResult& r = it->second;
                switch (r.m_result_type) {
                case MempoolAcceptResult::ResultType::VALID:
                    txr.push_back(Obj({{"k", "valid"}, {"why", "ok"}}));
                    for (const auto& x : r.m_replaced_transactions) ev.insert(IdOf(*x));
                    break;
                case MempoolAcceptResult::ResultType::INVALID: txr.push_back(Obj({{"k", "invalid"}, {"why", NormReason(r.m_state.GetRejectReason())}})); break;
                case MempoolAcceptResult::ResultType::MEMPOOL_ENTRY: txr.push_back(Obj({{"k", "entry"}, {"why", "ok"}})); break;
                case MempoolAcceptResult::ResultType::DIFFERENT_WITNESS:
                    txr.push_back(Obj({{"k", "diffwit"}, {"why", "ok"}, {"other", IdOfWtxid(*r.m_other_wtxid)}}));
                    break;
                }
            }
            extra = txr;
        } else if (op == "prefill") {
            // a fixed sequence of submissions (fills the pool close to its limit); all must be accepted
            for (size_t i = 0; i < a[1].size(); ++i) {
                const MempoolAcceptResult res = WITH_LOCK(cs_main, return sim->cm().ProcessTransaction(txu.at(a[1][i].getInt<int>()), false));
                if (res.m_result_type != MempoolAcceptResult::ResultType::VALID) { ok = false; why = "prefill:" + NormReason(res.m_state.GetRejectReason()); break; }
            }
        } else if (op == "prio") {
            mp().PrioritiseTransaction(txu.at(a[1].getInt<int>())->GetHash(), a[2].getInt<int64_t>());
        } else if (op == "unb") {
            mp().AddUnbroadcastTx(txu.at(a[1].getInt<int>())->GetHash());
        } else if (op == "mine") {
            auto b = MakeBlock(chain.back(), a[1], a[2].getInt<int64_t>());
            const std::string r = Deliver(b, true);
            if (r.empty()) chain.push_back({b->GetHash(), chain.back().height + 1, (int64_t)b->nTime, b}); else { ok = false; why = r; }
        } else if (op == "disconnect") {
            if (chain.size() < 2) throw std::runtime_error("disconnect below the base tip");
            sim->Invalidate(chain.back().hash);
            chain.pop_back();
            if (sim->Tip()->GetBlockHash() != chain.back().hash) { ok = false; why = "tip-not-parent"; }
        } else if (op == "reorg") {
            if (chain.size() < 2) throw std::runtime_error("reorg below the base tip");
            const Blk parent = chain[chain.size() - 2];
            auto A = MakeBlock(parent, a[1], a[3].getInt<int64_t>());
            std::string r = Deliver(A, false);
            const Blk ba{A->GetHash(), parent.height + 1, (int64_t)A->nTime, A};
            auto B = MakeBlock(ba, a[2], a[3].getInt<int64_t>());
            if (r.empty()) r = Deliver(B, true);
            if (r.empty()) { chain.pop_back(); chain.push_back(ba); chain.push_back({B->GetHash(), ba.height + 1, (int64_t)B->nTime, B}); } else { ok = false; why = r; }
        } else if (op == "tick") {
            mock += a[1].getInt<int64_t>(); SetMockTime(mock);
        } else if (op == "expire") {
            LOCK2(cs_main, mp().cs);
            mp().Expire(GetTime<std::chrono::seconds>() - mp().m_opts.expiry);
        } else if (op == "dump") {
            const char* tmp = std::getenv("TMPDIR");
            static int n = 0;
            const fs::path dir = fs::PathFromString(std::string(tmp ? tmp : ".") + "/mpdump-" + std::to_string(getpid()) + "-" + std::to_string(++n));
            fs::create_directories(dir);
            dump_path = dir / "mempool.dat";
            ok = node::DumpMempool(mp(), dump_path);
            why = ok ? "ok" : "failed";
            dumped = ok;
        } else if (op == "load") {
            extra = RestartAndLoad(a[1], a[2], ok, why);
        } else throw std::runtime_error("unknown op " + op);
        {
            // the code's own consistency checker (check_ratio = 1): an assertion in there ends the process inside this step
            LOCK(cs_main);
            mp().check(sim->cm().ActiveChainstate().CoinsTip(), sim->cm().ActiveChain().Height() + 1);
        }
        UniValue r = Result(ok, why, ev, pure);
        if (op == "pkg") r.pushKV("txr", extra);
        if (op == "load") r.pushKV("@load", extra);       // not predicted: the pool of the second node before the load, the file's order
        return r;
    }
    UniValue Project()
    {
        LOCK(cs_main);
        auto& cm = sim->cm();
        std::set<int> pool, unb;
        std::map<int, UniValue> entries;
        UniValue deltas(UniValue::VARR), times(UniValue::VARR);
        int strays = 0;
        {
            std::map<int, int64_t> dl;
            for (const auto& d : mp().GetPrioritisedTransactions()) { auto it = canon.find(d.txid); if (it == canon.end()) ++strays; else dl[it->second] = d.delta; }
            for (auto& [t, d] : dl) deltas.push_back(Obj({{"t", t}, {"d", d}}));
        }
        uint64_t tsize; CAmount tfee; int64_t usage, minfee;
        {
            LOCK(mp().cs);
            for (const auto& e : mp().entryAll()) {
                const CTxMemPoolEntry& en = e.get();
                const int t = IdOf(en.GetTx());
                pool.insert(t);
                std::set<int> par, chi;
                for (const auto& p : mp().GetParents(en)) par.insert(IdOf(p.get().GetTx()));
                for (const auto& c : mp().GetChildren(en)) chi.insert(IdOf(c.get().GetTx()));
                entries[t] = Obj({{"t", t}, {"fee", (int64_t)en.GetFee()}, {"mfee", (int64_t)en.GetModifiedFee()}, {"vsize", (int64_t)en.GetTxSize()},
                                  {"parents", SortedIntArr(par)}, {"children", SortedIntArr(chi)}});
                if (mp().IsUnbroadcastTx(en.GetTx().GetHash())) unb.insert(t);
            }
            tsize = mp().GetTotalTxSize(); tfee = mp().GetTotalFee();
            usage = (int64_t)mp().DynamicMemoryUsage();
            minfee = mp().GetMinFee().GetFeePerK();
        }
        std::map<int, int64_t> tm;
        for (const auto& i : mp().infoAll()) tm[IdOf(*i.tx)] = count_seconds(i.m_time) - g_base.mock0;
        for (auto& [t, s] : tm) times.push_back(Obj({{"t", t}, {"time", s}}));
        UniValue el(UniValue::VARR);
        for (auto& [t, v] : entries) el.push_back(v);
        // the UTXO set restricted to the universe: base coins and every universe output
        auto& view = cm.ActiveChainstate().CoinsTip();
        UniValue ul(UniValue::VARR);
        for (auto& [key, op] : ops) {
            auto c = view.GetCoin(op);
            if (!c) continue;
            ul.push_back(Obj({{"t", key.first}, {"i", key.second}, {"v", (int64_t)c->out.nValue}, {"h", (int)c->nHeight}, {"cb", c->IsCoinBase()}}));
        }
        UniValue obs = Obj({{"pool", SortedIntArr(pool)}, {"entries", el}, {"deltas", deltas}, {"tsize", (int64_t)tsize}, {"tfee", (int64_t)tfee},
                            {"height", cm.ActiveChain().Height()}, {"utxo", ul},
                            // C27 / C55 observables (compared only where the scenario predicts them)
                            {"usage", usage}, {"maxusage", (int64_t)mp().m_opts.max_size_bytes}, {"minfee", minfee},
                            {"unb", SortedIntArr(unb)}, {"times", times}, {"strays", strays}});
        return Obj({{"obs", obs}});
    }
};

void RunSteps(World& w, const UniValue& st, bool strict)
{
    int64_t max_usage = 0, limit = 0;
    for (size_t i = 0; i < st.size(); ++i) {
        R().cur_step = i; R().cur_action = st[i]["a"];
        std::string why, rdiff, sdiff;
        UniValue res, have;
        try { res = w.Apply(st[i]["a"]); have = w.Project(); }
        catch (const std::exception& e) { why = std::string("exception: ") + e.what(); }
        ++R().steps;
        if (!why.empty()) { R().Mismatch(st[i]["a"], why); break; }
        max_usage = std::max(max_usage, have["obs"]["usage"].getInt<int64_t>()); limit = have["obs"]["maxusage"].getInt<int64_t>();
        if (st[i].exists("r") && !st[i]["r"].isNull()) rdiff = JsonDiff(st[i]["r"], res, "result");
        if (st[i].exists("exp") && !st[i]["exp"].isNull()) sdiff = JsonDiff(st[i]["exp"], have, "state");
        if (rdiff.empty() && sdiff.empty()) continue;
        if (strict) { R().Mismatch(st[i]["a"], rdiff.empty() ? sdiff : rdiff + (res.exists("verdicts") ? " (" + res["verdicts"].get_str() + ")" : "")); break; }
        have.pushKV("@result", res);
        R().Deviation(st[i]["a"], sdiff.empty() ? rdiff : sdiff, have);
        if (!sdiff.empty()) break;
    }
    // C27: the node's memory usage after every step of this test, against its limit (judged by the driver)
    if (!strict && limit > 0) Emit(Obj({{"kind", "info"}, {"test", (int64_t)R().cur_test}, {"max_usage", max_usage}, {"limit", limit}}));
}
} // namespace

int main(int argc, char** argv)
{
    if (argc < 4) { std::cerr << "usage: mempool measure|replay|strict|pkgtable|rule5|loadfuzz <tests> <universe.json>\n"; return 2; }
    { std::ifstream f(argv[3]); std::stringstream ss; ss << f.rdbuf(); if (!g_uni.read(ss.str())) { std::cerr << "bad universe\n"; return 2; } }
    const std::string mode = argv[1];
    if (mode == "measure") {
        World w;
        const CFeeRate dust_rate = w.mp().m_opts.dust_relay_feerate;
        for (size_t t = 1; t < w.txu.size(); ++t) {
            const CTransaction& tx = *w.txu[t];
            // memory the entry adds to CTxMemPool::DynamicMemoryUsage: the entry's own dynamic usage + its node in the index
            const CTxMemPoolEntry e{w.txu[t], 0, 0, 1, 0, false, 0, LockPoints{}};
            const int64_t mem = (int64_t)e.DynamicMemoryUsage() + (int64_t)memusage::MallocUsage(sizeof(CTxMemPoolEntry) + 9 * sizeof(void*));
            UniValue dust(UniValue::VARR), thr(UniValue::VARR);
            for (uint32_t i : GetDust(tx, dust_rate)) if (i + 1 < tx.vout.size()) dust.push_back((int)i + 1);
            for (size_t i = 0; i + 1 < tx.vout.size(); ++i) thr.push_back((int64_t)GetDustThreshold(tx.vout[i], dust_rate));
            Emit(Obj({{"fee", (int64_t)w.fee[t]}, {"vsize", (int64_t)GetVirtualTransactionSize(tx)}, {"weight", (int64_t)GetTransactionWeight(tx)},
                      {"mem", mem}, {"dust", dust}, {"dustlimit", thr}}));
        }
        return 0;
    }
    if (mode == "pkgtable") {
        // E4 rows {pkg:[ids], wf: reason|"ok", cwp, topo, cons}: the context-free package predicates on the real transactions
        World w;
        return TableMain(argv[2], [&](const UniValue& row) -> std::string {
            Package pkg;
            for (size_t i = 0; i < row["pkg"].size(); ++i) pkg.push_back(w.txu.at(row["pkg"][i].getInt<int>()));
            PackageValidationState st;
            const bool wf = IsWellFormedPackage(pkg, st);
            const std::string why = wf ? "ok" : st.GetRejectReason();
            if (wf != st.IsValid()) return "IsWellFormedPackage returned " + std::to_string(wf) + " with state " + st.ToString();
            // SAFE mode (the property is one-directional: "evaluated only if"): a predicate that holds where the specification's does
            // not is a mismatch; one that is stricter, or a different reason for the same refusal, is counted and tolerated
            const bool spec_wf = row["wf"].get_str() == "ok";
            if (wf && !spec_wf) return "IsWellFormedPackage accepts, specification: " + row["wf"].get_str();
            if (!wf && spec_wf) R().Count("conservative_rows"); else if (why != row["wf"].get_str()) R().Count("other_reason_rows");
            // (IsTopoSortedPackage documents distinct txids as its precondition: IsWellFormedPackage checks duplicates first)
            if (!row["dup"].get_bool()) {
                const bool topo = IsTopoSortedPackage(pkg);
                if (topo && !row["topo"].get_bool()) return "IsTopoSortedPackage holds, specification: not sorted";
                if (!topo && row["topo"].get_bool()) R().Count("conservative_rows");
            }
            const bool cons = IsConsistentPackage(pkg), cwp = IsChildWithParents(pkg);
            if (cons && !row["cons"].get_bool()) return "IsConsistentPackage holds, specification: conflict in package";
            if (!cons && row["cons"].get_bool()) R().Count("conservative_rows");
            if (cwp && !row["cwp"].get_bool()) return "IsChildWithParents holds, specification: not a child with its parents";
            if (!cwp && row["cwp"].get_bool()) R().Count("conservative_rows");
            return "";
        });
    }
    if (mode == "rule5") {
        // C26, Rule 5 at the node's compile-time bound (E4 rows of module Rule5): {txs: [one id: ProcessTransaction | parent, child:
        // ProcessNewPackage], victims: [ids], a, b, ok, why, evicted}: the victims are submitted to a fresh node (each must become a
        // singleton cluster), then the case. SAFE mode: a mismatch is an accepted replacement the specification refuses, a wrong
        // evicted set, or an eviction by a refused one; a refusal of what the specification accepts is counted as conservative.
        return TableMain(argv[2], [&](const UniValue& row) -> std::string {
            World w;
            std::vector<Txid> victims;
            for (size_t i = 0; i < row["victims"].size(); ++i) {
                const auto& tx = w.txu.at(row["victims"][i].getInt<int>());
                const MempoolAcceptResult r = WITH_LOCK(cs_main, return w.sim->cm().ProcessTransaction(tx, false));
                if (r.m_result_type != MempoolAcceptResult::ResultType::VALID) return "setup: victim rejected: " + r.m_state.GetRejectReason();
                victims.push_back(tx->GetHash());
            }
            {
                LOCK2(cs_main, w.mp().cs);
                if (w.mp().size() != victims.size()) return "setup: pool does not hold exactly the victims";
                for (const auto& e : w.mp().entryAll()) if (!w.mp().GetParents(e.get()).empty() || !w.mp().GetChildren(e.get()).empty()) return "setup: a victim is not a singleton cluster";
            }
            std::string why; bool state_ok;
            std::vector<CTransactionRef> txs;
            for (size_t i = 0; i < row["txs"].size(); ++i) txs.push_back(w.txu.at(row["txs"][i].getInt<int>()));
            if (txs.size() == 1) {
                const MempoolAcceptResult r = WITH_LOCK(cs_main, return w.sim->cm().ProcessTransaction(txs[0], false));
                state_ok = r.m_result_type == MempoolAcceptResult::ResultType::VALID;
                why = state_ok ? "ok" : World::NormReason(r.m_state.GetRejectReason());
            } else {
                const PackageMempoolAcceptResult r = WITH_LOCK(cs_main, return ProcessNewPackage(w.sim->cm().ActiveChainstate(), w.mp(), txs, false, std::nullopt));
                state_ok = r.m_state.IsValid();
                why = state_ok ? "ok" : World::NormReason(r.m_state.GetRejectReason());
            }
            { LOCK(cs_main); w.mp().check(w.sim->cm().ActiveChainstate().CoinsTip(), w.sim->cm().ActiveChain().Height() + 1); }
            bool accepted = false; int64_t evicted = 0;
            for (const auto& tx : txs) accepted |= w.mp().exists(tx->GetHash());
            for (const auto& v : victims) evicted += !w.mp().exists(v);
            const int64_t clusters = row["a"].getInt<int64_t>() + row["b"].getInt<int64_t>();
            const std::string got = strprintf("node: %s (%s), %d victims evicted", accepted ? "accepted" : "refused", why, evicted);
            if (accepted && !row["ok"].get_bool()) return strprintf("replacement conflicting with %d clusters (bound %d) accepted; specification: %s; %s", clusters, row["bound"].getInt<int64_t>(), row["why"].get_str(), got);
            if (accepted && evicted != row["evicted"].getInt<int64_t>()) return strprintf("accepted replacement evicted %d victims, its conflicts are %d; %s", evicted, row["evicted"].getInt<int64_t>(), got);
            if (!accepted && evicted != 0) return "refused replacement evicted pool transactions; " + got;
            if (!accepted && row["ok"].get_bool()) R().Count("conservative_rows"); else if (why != row["why"].get_str()) R().Count("other_reason_rows");
            return "";
        });
    }
    if (mode == "replay" || mode == "strict") {
        // Own replay loop (vfh::ReplayMain stops a test at its first deviation). "replay": every difference from the prediction is a
        // *deviation* (classified per property by the driver with TLC); a test goes on after a deviation as long as the projected state
        // still equals the predicted one (only the call's result differed), so that a tolerated difference does not hide the transitions
        // behind it. "strict": every difference is a mismatch (used for the test-accept twin, a relation between two real calls).
        const bool strict = mode == "strict";
        InstallAbortHandlers();
        ForEachLine(argv[2], [&](size_t n, const UniValue& t) {
            R().cur_test = n; R().cur_step = 0; R().cur_action = UniValue::VNULL;
            auto w = std::make_unique<World>();
            RunSteps(*w, t["steps"], strict);
            ++R().tests;
        });
        R().Summary();
        return 0;
    }
    if (mode == "loadfuzz") {
        // each test: {steps: [...up to and including a dump], exist: [ids], seeds: [..]}: for every seed the dump is reloaded by a
        // fresh node after three seeded byte flips; one "info" line per load: pool before, pool after, return value
        InstallAbortHandlers();
        ForEachLine(argv[2], [&](size_t n, const UniValue& t) {
            R().cur_test = n;
            for (size_t s = 0; s < t["seeds"].size(); ++s) {
                auto w = std::make_unique<World>();
                RunSteps(*w, t["steps"], true);
                R().cur_step = t["steps"].size(); R().cur_action = Arr({UniValue("load"), t["seeds"][s]});
                UniValue cut = Obj({{"kind", "flip"}, {"k", t["seeds"][s]}});
                UniValue a(UniValue::VARR); a.push_back("load"); a.push_back(cut); a.push_back(t["exist"]);
                UniValue res = w->Apply(a);
                UniValue o = Obj({{"kind", "info"}, {"test", (int64_t)n}, {"seed", t["seeds"][s]}, {"result", res}, {"post", w->Project()["obs"]}});
                Emit(o);
                ++R().steps;
            }
            ++R().tests;
        });
        R().Summary();
        return 0;
    }
    return 2;
}
