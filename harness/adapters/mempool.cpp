// Adapter for specs/Mempool (C22, C26, C28): replays model paths on a real in-process regtest node: real signed transactions submitted
// through ChainstateManager::ProcessTransaction, real blocks connected / invalidated / reorganised, the real CTxMemPool projected.
//   mempool measure <ignored> <universe.json>          prints one line per universe transaction: {"fee":..,"vsize":..,"weight":..}
//   mempool replay|strict <tests.ndjson> <universe.json>
// universe.json: {universe: [tx...], h0, basedt, base: [{v,h}...], opts: {minrelay, incr, expiry, maxrepl, maxcluster}} as printed
// by the specification (module MU_*).
#include <chainsim.h>
#include <consensus/tx_check.h>
#include <consensus/tx_verify.h>
#include <kernel/mempool_entry.h>
#include <policy/policy.h>
#include <policy/rbf.h>
#include <util/moneystr.h>
using namespace vfh;

namespace {
UniValue g_uni;
struct Base {
    std::vector<CTransactionRef> cbs;     // coinbase transaction of every base height (index = height)
    uint256 tip_hash; int h0; int64_t t0; int64_t basedt; int64_t mock0;
};
Base g_base;

std::string PerKvB(int64_t sat) { return FormatMoney(sat); }   // options take BTC/kvB

std::unique_ptr<ChainSim> MakeBaseSim()
{
    SimOptions o;
    const UniValue& op = g_uni["opts"];
    o.args = {"-acceptnonstdtxn=1",                      // bare OP_TRUE outputs and friends: test mempools require standardness otherwise
              "-minrelaytxfee=" + PerKvB(op["minrelay"].getInt<int64_t>()),
              "-incrementalrelayfee=" + PerKvB(op["incr"].getInt<int64_t>())};
    auto sim = MakeSim(o);
    const int h0 = g_uni["h0"].getInt<int>();
    const int64_t basedt = g_uni["basedt"].getInt<int64_t>();
    std::map<int, CAmount> coin_at;   // base height -> coinbase value
    for (size_t i = 0; i < g_uni["base"].size(); ++i) coin_at[g_uni["base"][i]["h"].getInt<int>()] = g_uni["base"][i]["v"].getInt<int64_t>();
    const int64_t g = Params().GenesisBlock().nTime;
    g_base = Base{}; g_base.h0 = h0; g_base.basedt = basedt;
    g_base.mock0 = g + (int64_t)h0 * basedt + 100000;   // all block times of a behaviour stay in the past
    SetMockTime(g_base.mock0);
    g_base.cbs.push_back(nullptr);
    uint256 prev = Params().GenesisBlock().GetHash();
    for (int h = 1; h <= h0; ++h) {
        ChainSim::BlockSpec s; s.prev = prev; s.height = h; s.time = g + (int64_t)h * basedt; s.extra_nonce = 7;
        s.cb_value = coin_at.count(h) ? coin_at[h] : 0;
        auto b = sim->BuildBlock(s);
        auto [r, nb] = sim->SubmitBlock(b, true);
        if (!r || sim->Tip()->GetBlockHash() != b->GetHash()) throw std::runtime_error("base chain block rejected");
        g_base.cbs.push_back(b->vtx[0]);
        prev = b->GetHash();
    }
    g_base.tip_hash = prev; g_base.t0 = g + (int64_t)h0 * basedt;
    // the node must run with the constants the specification assumes
    CTxMemPool& mp = *sim->m_node.mempool;
    auto need = [&](const char* what, int64_t have, int64_t want) {
        if (have != want) throw std::runtime_error(std::string("node option differs from the specification's constant: ") + what + " node=" + std::to_string(have) + " spec=" + std::to_string(want));
    };
    need("min relay feerate", mp.m_opts.min_relay_feerate.GetFeePerK(), op["minrelay"].getInt<int64_t>());
    need("incremental relay feerate", mp.m_opts.incremental_relay_feerate.GetFeePerK(), op["incr"].getInt<int64_t>());
    need("expiry", std::chrono::duration_cast<std::chrono::seconds>(mp.m_opts.expiry).count(), op["expiry"].getInt<int64_t>());
    need("cluster count limit", mp.m_opts.limits.cluster_count, op["maxcluster"].getInt<int64_t>());
    need("check ratio", mp.m_opts.check_ratio, 1);
    if (mp.m_opts.require_standard) throw std::runtime_error("node requires standard transactions");
    return sim;
}

struct Blk { uint256 hash; int height; int64_t time; };

struct World {
    std::unique_ptr<ChainSim> sim;
    std::vector<Blk> chain;                // active chain above (and including, [0]) the base tip
    int nblocks{0};
    int64_t mock;
    std::vector<CTransactionRef> txu;      // index = model tx id (1-based)
    std::vector<CAmount> fee;              // fee of each universe tx if all its inputs are known, else 0
    std::map<Txid, int> ids;
    std::map<std::pair<int, int>, COutPoint> ops;    // model outpoint -> real outpoint
    std::map<std::pair<int, int>, CTxOut> outs;      // model outpoint -> real output (for signing / values)

    World()
    {
        sim = MakeBaseSim();
        mock = g_base.mock0;
        chain.push_back({g_base.tip_hash, g_base.h0, g_base.t0});
        for (size_t i = 0; i < g_uni["base"].size(); ++i) {
            const auto& cb = g_base.cbs.at(g_uni["base"][i]["h"].getInt<int>());
            ops[{0, (int)i + 1}] = COutPoint(cb->GetHash(), 0);
            outs[{0, (int)i + 1}] = cb->vout[0];
        }
        ops[{99, 1}] = COutPoint(Txid::FromUint256(uint256{0x99}), 3);
        BuildUniverse();
    }
    CTxMemPool& mp() { return *sim->m_node.mempool; }
    static uint32_t SeqOf(const UniValue& sq)
    {
        const std::string k = sq["kind"].get_str();
        const uint32_t v = (uint32_t)sq["v"].getInt<int>();
        if (k == "final") return CTxIn::SEQUENCE_FINAL;
        if (k == "disabled") return CTxIn::SEQUENCE_LOCKTIME_DISABLE_FLAG | 5;
        if (k == "height") return v;
        if (k == "time") return CTxIn::SEQUENCE_LOCKTIME_TYPE_FLAG | v;
        throw std::runtime_error("bad seq kind");
    }
    void BuildUniverse()
    {
        const UniValue& U = g_uni["universe"];
        txu.resize(U.size() + 1); fee.assign(U.size() + 1, 0);
        for (size_t t = 1; t <= U.size(); ++t) {
            const UniValue& T = U[t - 1];
            CMutableTransaction m;
            m.version = T["ver"].getInt<int>();
            const std::string lk = T["lock"]["kind"].get_str();
            m.nLockTime = lk == "none" ? 0 : lk == "height" ? (uint32_t)T["lock"]["v"].getInt<int>() : (uint32_t)(g_base.t0 + T["lock"]["v"].getInt<int64_t>());
            bool all_known = true; CAmount in = 0, out = 0;
            for (size_t j = 0; j < T["ins"].size(); ++j) {
                const std::pair<int, int> key{T["ins"][j]["op"][0].getInt<int>(), T["ins"][j]["op"][1].getInt<int>()};
                CTxIn ti(ops.at(key)); ti.nSequence = SeqOf(T["ins"][j]["seq"]);
                m.vin.push_back(ti);
                if (outs.count(key)) in += outs[key].nValue; else all_known = false;
            }
            for (size_t i = 0; i < T["outs"].size(); ++i) {
                const std::string cls = T["outs"][i]["cls"].get_str();
                CScript spk;
                if (cls == "true") spk = CScript() << OP_TRUE;
                else if (cls == "opret") spk = CScript() << OP_RETURN << std::vector<unsigned char>(20, (unsigned char)t);
                else if (cls == "fail") spk = CScript() << OP_1 << OP_VERIFY << OP_0;
                else if (cls == "nopx") spk = CScript() << OP_NOP4 << OP_TRUE;        // consensus-valid, rejected by the standard flags
                else if (cls == "cltv") spk = CScript() << 1000 << OP_CHECKLOCKTIMEVERIFY << OP_DROP << OP_TRUE;   // spender has nLockTime 0
                else throw std::runtime_error("bad script class");
                m.vout.emplace_back(T["outs"][i]["v"].getInt<int64_t>(), spk);
                out += T["outs"][i]["v"].getInt<int64_t>();
            }
            // distinguishes otherwise identical transactions, keeps them above the 64-byte minimum; "pad" enlarges a transaction
            const size_t pad = T.exists("pad") ? T["pad"].getInt<int>() : 0;
            m.vout.emplace_back(0, CScript() << OP_RETURN << std::vector<unsigned char>(30 + pad, (unsigned char)(0xA0 + t)));
            for (size_t j = 0; j < m.vin.size(); ++j) {
                const std::pair<int, int> key{T["ins"][j]["op"][0].getInt<int>(), T["ins"][j]["op"][1].getInt<int>()};
                if (key.first == 0) sim->SignP2PK(m, j, outs.at(key));       // base coins are P2PK
            }
            txu[t] = MakeTransactionRef(m);
            ids[txu[t]->GetHash()] = (int)t;
            fee[t] = all_known ? in - out : 0;
            for (size_t i = 0; i < T["outs"].size(); ++i) {
                ops[{(int)t, (int)i + 1}] = COutPoint(txu[t]->GetHash(), i);
                outs[{(int)t, (int)i + 1}] = txu[t]->vout[i];
            }
        }
    }
    static std::string NormReason(std::string why)
    {
        if (why.rfind("mempool-script-verify-flag-failed", 0) == 0 || why.rfind("mandatory-script-verify-flag-failed", 0) == 0 ||
            why.rfind("non-mandatory-script-verify-flag", 0) == 0) return "script-failed";
        // only ConsensusScriptChecks reports this for a loose transaction: the standard flags had accepted it
        if (why.rfind("block-script-verify-flag-failed", 0) == 0) return "consensus-script-failed";
        if (why.rfind("insufficient fee", 0) == 0) return "insufficient fee";
        if (why.rfind("too many potential replacements", 0) == 0) return "too many potential replacements";
        return why;
    }
    UniValue Result(bool ok, const std::string& why, const std::set<int>& ev, bool pure)
    {
        return Obj({{"ok", ok}, {"why", why}, {"evict", SortedIntArr(ev)}, {"pure", pure}});
    }
    std::shared_ptr<CBlock> MakeBlock(const Blk& parent, const UniValue& list, int64_t dt)
    {
        ChainSim::BlockSpec s; s.prev = parent.hash; s.height = parent.height + 1; s.time = parent.time + dt; s.extra_nonce = ++nblocks;
        for (size_t i = 0; i < list.size(); ++i) s.txs.push_back(txu.at(list[i].getInt<int>()));
        s.cb_value = 0;
        return sim->BuildBlock(s);
    }
    // submits b; "" if it became the tip
    std::string Deliver(const std::shared_ptr<CBlock>& b, bool expect_tip)
    {
        sim->SubmitBlock(b, true);
        std::string why = sim->Reason(b->GetHash());
        if (!why.empty()) return "rejected:" + NormReason(why);
        if (expect_tip && sim->Tip()->GetBlockHash() != b->GetHash()) return "not-activated";
        return "";
    }
    UniValue Apply(const UniValue& a)
    {
        const std::string op = a[0].get_str();
        std::string why = "none"; bool ok = true; std::set<int> ev; bool pure = true;
        if (op == "submit" || op == "test") {
            const bool test = op == "test";
            const int t = a[1].getInt<int>();
            std::string before; uint64_t seq0 = 0; unsigned upd0 = 0;
            if (test) { before = Project().write(); LOCK(mp().cs); seq0 = mp().GetSequence(); upd0 = mp().GetTransactionsUpdated(); }
            const MempoolAcceptResult res = WITH_LOCK(cs_main, return sim->cm().ProcessTransaction(txu.at(t), test));
            ok = res.m_result_type == MempoolAcceptResult::ResultType::VALID;
            why = ok ? "ok" : NormReason(res.m_state.GetRejectReason());
            if (ok) for (const auto& r : res.m_replaced_transactions) { auto it = ids.find(r->GetHash()); ev.insert(it == ids.end() ? -1 : it->second); }
            if (test) {
                // side-effect freedom: same content (txids, fees, prioritisation, links, totals), same mempool sequence number, same update counter
                const std::string after = Project().write();
                LOCK(mp().cs);
                pure = before == after && seq0 == mp().GetSequence() && upd0 == mp().GetTransactionsUpdated();
            }
        } else if (op == "twin") {
            // C28 directly on the code: test-accept, then submit, from the same state; result = both verdicts
            const int t = a[1].getInt<int>();
            const std::string before = Project().write();
            const MempoolAcceptResult r1 = WITH_LOCK(cs_main, return sim->cm().ProcessTransaction(txu.at(t), true));
            const bool same_state = before == Project().write();
            const MempoolAcceptResult r2 = WITH_LOCK(cs_main, return sim->cm().ProcessTransaction(txu.at(t), false));
            const bool ok1 = r1.m_result_type == MempoolAcceptResult::ResultType::VALID, ok2 = r2.m_result_type == MempoolAcceptResult::ResultType::VALID;
            const std::string w1 = ok1 ? "ok" : NormReason(r1.m_state.GetRejectReason()), w2 = ok2 ? "ok" : NormReason(r2.m_state.GetRejectReason());
            // "mempool full" is the one verdict only a real submission can produce (LimitMempoolSize runs after the acceptance)
            const bool agree = (ok1 == ok2 && w1 == w2) || (ok1 && w2 == "mempool full");
            return Obj({{"agree", agree}, {"pure", same_state}, {"verdicts", "test-accept: " + w1 + " / submit: " + w2}});
        } else if (op == "prio") {
            mp().PrioritiseTransaction(txu.at(a[1].getInt<int>())->GetHash(), a[2].getInt<int64_t>());
        } else if (op == "mine") {
            auto b = MakeBlock(chain.back(), a[1], a[2].getInt<int64_t>());
            const std::string r = Deliver(b, true);
            if (r.empty()) chain.push_back({b->GetHash(), chain.back().height + 1, (int64_t)b->nTime}); else { ok = false; why = r; }
        } else if (op == "disconnect") {
            if (chain.size() < 2) throw std::runtime_error("disconnect below the base tip");
            sim->Invalidate(chain.back().hash);
            chain.pop_back();
            if (sim->Tip()->GetBlockHash() != chain.back().hash) { ok = false; why = "tip-not-parent"; }
        } else if (op == "reorg") {
            if (chain.size() < 2) throw std::runtime_error("reorg below the base tip");
            const Blk parent = chain[chain.size() - 2];
            auto A = MakeBlock(parent, a[1], a[3].getInt<int64_t>());
            std::string r = Deliver(A, false);
            const Blk ba{A->GetHash(), parent.height + 1, (int64_t)A->nTime};
            auto B = MakeBlock(ba, a[2], a[3].getInt<int64_t>());
            if (r.empty()) r = Deliver(B, true);
            if (r.empty()) { chain.pop_back(); chain.push_back(ba); chain.push_back({B->GetHash(), ba.height + 1, (int64_t)B->nTime}); } else { ok = false; why = r; }
        } else if (op == "tick") {
            mock += a[1].getInt<int64_t>(); SetMockTime(mock);
        } else if (op == "expire") {
            LOCK2(cs_main, mp().cs);
            mp().Expire(GetTime<std::chrono::seconds>() - mp().m_opts.expiry);
        } else throw std::runtime_error("unknown op " + op);
        {
            // the code's own consistency checker (check_ratio = 1): an assertion in there ends the process inside this step
            LOCK(cs_main);
            mp().check(sim->cm().ActiveChainstate().CoinsTip(), sim->cm().ActiveChain().Height() + 1);
        }
        return Result(ok, why, ev, pure);
    }
    int IdOf(const CTransaction& tx) { auto it = ids.find(tx.GetHash()); return it == ids.end() ? -1 : it->second; }
    UniValue Project()
    {
        LOCK(cs_main);
        auto& cm = sim->cm();
        std::set<int> pool;
        std::map<int, UniValue> entries;
        UniValue deltas(UniValue::VARR);
        {
            std::map<int, int64_t> dl;
            for (const auto& d : mp().GetPrioritisedTransactions()) { auto it = ids.find(d.txid); dl[it == ids.end() ? -1 : it->second] = d.delta; }
            for (auto& [t, d] : dl) deltas.push_back(Obj({{"t", t}, {"d", d}}));
        }
        uint64_t tsize; CAmount tfee;
        {
            LOCK(mp().cs);
            for (const auto& e : mp().entryAll()) {
                const CTxMemPoolEntry& en = e.get();
                const int t = IdOf(en.GetTx());
                pool.insert(t);
                std::set<int> par, chi;
                for (const auto& p : mp().GetParents(en)) par.insert(IdOf(p.get().GetTx()));
                for (const auto& c : mp().GetChildren(en)) chi.insert(IdOf(c.get().GetTx()));
                entries[t] = Obj({{"t", t}, {"fee", (int64_t)en.GetFee()}, {"mfee", (int64_t)en.GetModifiedFee()}, {"vsize", (int64_t)en.GetTxSize()},
                                  {"parents", SortedIntArr(par)}, {"children", SortedIntArr(chi)}});
            }
            tsize = mp().GetTotalTxSize(); tfee = mp().GetTotalFee();
        }
        UniValue el(UniValue::VARR);
        for (auto& [t, v] : entries) el.push_back(v);
        // the UTXO set restricted to the universe: base coins and every universe output
        auto& view = cm.ActiveChainstate().CoinsTip();
        UniValue ul(UniValue::VARR);
        for (auto& [key, op] : ops) {
            if (key.first == 99) continue;
            auto c = view.GetCoin(op);
            if (!c) continue;
            ul.push_back(Obj({{"t", key.first}, {"i", key.second}, {"v", (int64_t)c->out.nValue}, {"h", (int)c->nHeight}, {"cb", c->IsCoinBase()}}));
        }
        UniValue obs = Obj({{"pool", SortedIntArr(pool)}, {"entries", el}, {"deltas", deltas}, {"tsize", (int64_t)tsize}, {"tfee", (int64_t)tfee},
                            {"height", cm.ActiveChain().Height()}, {"utxo", ul}});
        return Obj({{"obs", obs}});
    }
};
} // namespace

int main(int argc, char** argv)
{
    if (argc < 4) { std::cerr << "usage: mempool measure|replay|strict <tests> <universe.json>\n"; return 2; }
    { std::ifstream f(argv[3]); std::stringstream ss; ss << f.rdbuf(); if (!g_uni.read(ss.str())) { std::cerr << "bad universe\n"; return 2; } }
    const std::string mode = argv[1];
    if (mode == "measure") {
        World w;
        for (size_t t = 1; t < w.txu.size(); ++t) {
            Emit(Obj({{"fee", (int64_t)w.fee[t]}, {"vsize", (int64_t)GetVirtualTransactionSize(*w.txu[t])}, {"weight", (int64_t)GetTransactionWeight(*w.txu[t])}}));
        }
        return 0;
    }
    if (mode == "replay" || mode == "strict") {
        // Own replay loop (vfh::ReplayMain stops a test at its first deviation). "replay": every difference from the prediction is a
        // *deviation* (classified per property by the driver with TLC); a test goes on after a deviation as long as the projected state
        // still equals the predicted one (only the call's result differed), so that a tolerated difference does not hide the transitions
        // behind it. "strict": every difference is a mismatch (used for the test-accept twin, a relation between two real calls).
        const bool strict = mode == "strict";
        InstallAbortHandlers();
        ForEachLine(argv[2], [&](size_t n, const UniValue& t) {
            R().cur_test = n; R().cur_step = 0; R().cur_action = UniValue::VNULL;
            auto w = std::make_unique<World>();
            const UniValue& st = t["steps"];
            for (size_t i = 0; i < st.size(); ++i) {
                R().cur_step = i; R().cur_action = st[i]["a"];
                std::string why, rdiff, sdiff;
                UniValue res, have;
                try { res = w->Apply(st[i]["a"]); have = w->Project(); }
                catch (const std::exception& e) { why = std::string("exception: ") + e.what(); }
                ++R().steps;
                if (!why.empty()) { R().Mismatch(st[i]["a"], why); break; }
                if (st[i].exists("r") && !st[i]["r"].isNull()) rdiff = JsonDiff(st[i]["r"], res, "result");
                if (st[i].exists("exp") && !st[i]["exp"].isNull()) sdiff = JsonDiff(st[i]["exp"], have, "state");
                if (rdiff.empty() && sdiff.empty()) continue;
                if (strict) { R().Mismatch(st[i]["a"], rdiff.empty() ? sdiff : rdiff + (res.exists("verdicts") ? " (" + res["verdicts"].get_str() + ")" : "")); break; }
                have.pushKV("@result", res);
                R().Deviation(st[i]["a"], sdiff.empty() ? rdiff : sdiff, have);
                if (!sdiff.empty()) break;
            }
            ++R().tests;
        });
        R().Summary();
        return 0;
    }
    return 2;
}
