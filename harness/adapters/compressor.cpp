// Adapter for specs/Compressor (C18): each row of the TLC-enumerated table is replayed on the real CompressAmount /
// DecompressAmount, CompressScript / DecompressScript (ScriptCompression formatter), Coin serialization,
// TxInUndoFormatter and an in-memory CCoinsViewDB. Pubkey rows carry a key class (valid with even / odd y, x not on the
// curve, y wrong) which is realised here with real secp256k1 points.
//   compressor table <rows.ndjson> [seed]
//   compressor random <n-file> seed        round trip of seeded random amounts / coins over the full range (supplementary)
#include <vfh.h>
#include <coins.h>
#include <compressor.h>
#include <consensus/amount.h>
#include <key.h>
#include <pubkey.h>
#include <random.h>
#include <script/script.h>
#include <streams.h>
#include <txdb.h>
#include <undo.h>
#include <util/strencodings.h>
#include <test/util/setup_common.h>

using namespace vfh;

namespace {
using Bytes = std::vector<unsigned char>;

uint64_t U64(const UniValue& digits)   // most significant decimal digit first
{
    unsigned __int128 v = 0;
    for (size_t i = 0; i < digits.size(); ++i) v = v * 10 + digits[i].getInt<int>();
    if (v > std::numeric_limits<uint64_t>::max()) throw std::runtime_error("row value exceeds 64 bits");
    return (uint64_t)v;
}
Bytes ToBytes(const UniValue& a)
{
    Bytes b; b.reserve(a.size());
    for (size_t i = 0; i < a.size(); ++i) { const int v = a[i].getInt<int>(); if (v < 0 || v > 255) throw std::runtime_error("byte out of range in row"); b.push_back((unsigned char)v); }
    return b;
}
std::string Hex(const Bytes& b) { return b.size() > 80 ? HexStr(std::span{b}.first(40)) + "..(" + std::to_string(b.size()) + " bytes)" : HexStr(b); }
template <typename S> Bytes Take(S& s) { auto sp = MakeUCharSpan(s); return Bytes(sp.begin(), sp.end()); }

// ---- real keys for the key classes
struct KeyMaterial { Bytes x, y; };
const KeyMaterial& KeyFor(const std::string& cls)
{
    static std::map<std::string, KeyMaterial> cache;
    auto it = cache.find(cls);
    if (it != cache.end()) return it->second;
    KeyMaterial m;
    auto valid = [](bool odd) {
        for (unsigned k = 1;; ++k) {
            std::array<unsigned char, 32> sec{}; sec[31] = k & 0xff; sec[30] = k >> 8; sec[0] = 0x11;
            CKey key; key.Set(sec.begin(), sec.end(), /*fCompressed=*/false);
            if (!key.IsValid()) continue;
            const CPubKey pk = key.GetPubKey();
            if (pk.size() != 65 || !pk.IsFullyValid()) continue;
            // the neighbouring bytes have the opposite parity, so that taking the parity bit from the wrong byte shows
            if (bool(pk[64] & 1) == odd && bool(pk[63] & 1) != odd && bool(pk[32] & 1) != odd && bool(pk[33] & 1) != odd) return KeyMaterial{Bytes(pk.begin() + 1, pk.begin() + 33), Bytes(pk.begin() + 33, pk.begin() + 65)};
        }
    };
    if (cls == "valid_even") m = valid(false);
    else if (cls == "valid_odd") m = valid(true);
    else if (cls == "bad_y") {
        m = valid(false); m.y[5] ^= 0x40;
        unsigned char vch[65]; vch[0] = 4; memcpy(vch + 1, m.x.data(), 32); memcpy(vch + 33, m.y.data(), 32);
        if (CPubKey(vch).IsFullyValid()) throw std::runtime_error("bad_y key is valid");
    } else if (cls == "bad_x") {
        m = valid(false);
        for (;;) {   // walk x until no curve point has that x coordinate
            unsigned char vch[33]; vch[0] = 2; memcpy(vch + 1, m.x.data(), 32);
            CPubKey pk{vch};
            if (!pk.IsFullyValid()) break;
            ++m.x[31];
        }
    } else throw std::runtime_error("unknown key class " + cls);
    return cache.emplace(cls, m).first->second;
}
// the model's script with its placeholder key bytes replaced by the real key of the class
Bytes Realise(const Bytes& s, const std::string& key)
{
    if (key == "none") return s;
    Bytes r = s;
    const KeyMaterial& m = KeyFor(key);
    if (r.size() >= 34) memcpy(&r[2], m.x.data(), 32);
    if (r.size() >= 66) memcpy(&r[34], m.y.data(), 32);
    return r;
}
CScript ToScript(const Bytes& b) { return CScript(b.begin(), b.end()); }
Bytes FromScript(const CScript& s) { return Bytes(s.begin(), s.end()); }

// expected ScriptCompression output for a row {special, comp, head} and the realised script
Bytes ExpectedScriptSer(const UniValue& row, const Bytes& real, const std::string& key)
{
    if (row["special"].get_bool()) {
        Bytes c = ToBytes(row["comp"]);
        if (key != "none" && c.size() == 33) memcpy(&c[1], KeyFor(key).x.data(), 32);
        return c;
    }
    Bytes out = ToBytes(row["head"]);
    out.insert(out.end(), real.begin(), real.end());
    return out;
}

std::unique_ptr<CCoinsViewDB> g_db;
uint64_t g_row = 0;

std::string CheckAmount(const UniValue& row)
{
    const uint64_t a = U64(row["a"]), comp = U64(row["comp"]);
    if (!MoneyRange((CAmount)a)) return "harness: amount outside the money range";
    const uint64_t c = CompressAmount(a);
    if (c != comp) return strprintf("CompressAmount(%u) = %u, specification says %u", a, c, comp);
    const uint64_t d = DecompressAmount(comp);
    if (d != a) return strprintf("DecompressAmount(%u) = %u, specification says %u", comp, d, a);
    DataStream ss; CAmount v = (CAmount)a;
    ss << Using<AmountCompression>(v);
    const Bytes have = Take(ss), want = ToBytes(row["ser"]);
    if (have != want) return "AmountCompression wrote " + Hex(have) + ", specification says " + Hex(want);
    CAmount back = -1; ss >> Using<AmountCompression>(back);
    if (back != (CAmount)a || !ss.empty()) return strprintf("AmountCompression read back %d for %u", back, a);
    return "";
}
std::string CheckDecAmount(const UniValue& row)
{
    const uint64_t x = U64(row["x"]), dec = U64(row["dec"]);
    const uint64_t d = DecompressAmount(x);
    if (d != dec) return strprintf("DecompressAmount(%u) = %u, specification says %u", x, d, dec);
    if (CompressAmount(d) != x) return strprintf("CompressAmount(DecompressAmount(%u)) = %u", x, CompressAmount(d));
    return "";
}
std::string CheckScript(const UniValue& row)
{
    const std::string key = row["key"].get_str();
    const Bytes real = Realise(ToBytes(row["s"]), key);
    const CScript script = ToScript(real);
    CompressedScript out;
    const bool special = CompressScript(script, out);
    if (special != row["special"].get_bool()) return std::string("CompressScript says ") + (special ? "special" : "not special") + " for " + Hex(real) + " (key class " + key + "), specification says the opposite";
    const Bytes want = ExpectedScriptSer(row, real, key);
    if (special) {
        const Bytes c(out.begin(), out.end());
        if (c != want) return "CompressScript produced " + Hex(c) + ", specification says " + Hex(want);
        // the decompressor restores the script from code + payload
        CScript back;
        const CompressedScript payload(c.begin() + 1, c.end());
        if (GetSpecialScriptSize(c[0]) != payload.size()) return "GetSpecialScriptSize disagrees with the payload length";
        if (!DecompressScript(back, c[0], payload) || back != script) return "DecompressScript does not restore " + Hex(real) + " from " + Hex(c);
    }
    DataStream ss;
    ss << Using<ScriptCompression>(script);
    const Bytes have = Take(ss);
    if (have != want) return "ScriptCompression wrote " + Hex(have) + ", specification says " + Hex(want);
    CScript back;
    ss >> Using<ScriptCompression>(back);
    if (!ss.empty()) return "ScriptCompression left unread bytes";
    const std::string mode = row["back"].get_str();
    if (mode == "same") { if (back != script) return "script read back as " + Hex(FromScript(back)) + ", written " + Hex(real); }
    else if (back != (CScript() << OP_RETURN)) return "overlong script read back as " + Hex(FromScript(back)) + ", specification says OP_RETURN";
    if (row["spendable"].get_bool() != !script.IsUnspendable()) return "IsUnspendable disagrees with the specification's notion of spendable";
    if (row["spendable"].get_bool() && back != script) return "spendable script not preserved";
    return "";
}
std::string CheckCoin(const UniValue& row)
{
    const std::string key = row["key"].get_str();
    const Bytes real = Realise(ToBytes(row["s"]), key);
    const CScript script = ToScript(real);
    const uint64_t value = U64(row["value"]);
    const int64_t h = row["h"].getInt<int64_t>();
    const bool cb = row["cb"].get_bool();
    const Coin coin(CTxOut((CAmount)value, script), (int)h, cb);
    if (coin.nHeight != (uint32_t)h) return "harness: height does not fit";
    const Bytes tail = ExpectedScriptSer(row, real, key);
    auto same = [&](const Coin& c) { return c.out == coin.out && c.nHeight == coin.nHeight && c.fCoinBase == coin.fCoinBase; };
    {
        DataStream ss; ss << coin;
        Bytes want = ToBytes(row["pre"]); want.insert(want.end(), tail.begin(), tail.end());
        const Bytes have = Take(ss);
        if (have != want) return "Coin serialized as " + Hex(have) + ", specification says " + Hex(want);
        if ((int64_t)have.size() != row["serlen"].getInt<int64_t>()) return "serialized length differs";
        Coin back; ss >> back;
        if (!ss.empty() || !same(back)) return "Coin read back differs: " + Hex(have);
    }
    {
        DataStream ss; ss << Using<TxInUndoFormatter>(coin);
        Bytes want = ToBytes(row["undopre"]); want.insert(want.end(), tail.begin(), tail.end());
        const Bytes have = Take(ss);
        if (have != want) return "TxInUndoFormatter wrote " + Hex(have) + ", specification says " + Hex(want);
        Coin back; ss >> Using<TxInUndoFormatter>(back);
        if (!ss.empty() || !same(back)) return "undo record read back differs: " + Hex(have);
    }
    {
        // through the real database: add to a cache, flush to the CCoinsViewDB, read from the database
        const COutPoint op(Txid::FromUint256(uint256{(uint8_t)(g_row % 251 + 1)}), (uint32_t)(g_row++));
        CCoinsViewCache cache(g_db.get());
        cache.SetBestBlock(uint256::ONE);
        cache.AddCoin(op, Coin(coin), false);
        cache.Flush();
        const std::optional<Coin> back = g_db->GetCoin(op);
        if (!back) return "coin not found in the database after the flush";
        if (!same(*back)) return "coin read from the database differs";
        R().Count("db_round_trips");
    }
    return "";
}
std::string CheckDecScript(const UniValue& row)
{
    const int code = row["code"].getInt<int>();
    const std::string key = row["key"].get_str();
    const KeyMaterial& m = KeyFor(key);
    const CompressedScript payload(m.x.begin(), m.x.end());
    CScript script;
    const bool ok = DecompressScript(script, code, payload);
    if (ok != row["ok"].get_bool()) return strprintf("DecompressScript(code %d, key class %s) returned %d, specification says %d", code, key, ok, row["ok"].get_bool());
    if (!ok) return "";
    if (code == 2 || code == 3) {
        if (script.size() != 35 || script[0] != 33 || script[1] != code || memcmp(&script[2], m.x.data(), 32) != 0 || script[34] != OP_CHECKSIG) return "wrong pay-to-compressed-pubkey script";
    } else {
        if (script.size() != 67 || script[0] != 65 || script[1] != 4 || memcmp(&script[2], m.x.data(), 32) != 0 || script[66] != OP_CHECKSIG) return "wrong pay-to-uncompressed-pubkey script";
        if ((script[65] & 1) != row["parity"].getInt<int>()) return "decompressed y has the wrong parity";
        if (!CPubKey(script.begin() + 1, script.begin() + 66).IsFullyValid()) return "decompressed key is not a curve point";
    }
    CompressedScript again;
    if (!CompressScript(script, again) || again[0] != code || memcmp(&again[1], m.x.data(), 32) != 0) return "re-compression of the decompressed script differs";
    return "";
}

std::string CheckRow(const UniValue& row)
{
    const std::string kind = row["kind"].get_str();
    R().Count("rows_" + kind);
    if (kind == "amount") return CheckAmount(row);
    if (kind == "decamt") return CheckDecAmount(row);
    if (kind == "script") return CheckScript(row);
    if (kind == "coin") return CheckCoin(row);
    if (kind == "decscript") return CheckDecScript(row);
    return "unknown row kind";
}

// supplementary, sampled: the round trip identities of the property on seeded random amounts and coins over the full range
std::string RandomRow(const UniValue& row)
{
    FastRandomContext rng(uint256{(uint8_t)(row["seed"].getInt<int>() & 0xff)});
    for (int i = 0; i < row["skip"].getInt<int>(); ++i) rng.rand64();
    const int n = row["n"].getInt<int>();
    for (int i = 0; i < n; ++i) {
        // uniform, and uniform in the number of digits (small amounts and amounts with many trailing zeros matter)
        uint64_t a = rng.randrange(MAX_MONEY + 1);
        if (i % 3 == 1) { const int digits = 1 + rng.randrange(16); uint64_t lim = 1; for (int k = 0; k < digits; ++k) lim *= 10; a = rng.randrange(std::min<uint64_t>(lim, MAX_MONEY + 1)); }
        if (i % 3 == 2) { const int z = rng.randrange(15); for (int k = 0; k < z; ++k) a -= a % 10, a /= 10; for (int k = 0; k < z; ++k) if (a * 10 <= (uint64_t)MAX_MONEY) a *= 10; }
        if (DecompressAmount(CompressAmount(a)) != a) return strprintf("DecompressAmount(CompressAmount(%u)) = %u", a, DecompressAmount(CompressAmount(a)));
        Bytes spk(rng.randrange(80)); for (auto& b : spk) b = rng.randbits(8);
        if (!spk.empty() && spk[0] == OP_RETURN) spk[0] = OP_TRUE;
        const Coin coin(CTxOut((CAmount)a, ToScript(spk)), (int)rng.randbits(31), rng.randbool());
        DataStream ss; ss << coin; Coin back; ss >> back;
        if (!(back.out == coin.out) || back.nHeight != coin.nHeight || back.fCoinBase != coin.fCoinBase) return strprintf("random coin with value %u does not survive serialization", a);
        DataStream su; su << Using<TxInUndoFormatter>(coin); Coin b2; su >> Using<TxInUndoFormatter>(b2);
        if (!(b2.out == coin.out) || b2.nHeight != coin.nHeight || b2.fCoinBase != coin.fCoinBase) return strprintf("random coin with value %u does not survive the undo format", a);
        R().Count("random_cases");
    }
    return "";
}
} // namespace

int main(int argc, char** argv)
{
    if (argc < 3) { std::cerr << "usage: compressor table|random <rows.ndjson>\n"; return 2; }
    const std::string mode = argv[1];
    auto setup = MakeNoLogFileContext<const BasicTestingSetup>(ChainType::REGTEST);   // ECC context, temp dir
    g_db = std::make_unique<CCoinsViewDB>(DBParams{.path = "vfh_compressor", .cache_bytes = 1 << 20, .memory_only = true}, CoinsViewOptions{});
    int rc = 2;
    if (mode == "table") rc = TableMain(argv[2], CheckRow);
    else if (mode == "random") rc = TableMain(argv[2], RandomRow);
    else std::cerr << "unknown mode\n";
    g_db.reset();
    return rc;
}
