// Adapter for specs/BlockTemplate (C23): block templates built by a real in-process regtest node from its real mempool.
//   blocktemplate measure <ignored> <universe.json>     one line per universe transaction: {"fee","vsize","weight","sigops"}
// Amounts (coin values, fees, coinbase value) are wide values {q, r} = q * 10^9 + r in both directions.
//   blocktemplate replay <tests.ndjson> <universe.json>
// A test is {steps: [{a: action}...]}: ["submit", t] (ProcessTransaction), ["inject", t] (TryAddToMempool: no acceptance rules),
// ["prio", t, d] (PrioritiseTransaction), ["mine", [t...], dt] (a hand-built valid block connected on the tip), and
// ["templates", [{o: options, ...}...]]: for every option row Mining::createNewBlock (test_block_validity = false) and
// BlockAssembler::CreateNewBlock (for the package feerates); the template is logged ("trace" line: observed pool, deltas, chain,
// options, template), TestBlockValidity is run on it, then it is mined (merkle root, nonce) and submitted with ProcessNewBlock;
// afterwards the block is invalidated and the mempool restored so that the next row sees the same state.
// universe.json as printed by module MU_tpl (pool model and transaction building copied from harness/adapters/mempool.cpp).
#include <chainsim.h>
#include <consensus/tx_verify.h>
#include <interfaces/mining.h>
#include <kernel/mempool_entry.h>
#include <node/miner.h>
#include <node/mining_args.h>
#include <policy/policy.h>
#include <test/util/txmempool.h>
#include <util/moneystr.h>
using namespace vfh;

namespace {
UniValue g_uni;
struct Base {
    std::vector<CTransactionRef> cbs;
    uint256 tip_hash; int h0; int64_t t0; int64_t basedt; int64_t mock0;
};
Base g_base;

std::string PerKvB(int64_t sat) { return FormatMoney(sat); }

// Amounts travel as wide values {q, r} = q * 10^9 + r, 0 <= r < 10^9 (TLC's integers are 32 bit); q is the floor quotient, so the
// representation is canonical for negative values too.
constexpr int64_t WB = 1000000000;
UniValue W(int64_t v)
{
    int64_t q = v / WB, r = v % WB;
    if (r < 0) { r += WB; q -= 1; }
    return Obj({{"q", q}, {"r", r}});
}
int64_t FromW(const UniValue& w) { return w["q"].getInt<int64_t>() * WB + w["r"].getInt<int64_t>(); }

std::unique_ptr<ChainSim> MakeBaseSim()
{
    SimOptions o;
    const UniValue& op = g_uni["opts"];
    o.args = {"-acceptnonstdtxn=1",
              "-minrelaytxfee=" + PerKvB(op["minrelay"].getInt<int64_t>()),
              "-incrementalrelayfee=" + PerKvB(op["incr"].getInt<int64_t>())};
    auto sim = MakeSim(o);
    const int h0 = g_uni["h0"].getInt<int>();
    const int64_t basedt = g_uni["basedt"].getInt<int64_t>();
    std::map<int, CAmount> coin_at;
    for (size_t i = 0; i < g_uni["base"].size(); ++i) coin_at[g_uni["base"][i]["h"].getInt<int>()] = FromW(g_uni["base"][i]["v"]);
    const int64_t g = Params().GenesisBlock().nTime;
    g_base = Base{}; g_base.h0 = h0; g_base.basedt = basedt;
    g_base.mock0 = g + (int64_t)h0 * basedt + 100000;
    SetMockTime(g_base.mock0);
    g_base.cbs.push_back(nullptr);
    uint256 prev = Params().GenesisBlock().GetHash();
    for (int h = 1; h <= h0; ++h) {
        ChainSim::BlockSpec s; s.prev = prev; s.height = h; s.time = g + (int64_t)h * basedt; s.extra_nonce = 7;
        s.cb_value = coin_at.count(h) ? coin_at[h] : 0;
        auto b = sim->BuildBlock(s);
        auto [r, nb] = sim->SubmitBlock(b, true);
        if (!r || sim->Tip()->GetBlockHash() != b->GetHash()) throw std::runtime_error("base chain block rejected");
        g_base.cbs.push_back(b->vtx[0]);
        prev = b->GetHash();
    }
    g_base.tip_hash = prev; g_base.t0 = g + (int64_t)h0 * basedt;
    CTxMemPool& mp = *sim->m_node.mempool;
    auto need = [&](const char* what, int64_t have, int64_t want) {
        if (have != want) throw std::runtime_error(std::string("node option differs from the specification's constant: ") + what + " node=" + std::to_string(have) + " spec=" + std::to_string(want));
    };
    need("min relay feerate", mp.m_opts.min_relay_feerate.GetFeePerK(), op["minrelay"].getInt<int64_t>());
    need("incremental relay feerate", mp.m_opts.incremental_relay_feerate.GetFeePerK(), op["incr"].getInt<int64_t>());
    need("cluster count limit", mp.m_opts.limits.cluster_count, op["maxcluster"].getInt<int64_t>());
    need("bytes per sigop", ::nBytesPerSigOp, 20);
    need("halving interval", Params().GetConsensus().nSubsidyHalvingInterval, 150);
    if (mp.m_opts.require_standard) throw std::runtime_error("node requires standard transactions");
    return sim;
}

struct Blk { uint256 hash; int height; int64_t time; };

struct World {
    std::unique_ptr<ChainSim> sim;
    std::unique_ptr<interfaces::Mining> mining;
    std::vector<Blk> chain;
    UniValue chain_log{UniValue::VARR};    // [{txs, dt}] of the blocks connected on top of the base tip
    int nblocks{0};
    int64_t mock;
    std::vector<CTransactionRef> txu;
    std::vector<CAmount> fee;
    std::vector<int64_t> sigops;
    std::map<Txid, int> ids;
    std::map<std::pair<int, int>, COutPoint> ops;
    std::map<std::pair<int, int>, CTxOut> outs;
    bool dirty{false};                     // the mempool could not be restored after a submitted template: the test ends
    int extra{0};

    World()
    {
        sim = MakeBaseSim();
        mining = interfaces::MakeMining(sim->m_node, /*wait_loaded=*/false);
        mock = g_base.mock0;
        chain.push_back({g_base.tip_hash, g_base.h0, g_base.t0});
        for (size_t i = 0; i < g_uni["base"].size(); ++i) {
            const auto& cb = g_base.cbs.at(g_uni["base"][i]["h"].getInt<int>());
            ops[{0, (int)i + 1}] = COutPoint(cb->GetHash(), 0);
            outs[{0, (int)i + 1}] = cb->vout[0];
        }
        ops[{99, 1}] = COutPoint(Txid::FromUint256(uint256{0x99}), 3);
        BuildUniverse();
    }
    CTxMemPool& mp() { return *sim->m_node.mempool; }
    static uint32_t SeqOf(const UniValue& sq)
    {
        const std::string k = sq["kind"].get_str();
        const uint32_t v = (uint32_t)sq["v"].getInt<int>();
        if (k == "final") return CTxIn::SEQUENCE_FINAL;
        if (k == "disabled") return CTxIn::SEQUENCE_LOCKTIME_DISABLE_FLAG | 5;
        if (k == "height") return v;
        if (k == "time") return CTxIn::SEQUENCE_LOCKTIME_TYPE_FLAG | v;
        throw std::runtime_error("bad seq kind");
    }
    void BuildUniverse()
    {
        const UniValue& U = g_uni["universe"];
        txu.resize(U.size() + 1); fee.assign(U.size() + 1, 0); sigops.assign(U.size() + 1, 0);
        for (size_t t = 1; t <= U.size(); ++t) {
            const UniValue& T = U[t - 1];
            CMutableTransaction m;
            m.version = T["ver"].getInt<int>();
            const std::string lk = T["lock"]["kind"].get_str();
            m.nLockTime = lk == "none" ? 0 : lk == "height" ? (uint32_t)T["lock"]["v"].getInt<int>() : (uint32_t)(g_base.t0 + T["lock"]["v"].getInt<int64_t>());
            bool all_known = true; CAmount in = 0, out = 0;
            for (size_t j = 0; j < T["ins"].size(); ++j) {
                const std::pair<int, int> key{T["ins"][j]["op"][0].getInt<int>(), T["ins"][j]["op"][1].getInt<int>()};
                CTxIn ti(ops.at(key)); ti.nSequence = SeqOf(T["ins"][j]["seq"]);
                m.vin.push_back(ti);
                if (outs.count(key)) in += outs[key].nValue; else all_known = false;
            }
            for (size_t i = 0; i < T["outs"].size(); ++i) {
                const std::string cls = T["outs"][i]["cls"].get_str();
                CScript spk;
                if (cls == "true") spk = CScript() << OP_TRUE;
                else if (cls == "opret") spk = CScript() << OP_RETURN << std::vector<unsigned char>(20, (unsigned char)t);
                else if (cls == "fail") spk = CScript() << OP_1 << OP_VERIFY << OP_0;
                else if (cls == "nopx") spk = CScript() << OP_NOP4 << OP_TRUE;
                else if (cls == "cltv") spk = CScript() << 1000 << OP_CHECKLOCKTIMEVERIFY << OP_DROP << OP_TRUE;
                else throw std::runtime_error("bad script class");
                m.vout.emplace_back(FromW(T["outs"][i]["v"]), spk);
                out += FromW(T["outs"][i]["v"]);
            }
            const size_t pad = T.exists("pad") ? T["pad"].getInt<int>() : 0;
            m.vout.emplace_back(0, CScript() << OP_RETURN << std::vector<unsigned char>(30 + pad, (unsigned char)(0xA0 + t)));
            // sigop carriers: bare OP_CHECKMULTISIG outputs (20 legacy sigops = 80 sigop cost each), never spent; placed after the
            // numbered outputs so that the model's outpoint indices stay valid
            const int nm = T["msig"]["n"].getInt<int>();
            for (int i = 0; i < nm; ++i) { m.vout.emplace_back(T["msig"]["v"].getInt<int64_t>(), CScript() << OP_CHECKMULTISIG); out += T["msig"]["v"].getInt<int64_t>(); }
            for (size_t j = 0; j < m.vin.size(); ++j) {
                const std::pair<int, int> key{T["ins"][j]["op"][0].getInt<int>(), T["ins"][j]["op"][1].getInt<int>()};
                if (key.first == 0) sim->SignP2PK(m, j, outs.at(key));
            }
            txu[t] = MakeTransactionRef(m);
            ids[txu[t]->GetHash()] = (int)t;
            fee[t] = all_known ? in - out : 0;
            sigops[t] = (int64_t)GetLegacySigOpCount(*txu[t]) * WITNESS_SCALE_FACTOR;   // no P2SH / witness inputs in the universe
            for (size_t i = 0; i < T["outs"].size(); ++i) {
                ops[{(int)t, (int)i + 1}] = COutPoint(txu[t]->GetHash(), i);
                outs[{(int)t, (int)i + 1}] = txu[t]->vout[i];
            }
        }
    }
    int IdOf(const Txid& h) { auto it = ids.find(h); return it == ids.end() ? -1 : it->second; }

    // ---- observed state
    std::set<int> PoolIds()
    {
        std::set<int> s;
        LOCK(mp().cs);
        for (const auto& e : mp().entryAll()) s.insert(IdOf(e.get().GetTx().GetHash()));
        return s;
    }
    std::map<int, int64_t> Deltas()
    {
        std::map<int, int64_t> dl;
        for (const auto& d : mp().GetPrioritisedTransactions()) { const int t = IdOf(d.txid); if (d.delta != 0) dl[t] = d.delta; }
        return dl;
    }
    UniValue DeltaArr(const std::map<int, int64_t>& dl)
    {
        UniValue a(UniValue::VARR);
        for (size_t t = 1; t < txu.size(); ++t) { auto it = dl.find((int)t); a.push_back(it == dl.end() ? (int64_t)0 : it->second); }
        return a;
    }

    std::shared_ptr<CBlock> MakeBlock(const Blk& parent, const UniValue& list, int64_t dt)
    {
        ChainSim::BlockSpec s; s.prev = parent.hash; s.height = parent.height + 1; s.time = parent.time + dt; s.extra_nonce = ++nblocks;
        for (size_t i = 0; i < list.size(); ++i) s.txs.push_back(txu.at(list[i].getInt<int>()));
        s.cb_value = 0;
        return sim->BuildBlock(s);
    }
    void Inject(int t)
    {
        TestMemPoolEntryHelper entry;
        bool spends_cb = false;
        for (const auto& in : txu.at(t)->vin) { auto c = sim->GetCoin(in.prevout); if (c && c->IsCoinBase()) spends_cb = true; }
        TryAddToMempool(mp(), entry.Fee(fee.at(t)).Time(Now<NodeSeconds>()).Height(chain.back().height).SpendsCoinbase(spends_cb).SigOpsCost(sigops.at(t)).FromTx(txu.at(t)));
    }
    // brings the mempool back to (pool, deltas) after a template block was connected and invalidated again
    bool Restore(const std::set<int>& want, const std::map<int, int64_t>& want_dl)
    {
        for (int round = 0; round < 20; ++round) {
            const std::set<int> have = PoolIds();
            if (have == want) break;
            bool progress = false;
            for (int t : want) {
                if (have.count(t)) continue;
                bool ready = true;
                for (const auto& in : txu.at(t)->vin) {
                    if (sim->GetCoin(in.prevout)) continue;
                    const int p = IdOf(in.prevout.hash);
                    if (p < 0 || !PoolIds().count(p)) { ready = false; break; }
                }
                if (ready) { Inject(t); progress = true; }
            }
            if (!progress) break;
        }
        const std::map<int, int64_t> dl = Deltas();
        std::set<int> keys; for (auto& [t, d] : dl) keys.insert(t); for (auto& [t, d] : want_dl) keys.insert(t);
        for (int t : keys) {
            const int64_t a = dl.count(t) ? dl.at(t) : 0, b = want_dl.count(t) ? want_dl.at(t) : 0;
            if (a != b && t >= 1) mp().PrioritiseTransaction(txu.at(t)->GetHash(), b - a);
        }
        return PoolIds() == want && Deltas() == want_dl;
    }

    static node::BlockCreateOptions OptionsOf(const UniValue& o)
    {
        node::BlockCreateOptions c;
        c.block_max_weight = (uint64_t)o["maxw"].getInt<int64_t>();
        c.block_reserved_weight = (uint64_t)o["resw"].getInt<int64_t>();
        c.block_min_fee_rate = CFeeRate(FeePerVSize{FromW(o["minf"]), o["mins"].getInt<int32_t>()});
        c.coinbase_output_max_additional_sigops = (size_t)o["cbsig"].getInt<int64_t>();
        c.print_modified_fee = false;
        c.test_block_validity = false;
        return c;
    }

    void Templates(const UniValue& rows)
    {
        std::map<std::string, std::pair<std::string, std::string>> verdict_of;   // tx list -> (tbv, pnb) already established in this state
        for (size_t r = 0; r < rows.size() && !dirty; ++r) {
            const UniValue& o = rows[r]["o"];
            const std::set<int> pool0 = PoolIds();
            const std::map<int, int64_t> dl0 = Deltas();
            UniValue line = Obj({{"kind", "trace"}, {"test", (int64_t)R().cur_test}, {"step", (int64_t)R().cur_step}, {"row", (int)r}, {"o", o}, {"pool", SortedIntArr(pool0)}, {"delta", DeltaArr(dl0)}, {"chain", chain_log},
                                 {"predicted", rows[r]["txs"]}, {"pred_ok", rows[r]["ok"]}});
            std::unique_ptr<interfaces::BlockTemplate> bt;
            std::unique_ptr<node::CBlockTemplate> raw;
            std::string refused;
            try {
                bt = mining->createNewBlock(OptionsOf(o), /*cooldown=*/false);
                raw = node::BlockAssembler{sim->cm().ActiveChainstate(), &mp(), node::MergeMiningOptions(OptionsOf(o), sim->m_node.mining_args)}.CreateNewBlock();
            } catch (const std::runtime_error& e) { refused = e.what(); }
            if (!bt || !raw) {
                line.pushKV("refused", refused.empty() ? std::string("no template") : refused);
                Emit(line); R().Count("refused");
                continue;
            }
            CBlock block = bt->getBlock();
            const std::vector<CAmount> fees = bt->getTxFees();
            const std::vector<int64_t> sops = bt->getTxSigops();
            const node::CoinbaseTx cbt = bt->getCoinbaseTx();
            UniValue txs(UniValue::VARR), fa(UniValue::VARR), sa(UniValue::VARR), pk(UniValue::VARR);
            std::string key;
            for (size_t i = 1; i < block.vtx.size(); ++i) { const int t = IdOf(block.vtx[i]->GetHash()); txs.push_back(t); key += std::to_string(t) + ","; }
            for (CAmount f : fees) fa.push_back(W(f));
            for (int64_t s : sops) sa.push_back(s);
            // the package feerates are only exposed by the assembler's own result: usable if it built the same block
            bool same = raw->block.vtx.size() == block.vtx.size();
            for (size_t i = 1; same && i < block.vtx.size(); ++i) same = raw->block.vtx[i]->GetHash() == block.vtx[i]->GetHash();
            if (same) for (const auto& p : raw->m_package_feerates) pk.push_back(Obj({{"f", W(p.fee)}, {"s", (int64_t)p.size}}));
            const CAmount cbv = block.vtx[0]->GetValueOut();
            // what the coinbase pays and what the template tells mining clients it pays, exactly
            UniValue tpl = Obj({{"txs", txs}, {"fees", fa}, {"sigops", sa}, {"pkgs", pk}, {"cb", W(cbv)}, {"rw", W(cbt.block_reward_remaining)},
                                {"height", (int64_t)cbt.lock_time + 1}});
            line.pushKV("tpl", tpl);
            line.pushKV("haspk", same);
            line.pushKV("reward_matches", cbt.block_reward_remaining == cbv);
            line.pushKV("prev_is_tip", block.hashPrevBlock == chain.back().hash);
            line.pushKV("weight", (int64_t)GetBlockWeight(block));
            // ---- the node's own validation: TestBlockValidity on the template, ProcessNewBlock on the mined block
            std::string tbv, pnb;
            auto it = verdict_of.find(key);
            if (it != verdict_of.end()) { tbv = it->second.first; pnb = it->second.second; R().Count("verdict_shared"); }
            else {
                {
                    LOCK(cs_main);
                    BlockValidationState st = TestBlockValidity(sim->cm().ActiveChainstate(), block, /*check_pow=*/false, /*check_merkle_root=*/false);
                    tbv = st.IsValid() ? "ok" : st.GetRejectReason();
                }
                // mine it: a coinbase of our own making on the template's prefix (extra nonce: never the same block twice), merkle root, nonce
                CMutableTransaction cb(*block.vtx[0]);
                cb.vin[0].scriptSig = CScript(cbt.script_sig_prefix) << CScriptNum(++extra) << OP_0;
                block.vtx[0] = MakeTransactionRef(cb);
                block.hashMerkleRoot = BlockMerkleRoot(block);
                sim->Solve(block);
                auto pb = std::make_shared<const CBlock>(block);
                sim->SubmitBlock(pb, true);
                const std::string why = sim->Reason(pb->GetHash());
                if (!why.empty()) pnb = why;
                else if (sim->Tip()->GetBlockHash() != pb->GetHash()) pnb = "not-connected";
                else {
                    pnb = "ok";
                    sim->Invalidate(pb->GetHash());
                    if (sim->Tip()->GetBlockHash() != chain.back().hash) throw std::runtime_error("tip did not return to the parent after invalidating the template block");
                    if (!Restore(pool0, dl0)) { dirty = true; R().Count("restore_failed"); }
                    else R().Count("restored");
                }
                verdict_of[key] = {tbv, pnb};
                R().Count("blocks_submitted");
            }
            line.pushKV("tbv", tbv); line.pushKV("pnb", pnb);
            Emit(line); R().Count("templates");
        }
    }

    void Apply(const UniValue& a)
    {
        const std::string op = a[0].get_str();
        if (op == "submit") {
            const int t = a[1].getInt<int>();
            const MempoolAcceptResult res = WITH_LOCK(cs_main, return sim->cm().ProcessTransaction(txu.at(t), false));
            const bool ok = res.m_result_type == MempoolAcceptResult::ResultType::VALID;
            R().Count(ok ? "submit_ok" : "submit_rejected");
            if (a.size() > 2 && a[2].get_bool() != ok) R().Count("submit_differs_from_model");
        } else if (op == "inject") {
            Inject(a[1].getInt<int>()); R().Count("injected");
        } else if (op == "prio") {
            mp().PrioritiseTransaction(txu.at(a[1].getInt<int>())->GetHash(), a[2].getInt<int64_t>());
        } else if (op == "mine") {
            auto b = MakeBlock(chain.back(), a[1], a[2].getInt<int64_t>());
            sim->SubmitBlock(b, true);
            if (!sim->Reason(b->GetHash()).empty() || sim->Tip()->GetBlockHash() != b->GetHash()) throw std::runtime_error("mine: block not connected: " + sim->Reason(b->GetHash()));
            chain.push_back({b->GetHash(), chain.back().height + 1, (int64_t)b->nTime});
            chain_log.push_back(Obj({{"txs", a[1]}, {"dt", a[2]}}));
        } else if (op == "templates") {
            Templates(a[1]);
        } else throw std::runtime_error("unknown op " + op);
    }
};
} // namespace

int main(int argc, char** argv)
{
    if (argc < 4) { std::cerr << "usage: blocktemplate measure|replay <tests> <universe.json>\n"; return 2; }
    { std::ifstream f(argv[3]); std::stringstream ss; ss << f.rdbuf(); if (!g_uni.read(ss.str())) { std::cerr << "bad universe\n"; return 2; } }
    const std::string mode = argv[1];
    if (mode == "measure") {
        World w;
        for (size_t t = 1; t < w.txu.size(); ++t) {
            const int64_t weight = GetTransactionWeight(*w.txu[t]);
            Emit(Obj({{"fee", W(w.fee[t])}, {"vsize", (int64_t)GetVirtualTransactionSize(weight, w.sigops[t], ::nBytesPerSigOp)},
                      {"weight", weight}, {"sigops", w.sigops[t]}}));
        }
        return 0;
    }
    if (mode == "replay") {
        InstallAbortHandlers();
        ForEachLine(argv[2], [&](size_t n, const UniValue& t) {
            R().cur_test = n; R().cur_step = 0; R().cur_action = UniValue::VNULL;
            auto w = std::make_unique<World>();
            const UniValue& st = t["steps"];
            for (size_t i = 0; i < st.size() && !w->dirty; ++i) {
                R().cur_step = i;
                // the action of a "templates" step is long (all option rows): keep the abort line short
                R().cur_action = st[i]["a"][0].get_str() == "templates" ? Arr({UniValue("templates")}) : st[i]["a"];
                try { w->Apply(st[i]["a"]); }
                catch (const std::exception& e) { R().Mismatch(R().cur_action, std::string("exception: ") + e.what()); break; }
                ++R().steps;
            }
            ++R().tests;
        });
        R().Summary();
        return 0;
    }
    return 2;
}
