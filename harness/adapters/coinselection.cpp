// Adapter for specs/CoinSelection (C40): each row of the TLC-enumerated table is one call
//   algorithm(pool of output groups, target, parameters, max_selection_weight).
// The pool is built from real COutput / OutputGroup objects exactly as the row describes them, the real algorithm
// (SelectCoinsBnB / CoinGrinder / SelectCoinsSRD / KnapsackSolver) is run (several input orders / RNG seeds), and its answer
// is *looked up* in the row's verdict table `fs` (one entry per subset the specification admits, with the sums, the waste and
// the "optimal" flag computed by TLC). Nothing is decided here: a result that is not in the table, whose reported sums differ
// from the table's, or that claims a completed search without the table's optimal flag is a mismatch.
#include <vfh.h>
#include <consensus/amount.h>
#include <policy/feerate.h>
#include <primitives/transaction.h>
#include <random.h>
#include <uint256.h>
#include <util/result.h>
#include <util/translation.h>
#include <wallet/coinselection.h>

#include <map>
#include <numeric>

using namespace vfh;
using namespace wallet;

// Verification hook of the BITCOIN_VERIF build (src/wallet/coinselection.cpp): the attempt bound of SelectCoinsBnB and CoinGrinder
// (TOTAL_TRIES, 100000 in a normal build) is a variable, so that the bound can be made to hit at every position of a small search.
namespace wallet { extern size_t g_verif_total_tries; }
static constexpr size_t DEFAULT_TRIES = 100000;

static uint64_t g_seed = 1;
static int g_reps = 3;
static bool g_bounds = true;    // run the searches with every small attempt bound as well
static bool g_strict = false;   // replay mode: the known clone-skip pattern is reported as a mismatch as well
static int g_known_lines = 0;

static uint64_t Fnv(const std::string& s)
{
    uint64_t h = 1469598103934665603ULL;
    for (unsigned char c : s) { h ^= c; h *= 1099511628211ULL; }
    return h;
}

static uint256 SeedFor(uint64_t a, uint64_t b, uint64_t c)
{
    uint256 s;
    unsigned char* p = s.begin();
    for (int i = 0; i < 8; ++i) { p[i] = (a >> (8 * i)) & 0xff; p[8 + i] = (b >> (8 * i)) & 0xff; p[16 + i] = (c >> (8 * i)) & 0xff; }
    p[24] = 0x40;
    return s;
}

struct Pool {
    std::vector<OutputGroup> groups;                       // in model order (index i = bit i of the mask)
    std::map<COutPoint, std::pair<size_t, size_t>> where;  // outpoint -> (group, coin)
};

// Builds the offered groups; returns "" or why the construction does not realise the model's group attributes.
static std::string BuildPool(const UniValue& row, Pool& pool)
{
    const UniValue& g = row["g"];
    const int64_t lt = I(row["lt"]);
    const bool sffo = B(row["sf"]);
    static uint32_t next_locktime = 1;
    for (size_t i = 0; i < g.size(); ++i) {
        OutputGroup group;
        group.m_long_term_feerate = CFeeRate(lt * 1000);
        group.m_subtract_fee_outputs = sffo;
        const UniValue& coins = g[i]["c"];
        for (size_t k = 0; k < coins.size(); ++k) {
            const CAmount value = I(coins[k][0]), fee = I(coins[k][1]), bump = I(coins[k][3]);
            const int bytes = coins[k][2].getInt<int>();
            CMutableTransaction tx;
            tx.vout.resize(1);
            tx.vout[0].nValue = value;
            tx.nLockTime = next_locktime++;   // distinct txids
            auto out = std::make_shared<COutput>(COutPoint(tx.GetHash(), 0), tx.vout[0], /*depth=*/bump > 0 ? 0 : 1, /*input_bytes=*/bytes,
                                                 /*solvable=*/true, /*safe=*/true, /*time=*/0, /*from_me=*/false, /*fees=*/fee - bump);
            if (bump > 0) out->ApplyBumpFee(bump);
            pool.where[out->outpoint] = {i, k};
            group.Insert(out, /*ancestors=*/0, /*cluster_count=*/0);
        }
        const UniValue& a = g[i]["a"];   // amount, effective value, fee, long-term fee, weight, value
        if (group.GetSelectionAmount() != I(a[0]) || group.effective_value != I(a[1]) || group.fee != I(a[2]) || group.long_term_fee != I(a[3]) ||
            group.m_weight != I(a[4]) || group.m_value != I(a[5])) {
            return strprintf("group %d: OutputGroup has amount=%d eff=%d fee=%d ltfee=%d weight=%d value=%d, the specification assumes %s", i,
                             group.GetSelectionAmount(), group.effective_value, group.fee, group.long_term_fee, group.m_weight, group.m_value, a.write());
        }
        pool.groups.push_back(std::move(group));
    }
    return "";
}

static const UniValue* Lookup(const UniValue& fs, int64_t mask)
{
    for (size_t i = 0; i < fs.size(); ++i) if (I(fs[i][0]) == mask) return &fs[i];
    return nullptr;
}

static std::string CheckRow(const UniValue& row)
{
    const std::string al = row["al"].get_str();
    const CAmount target = I(row["t"]), coc = I(row["coc"]), ct = I(row["ct"]), cf = I(row["cf"]), mvc = I(row["mvc"]);
    const int maxw = row["mw"].getInt<int>();
    const UniValue& fs = row["fs"];
    Pool pool;
    if (std::string why = BuildPool(row, pool); !why.empty()) return why;
    const size_t n = pool.groups.size();
    const uint64_t rowh = Fnv(row.write());
    R().Count("calls_" + al, 0);
    // vacuity counters (facts about the table, not verdicts)
    R().Count("rows_" + al);
    R().Count(std::string(fs.size() ? "rows_feasible_" : "rows_infeasible_") + al);
    if (fs.size() > 1) R().Count("rows_choice_" + al);
    for (size_t i = 0; i < fs.size(); ++i) if (!fs[i][7].get_bool()) { R().Count("rows_with_nonoptimal_admitted_" + al); break; }

    // The two searches are additionally run with every attempt bound 1 .. 2^(n+1) + 1 (beyond the size of the whole search tree): whatever
    // the position at which the bound cuts the search, the result must be admitted, and a result that claims a completed search optimal.
    const bool search = al == "bnb" || al == "cg";
    const int bounded_runs = search && g_bounds ? (1 << (n + 1)) + 1 : 0;
    bool known_row = false;
    struct Restore { ~Restore() { wallet::g_verif_total_tries = DEFAULT_TRIES; } } restore;
    for (int run = 0; run < g_reps + bounded_runs; ++run) {
        const size_t bound = run < g_reps ? DEFAULT_TRIES : size_t(run - g_reps + 1);
        const int rep = run < g_reps ? run : (run - g_reps) % g_reps;
        wallet::g_verif_total_tries = bound;
        FastRandomContext rng(SeedFor(g_seed, rowh, rep));
        // the offered vector in a seeded order (the algorithms sort / shuffle it themselves; ties are broken by input order)
        std::vector<OutputGroup> offered(pool.groups);
        if (rep > 0) std::shuffle(offered.begin(), offered.end(), rng);
        if (al != "bnb" && al != "cg" && al != "srd" && al != "knap") return "unknown algorithm " + al;
        util::Result<SelectionResult> res{al == "bnb" ? SelectCoinsBnB(offered, target, coc, maxw) :
                                          al == "cg"  ? CoinGrinder(offered, target, ct, maxw) :
                                          al == "srd" ? SelectCoinsSRD(offered, target, cf, rng, maxw) :
                                                        KnapsackSolver(offered, target, ct, rng, maxw)};
        R().Count("calls_" + al);
        // The specification's model of the search as coded (row["run"]: best selection after each attempt of the unbounded search): with bound T
        // the real search must stop after min(T, F) attempts, report completion iff T > F, and hold the best of that attempt. A difference
        // is a *deviation* (the property does not fix attempt counts or intermediate results); the verdicts below stay relation-based.
        const bool model = search && row.exists("run") && row["det"].get_bool();
        const UniValue* snap = nullptr;
        size_t exp_tries = 0; bool exp_completed = false;
        if (model) {
            const size_t F = row["run"].size();
            exp_tries = std::min(bound, F); exp_completed = bound > F;
            if (exp_tries > 0) snap = &row["run"][exp_tries - 1];
            const bool exp_fail = !snap || (I((*snap)[0]) == 0 && I((*snap)[1]) == 0);
            R().Count("as_coded_compared_" + al);
            if (exp_fail != !res) R().Deviation(row["p"], strprintf("%s with attempt bound %d: the model of the search as coded %s, the implementation %s", al, bound, exp_fail ? "finds nothing" : "has a selection", res ? "returns one" : "fails"), UniValue((uint64_t)bound));
        }
        const std::string tag = bound == DEFAULT_TRIES ? strprintf(" [%s rep %d]", al, rep) : strprintf(" [%s rep %d, attempt bound %d]", al, rep, bound);
        if (bound != DEFAULT_TRIES) {
            R().Count("bounded_calls_" + al);
            if (!res) { R().Count("bounded_fail_" + al); continue; }      // cut short before anything was found: failure as coded
        }
        if (!res) {
            if (fs.size() == 0) { R().Count("fail_none_feasible_" + al); continue; }
            R().Count("fail_but_feasible_" + al);
            // The heuristics may miss solutions. CoinGrinder enumerates the whole (here tiny) search space: reporting failure while an
            // admitted subset exists means its completed search overlooked a strictly better candidate than "nothing".
            if (al == "cg") return "CoinGrinder reports failure although the specification admits " + fs[0].write() + tag;
            continue;
        }
        SelectionResult& r = *res;
        // which offered coins were returned
        std::vector<size_t> per_group(n, 0);
        for (const auto& coin : r.GetInputSet()) {
            auto it = pool.where.find(coin->outpoint);
            if (it == pool.where.end()) return "result contains a coin that was not offered: " + coin->outpoint.ToString() + tag;
            ++per_group[it->second.first];
        }
        int64_t mask = 0;
        for (size_t i = 0; i < n; ++i) {
            if (per_group[i] == 0) continue;
            if (per_group[i] != pool.groups[i].m_outputs.size()) return strprintf("result contains only part of offered group %d", i) + tag;
            mask |= int64_t{1} << i;
        }
        const UniValue* e = Lookup(fs, mask);
        if (!e) {
            CAmount amount = 0;   // diagnostics only
            for (size_t i = 0; i < n; ++i) if ((mask >> i) & 1) amount += pool.groups[i].GetSelectionAmount();
            return strprintf("result (groups mask %d: amount %d, effective value %d, weight %d) is not admitted by the specification for target %d, max weight %d",
                             mask, amount, r.GetSelectedEffectiveValue(), r.GetWeight(), target, maxw) + tag;
        }
        // <<mask, amount, effective value, value, weight, waste after RecalculateWaste, objective, optimal?, optimal-pc?>>
        const UniValue& x = *e;
        if (r.GetSelectedEffectiveValue() != I(x[2])) return strprintf("GetSelectedEffectiveValue() = %d, the selected groups have %d", r.GetSelectedEffectiveValue(), I(x[2])) + tag;
        if (r.GetSelectedValue() != I(x[3])) return strprintf("GetSelectedValue() = %d, the selected groups have %d", r.GetSelectedValue(), I(x[3])) + tag;
        // a group added twice shows up as a weight that is not the weight of the selected set
        if (r.GetWeight() != I(x[4])) return strprintf("GetWeight() = %d, the selected groups weigh %d", r.GetWeight(), I(x[4])) + tag;
        if (r.GetTarget() != target) return "GetTarget() differs from the requested target" + tag;
        r.RecalculateWaste(mvc, coc, cf);
        if (r.GetWaste() != I(x[5])) return strprintf("GetWaste() = %d, the specification computes %d for the selected groups", r.GetWaste(), I(x[5])) + tag;
        R().Count("success_" + al);
        if (model && snap) {
            const CAmount amount = B(row["sf"]) ? r.GetSelectedValue() : r.GetSelectedEffectiveValue();
            if (r.GetAlgoCompleted() != exp_completed || r.GetSelectionsEvaluated() != exp_tries || r.GetWeight() != I((*snap)[0]) || amount != I((*snap)[1])) {
                R().Deviation(row["p"], strprintf("%s with attempt bound %d: completed=%d after %d attempts with weight %d amount %d; the model of the search as coded: completed=%d after %d attempts, weight %d amount %d",
                                                  al, bound, (int)r.GetAlgoCompleted(), r.GetSelectionsEvaluated(), r.GetWeight(), amount, (int)exp_completed, exp_tries, I((*snap)[0]), I((*snap)[1])), UniValue((uint64_t)bound));
            }
        }
        if (bound != DEFAULT_TRIES) {
            if (r.GetSelectionsEvaluated() > bound) return strprintf("%d selections evaluated with an attempt bound of %d", r.GetSelectionsEvaluated(), bound) + tag;
            R().Count(std::string(r.GetAlgoCompleted() ? "bounded_completed_" : "bounded_cut_short_with_result_") + al);
        }
        if (al == "bnb" || al == "cg") {
            if (r.GetAlgoCompleted()) {
                R().Count("completed_" + al);
                if (!x[7].get_bool()) {
                    // x[8]: optimal among the prefix-closed subsets (see Table in CoinSelection.tla) - classifies the violation only
                    const bool cloneskip = al == "bnb" && x[8].get_bool();
                    const std::string why = strprintf("%s%s reports a completed search but its result (mask %d, objective %d) is not optimal: a feasible subset with a strictly lower %s exists",
                                                      cloneskip ? "[bnb-cloneskip-weightcap] " : "", al, mask, I(x[6]), al == "bnb" ? "waste" : "weight") + tag;
                    if (!cloneskip || g_strict) return why;
                    // Classified pattern: counted and handed to the driver separately (it decides known finding / violation), so
                    // that thousands of instances cannot crowd other mismatches out of the report.
                    if (!known_row) {   // one instance per row
                        known_row = true;
                        R().Count("known_bnb_cloneskip");
                        if (g_known_lines++ < 5) R().Info(Obj({{"kind", "known_pattern"}, {"test", (uint64_t)R().cur_test}, {"why", why}, {"row", row}}));
                    }
                    continue;
                }
            } else R().Count("not_completed_" + al);
        }
    }
    return "";
}

int main(int argc, char** argv)
{
    if (argc < 3) return 2;
    if (argc > 3) g_seed = std::strtoull(argv[3], nullptr, 10);
    if (argc > 4) g_reps = std::atoi(argv[4]);
    if (argc > 5) g_strict = std::string(argv[5]) == "strict";
    if (argc > 6) g_bounds = std::string(argv[6]) != "nobounds";
    if (std::string(argv[1]) == "table") return TableMain(argv[2], CheckRow);
    return 2;
}
