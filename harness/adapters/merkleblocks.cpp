// Adapter for specs/Merkle/MutatedBlocks.tla (C04 part (b)): replays model paths on a real in-process regtest node.
// Genuine blocks carry real transactions (legacy spends of OP_TRUE coinbases, P2WSH(OP_TRUE) witness spends, a BIP141 commitment);
// every variant is a copy of the genuine block -- same header, same hash, same proof of work -- with a changed body.
// Each delivery goes through IsBlockMutated (what net_processing asks first) and ChainstateManager::ProcessNewBlock.
#include <chainsim.h>
#include <blockencodings.h>
#include <crypto/sha256.h>
using namespace vfh;

namespace {
constexpr int N_LEGACY = 24, N_WIT = 12, BASE_HEIGHT = N_LEGACY + N_WIT + 100;

const CScript WITNESS_SCRIPT = CScript() << OP_TRUE;
CScript P2WSHTrue()
{
    unsigned char h[32];
    CSHA256().Write(WITNESS_SCRIPT.data(), WITNESS_SCRIPT.size()).Finalize(h);
    return CScript() << OP_0 << std::vector<unsigned char>(h, h + 32);
}

struct Gen {
    std::shared_ptr<CBlock> genuine;
    std::map<std::string, std::shared_ptr<CBlock>> variants;
    uint256 hash; int height{0}; uint32_t time{0};
};

std::string Verdict(const BlockValidationState& st)
{
    if (!st.IsInvalid()) return st.IsError() ? "error" : "ok";
    switch (st.GetResult()) {
    case BlockValidationResult::BLOCK_MUTATED: return "mutated";
    case BlockValidationResult::BLOCK_MISSING_PREV: return "missing-prev";
    case BlockValidationResult::BLOCK_CACHED_INVALID: return "cached-invalid";
    case BlockValidationResult::BLOCK_INVALID_PREV: return "invalid-prev";
    case BlockValidationResult::BLOCK_CONSENSUS: return "consensus";
    default: return "other";
    }
}

// Everything that does not depend on the node is built once per process and world: base chain, genuine blocks, variants.
struct Prepared {
    std::vector<std::shared_ptr<CBlock>> base;
    std::vector<Gen> gens;            // index = model id; [0] = tip of the base chain
    std::map<uint256, int> ids;
};

CTransactionRef Spend(const CTransactionRef& fund, bool witness)
{
    CMutableTransaction tx;
    tx.vin.resize(1); tx.vin[0].prevout = COutPoint(fund->GetHash(), 0);
    tx.vout.resize(1); tx.vout[0].nValue = fund->vout[0].nValue; tx.vout[0].scriptPubKey = CScript() << OP_TRUE;
    if (witness) tx.vin[0].scriptWitness.stack = {std::vector<unsigned char>(WITNESS_SCRIPT.begin(), WITNESS_SCRIPT.end())};
    return MakeTransactionRef(tx);
}
void SetTx(CBlock& b, size_t i, const CMutableTransaction& m) { b.vtx.at(i) = MakeTransactionRef(m); }

std::shared_ptr<Prepared> Prepare(ChainSim& sim, const UniValue& world)
{
    static std::map<std::string, std::shared_ptr<Prepared>> cache;
    auto& slot = cache[world.write()];
    if (slot) return slot;
    auto P = std::make_shared<Prepared>();
    std::vector<CTransactionRef> legacy_funds, wit_funds;
    // base chain: coinbases to spend later, then 100 blocks so that all of them are mature
    uint256 prev = Params().GenesisBlock().GetHash(); uint32_t t = Params().GenesisBlock().nTime;
    for (int h = 1; h <= BASE_HEIGHT; ++h) {
        ChainSim::BlockSpec s; s.prev = prev; s.height = h; s.time = ++t;
        s.cb_value = GetBlockSubsidy(h, sim.consensus());
        s.cb_spk = h <= N_LEGACY ? (CScript() << OP_TRUE) : h <= N_LEGACY + N_WIT ? P2WSHTrue() : (CScript() << OP_TRUE);
        auto b = sim.BuildBlock(s);
        prev = b->GetHash();
        if (h <= N_LEGACY) legacy_funds.push_back(b->vtx[0]); else if (h <= N_LEGACY + N_WIT) wit_funds.push_back(b->vtx[0]);
        P->base.push_back(b);
    }
    Gen g0; g0.hash = prev; g0.height = BASE_HEIGHT; g0.time = t;
    P->gens.push_back(g0); P->ids[g0.hash] = 0;
    const UniValue& par = world["parent"];
    const UniValue& con = world["content"];
    for (size_t i = 0; i < par.size(); ++i) {
        const int id = i + 1;
        const std::string content = con[i].get_str();
        const Gen& p = P->gens.at(par[i].getInt<int>());
        ChainSim::BlockSpec s; s.prev = p.hash; s.height = p.height + 1; s.time = p.time + 1; s.extra_nonce = id; s.cb_value = 0;
        s.cb_spk = CScript() << OP_TRUE;
        const bool wit = content == "wit3";
        const int ntx = content == "plain6" ? 5 : 2;
        for (int k = 0; k < ntx; ++k) s.txs.push_back(wit ? Spend(wit_funds.at((id - 1) * 2 + k), true) : Spend(legacy_funds.at((id - 1) * 5 + k), false));
        s.witness_commitment = wit;
        if (content == "inv3") s.cb_height = s.height + 1;
        Gen g; g.genuine = sim.BuildBlock(s); g.hash = g.genuine->GetHash(); g.height = s.height; g.time = s.time;
        auto variant = [&](const std::string& kind, const std::function<void(CBlock&)>& edit) {
            auto v = std::make_shared<CBlock>(*g.genuine);       // header (merkle root, nonce) untouched
            edit(*v);
            if (v->GetHash() != g.hash) throw std::runtime_error("variant changed the block hash");
            g.variants[kind] = v;
        };
        const size_t n = g.genuine->vtx.size();
        variant("dup", [&](CBlock& b) { if (n == 6) { b.vtx.push_back(b.vtx[4]); b.vtx.push_back(b.vtx[5]); } else b.vtx.push_back(b.vtx[n - 1]); });
        variant("txdrop", [&](CBlock& b) { b.vtx.pop_back(); });
        variant("txswap", [&](CBlock& b) { std::swap(b.vtx[n - 1], b.vtx[n - 2]); });
        if (wit) {
            variant("witstrip", [&](CBlock& b) { CMutableTransaction m(*b.vtx[1]); m.vin[0].scriptWitness.SetNull(); SetTx(b, 1, m); });
            variant("witalter", [&](CBlock& b) { CMutableTransaction m(*b.vtx[1]); auto& st = m.vin[0].scriptWitness.stack; st.insert(st.begin(), std::vector<unsigned char>{0x01}); SetTx(b, 1, m); });
            variant("stuffed", [&](CBlock& b) { CMutableTransaction m(*b.vtx[2]); auto& st = m.vin[0].scriptWitness.stack; st.insert(st.begin(), std::vector<unsigned char>(MAX_BLOCK_WEIGHT, 0x00)); SetTx(b, 2, m); });
            variant("nonce31", [&](CBlock& b) { CMutableTransaction m(*b.vtx[0]); m.vin[0].scriptWitness.stack.at(0).resize(31); SetTx(b, 0, m); });
        } else {
            variant("witadd", [&](CBlock& b) { CMutableTransaction m(*b.vtx[1]); m.vin[0].scriptWitness.stack = {std::vector<unsigned char>{0x01}}; SetTx(b, 1, m); });
        }
        // sanity of the construction (infrastructure): merkle kinds keep the txid root or not as intended
        if (BlockMerkleRoot(*g.variants["dup"]) != g.genuine->hashMerkleRoot) throw std::runtime_error("dup variant does not keep the merkle root");
        if (BlockMerkleRoot(*g.variants["txdrop"]) == g.genuine->hashMerkleRoot) throw std::runtime_error("txdrop variant keeps the merkle root");
        for (auto& [k, v] : g.variants) if (k != "dup" && k != "txdrop" && k != "txswap" && BlockMerkleRoot(*v) != g.genuine->hashMerkleRoot) throw std::runtime_error("witness variant changes the merkle root");
        P->ids[g.hash] = id;
        P->gens.push_back(std::move(g));
    }
    slot = P;
    return P;
}

struct World {
    std::unique_ptr<ChainSim> sim;
    std::shared_ptr<Prepared> P;
    std::vector<Gen>& gens;
    std::map<uint256, int>& ids;

    explicit World(const UniValue& init) : sim(MakeSim()), P(Prepare(*sim, init["world"])), gens(P->gens), ids(P->ids)
    {
        for (const auto& b : P->base) {
            bool nb{false};
            if (!sim->cm().ProcessNewBlock(b, true, true, &nb) || sim->Tip()->GetBlockHash() != b->GetHash()) throw std::runtime_error("base block not connected");
        }
    }

    // BIP152: a peer announces the delivered body as a compact block (coinbase prefilled); our mempool is empty, so every other
    // transaction is requested and supplied from that body
    std::string Compact(const CBlock& body)
    {
        CBlockHeaderAndShortTxIDs announced{body, /*nonce=*/0x1122334455667788ULL};
        DataStream ss{}; ss << announced;
        CBlockHeaderAndShortTxIDs received; ss >> received;
        PartiallyDownloadedBlock pdb(sim->m_node.mempool.get());
        ReadStatus st = pdb.InitData(received, {});
        CBlock out;
        if (st == READ_STATUS_OK) {
            std::vector<CTransactionRef> missing(body.vtx.begin() + 1, body.vtx.end());
            st = pdb.FillBlock(out, missing, /*segwit_active=*/true);
            if (st == READ_STATUS_OK && (out.GetHash() != body.GetHash() || out.vtx.size() != body.vtx.size())) return "wrong-block";
        }
        return st == READ_STATUS_OK ? "ok" : st == READ_STATUS_FAILED ? "failed" : "invalid";
    }

    UniValue Deliver(const std::shared_ptr<CBlock>& tmpl)
    {
        // every delivery is a fresh object, as if deserialised from the wire (CBlock caches check results in mutable members)
        CBlock probe(*tmpl);
        const bool ismut = IsBlockMutated(probe, /*check_witness_root=*/true);
        auto blk = std::make_shared<CBlock>(*tmpl);
        auto [ret, nb] = sim->SubmitBlock(blk, /*requested=*/true);
        auto it = sim->verdicts->checked.find(blk->GetHash());
        const std::string verdict = it == sim->verdicts->checked.end() ? "ok" : Verdict(it->second);
        return Obj({{"ret", ret}, {"new", nb}, {"verdict", verdict}, {"ismut", ismut}, {"cmpct", Compact(*tmpl)}});
    }

    UniValue Apply(const UniValue& a)
    {
        const std::string op = a[0].get_str();
        Gen& g = gens.at(a[1].getInt<int>());
        if (op == "header") {
            BlockValidationState st;
            const bool ok = sim->SubmitHeader(static_cast<const CBlockHeader&>(*g.genuine), st);
            return Obj({{"ret", ok}, {"new", false}, {"verdict", Verdict(st)}, {"ismut", false}, {"cmpct", "ok"}});
        }
        if (op == "genuine") return Deliver(g.genuine);
        if (op == "mutated") return Deliver(g.variants.at(a[2].get_str()));
        throw std::runtime_error("unknown op " + op);
    }

    UniValue Project()
    {
        LOCK(cs_main);
        auto& cm = sim->cm();
        auto t = ids.find(cm.ActiveChain().Tip()->GetBlockHash());
        std::set<int> hdr, data, failed;
        for (size_t i = 0; i < gens.size(); ++i) {
            const CBlockIndex* pi = cm.m_blockman.LookupBlockIndex(gens[i].hash);
            if (!pi) continue;
            hdr.insert(i);
            if (pi->nStatus & BLOCK_HAVE_DATA) data.insert(i);
            if (pi->nStatus & BLOCK_FAILED_VALID) failed.insert(i);
        }
        UniValue obs = Obj({{"hdr", SortedIntArr(hdr)}, {"data", SortedIntArr(data)}, {"failed", SortedIntArr(failed)}, {"tip", t == ids.end() ? -1 : t->second}});
        return Obj({{"obs", obs}});
    }
};
} // namespace

int main(int argc, char** argv)
{
    if (argc < 3) return 2;
    if (std::string(argv[1]) == "replay") {
        return ReplayMain<World>(argv[2],
            [&](const UniValue& init) { return std::make_unique<World>(init); },
            [](World& w, const UniValue& a) { return w.Apply(a); },
            [](World& w) { return w.Project(); },
            /*internal_keys=*/{"obs", "@result"});
    }
    return 2;
}
