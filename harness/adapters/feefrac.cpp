// Adapter for specs/FeeFrac (C30): every row of the TLC-generated oracle table is evaluated on the real operators of
// src/util/feefrac.h (ByRatio, ByRatioNegSize, Mul/MulFallback, Div/DivFallback, EvaluateFeeDown/Up), CompareChunks
// (src/util/feefrac.cpp) and CFeeRate (src/policy/feerate.h/.cpp).  Wide numbers arrive as plain JSON integers below 10^8
// and as {neg, m:[base-10^4 limbs, little endian]} beyond; they are rebuilt exactly in __int128.
#include <vfh.h>
#include <consensus/amount.h>
#include <policy/feerate.h>
#include <util/feefrac.h>
#include <compare>
#include <limits>
#include <span>
using namespace vfh;

namespace {
using i128 = __int128;

i128 Big(const UniValue& v)
{
    if (v.isNum()) return v.getInt<int64_t>();
    const UniValue& d = v["m"];
    i128 m = 0;
    for (size_t i = d.size(); i-- > 0;) m = m * 10000 + d[i].getInt<int>();
    return v["neg"].get_bool() ? -m : m;
}
std::string Str(i128 v)
{
    if (v == 0) return "0";
    const bool neg = v < 0;
    unsigned __int128 u = neg ? -(unsigned __int128)v : (unsigned __int128)v;
    std::string s;
    while (u) { s.insert(s.begin(), char('0' + (int)(u % 10))); u /= 10; }
    return neg ? "-" + s : s;
}
int64_t I64(const UniValue& v)
{
    const i128 x = Big(v);
    if (x > std::numeric_limits<int64_t>::max() || x < std::numeric_limits<int64_t>::min()) throw std::runtime_error("harness: value outside int64: " + Str(x));
    return (int64_t)x;
}
int32_t I32(const UniValue& v)
{
    const i128 x = Big(v);
    if (x > std::numeric_limits<int32_t>::max() || x < 0) throw std::runtime_error("harness: size outside 0..2^31-1: " + Str(x));
    return (int32_t)x;
}
FeeFrac FF(const UniValue& v) { return FeeFrac{I64(v["fee"]), I32(v["size"])}; }
std::string Show(const FeeFrac& f) { return "(" + std::to_string(f.fee) + "/" + std::to_string(f.size) + ")"; }
int Sg(std::strong_ordering o) { return o < 0 ? -1 : (o > 0 ? 1 : 0); }
i128 Val(const std::pair<int64_t, uint32_t>& p) { return (i128{p.first} << 32) + p.second; }
std::pair<int64_t, uint32_t> Split(i128 n) { return {(int64_t)(n >> 32), (uint32_t)(n & 0xffffffff)}; }

#define REQUIRE(cond, msg) do { if (!(cond)) return std::string(msg); } while (0)

// exact product through the native and the fallback multiplication
std::string CheckMul(int64_t a, int32_t b, i128 want)
{
    const i128 native = FeeFrac::Mul(a, b);
    if (native != want) return "Mul(" + std::to_string(a) + ", " + std::to_string(b) + ") = " + Str(native) + ", specification says " + Str(want);
    const i128 fb = Val(FeeFrac::MulFallback(a, b));
    if (fb != want) return "MulFallback(" + std::to_string(a) + ", " + std::to_string(b) + ") = " + Str(fb) + ", specification says " + Str(want);
    return "";
}

std::string CheckCmp(const UniValue& row)
{
    const FeeFrac a = FF(row["a"]), b = FF(row["b"]);
    const int ratio = row["ratio"].getInt<int>(), total = row["total"].getInt<int>();
    const std::string who = Show(a) + " vs " + Show(b) + ": ";
    if (auto s = CheckMul(a.fee, b.size, Big(row["ca"])); !s.empty()) return who + s;
    if (auto s = CheckMul(b.fee, a.size, Big(row["cb"])); !s.empty()) return who + s;
    // the cross products order like the exact integers, natively and through the fallback pair
    REQUIRE(Sg(FeeFrac::Mul(a.fee, b.size) <=> FeeFrac::Mul(b.fee, a.size)) == ratio, who + "Mul cross-product comparison differs from sign(fee_a*size_b - fee_b*size_a) = " + std::to_string(ratio));
    REQUIRE(Sg(FeeFrac::MulFallback(a.fee, b.size) <=> FeeFrac::MulFallback(b.fee, a.size)) == ratio, who + "MulFallback cross-product comparison differs from " + std::to_string(ratio));
    if (row["nonempty"].get_bool()) {
        const ByRatio ra{a}, rb{b};
        REQUIRE(Sg(ra <=> rb) == ratio, who + "ByRatio <=> gives " + std::to_string(Sg(ra <=> rb)) + ", specification says " + std::to_string(ratio));
        REQUIRE((ra == rb) == (ratio == 0), who + "ByRatio == differs from the exact feerate comparison");
        REQUIRE((ra < rb) == (ratio < 0), who + "ByRatio < differs from the exact feerate comparison");
        REQUIRE((ra > rb) == (ratio > 0), who + "ByRatio > differs from the exact feerate comparison");
        REQUIRE((ra <= rb) == (ratio <= 0), who + "ByRatio <= differs from the exact feerate comparison");
        REQUIRE((ra >= rb) == (ratio >= 0), who + "ByRatio >= differs from the exact feerate comparison");
        const FeePerWeight wa{FeePerWeight::FromFeeFrac(a)}, wb{FeePerWeight::FromFeeFrac(b)};
        REQUIRE(Sg(ByRatio{wa} <=> ByRatio{wb}) == ratio, who + "ByRatio<FeePerWeight> <=> differs from the exact feerate comparison");
        const CFeeRate fa{a.fee, a.size}, fb{b.fee, b.size};
        REQUIRE(Sg(fa <=> fb) == ratio, who + "CFeeRate <=> gives " + std::to_string(Sg(fa <=> fb)) + ", specification says " + std::to_string(ratio));
        REQUIRE((fa == fb) == (ratio == 0), who + "CFeeRate == differs from the exact feerate comparison");
        REQUIRE((fa < fb) == (ratio < 0) && (fa > fb) == (ratio > 0) && (fa <= fb) == (ratio <= 0) && (fa >= fb) == (ratio >= 0), who + "CFeeRate relational operators differ from the exact feerate comparison");
    }
    const ByRatioNegSize ta{a}, tb{b};
    REQUIRE(Sg(ta <=> tb) == total, who + "ByRatioNegSize <=> gives " + std::to_string(Sg(ta <=> tb)) + ", specification says " + std::to_string(total));
    REQUIRE((ta == tb) == row["same"].get_bool(), who + "ByRatioNegSize == differs from identity of fee and size");
    REQUIRE((ta < tb) == (total < 0) && (ta > tb) == (total > 0) && (ta <= tb) == (total <= 0) && (ta >= tb) == (total >= 0), who + "ByRatioNegSize relational operators differ from the specified total order");
    REQUIRE((a == b) == row["same"].get_bool(), who + "FeeFrac == differs from identity of fee and size");
    return "";
}

std::string CheckDivs(i128 n, int32_t d, int64_t down, int64_t up, const std::string& who)
{
    const int64_t nd = FeeFrac::Div(n, d, true), nu = FeeFrac::Div(n, d, false);
    if (nd != down) return who + "Div(" + Str(n) + ", " + std::to_string(d) + ", round down) = " + std::to_string(nd) + ", specification says " + std::to_string(down);
    if (nu != up) return who + "Div(" + Str(n) + ", " + std::to_string(d) + ", round up) = " + std::to_string(nu) + ", specification says " + std::to_string(up);
    const int64_t fd = FeeFrac::DivFallback(Split(n), d, true), fu = FeeFrac::DivFallback(Split(n), d, false);
    if (fd != down) return who + "DivFallback(" + Str(n) + ", " + std::to_string(d) + ", round down) = " + std::to_string(fd) + ", specification says " + std::to_string(down);
    if (fu != up) return who + "DivFallback(" + Str(n) + ", " + std::to_string(d) + ", round up) = " + std::to_string(fu) + ", specification says " + std::to_string(up);
    return "";
}

std::string CheckEval(const UniValue& row)
{
    const FeeFrac f = FF(row["f"]);
    const int32_t at = I32(row["at"]);
    const int64_t down = I64(row["down"]), up = I64(row["up"]);
    const std::string who = Show(f) + " at " + std::to_string(at) + ": ";
    if (auto s = CheckMul(f.fee, at, Big(row["prod"])); !s.empty()) return who + s;
    if (auto s = CheckDivs(FeeFrac::Mul(f.fee, at), f.size, down, up, who); !s.empty()) return s;
    REQUIRE(FeeFrac::DivFallback(FeeFrac::MulFallback(f.fee, at), f.size, true) == down, who + "DivFallback(MulFallback) rounding down differs from floor(fee*at_size/size) = " + std::to_string(down));
    REQUIRE(FeeFrac::DivFallback(FeeFrac::MulFallback(f.fee, at), f.size, false) == up, who + "DivFallback(MulFallback) rounding up differs from ceil(fee*at_size/size) = " + std::to_string(up));
    const int64_t ed = f.EvaluateFeeDown(at), eu = f.EvaluateFeeUp(at);
    REQUIRE(ed == down, who + "EvaluateFeeDown = " + std::to_string(ed) + ", specification says floor = " + std::to_string(down));
    REQUIRE(eu == up, who + "EvaluateFeeUp = " + std::to_string(eu) + ", specification says ceil = " + std::to_string(up));
    const FeePerVSize v{FeePerVSize::FromFeeFrac(f)};
    REQUIRE(v.EvaluateFeeDown(at) == down && v.EvaluateFeeUp(at) == up, who + "FeePerVSize evaluation differs from FeeFrac evaluation");
    return "";
}

std::string CheckDiv(const UniValue& row)
{
    const i128 n = Big(row["n"]);
    return CheckDivs(n, I32(row["d"]), I64(row["down"]), I64(row["up"]), "");
}

std::string CheckGetFee(const UniValue& row)
{
    const FeeFrac f = FF(row["f"]);
    const int32_t vb = I32(row["vbytes"]);
    const int64_t want = I64(row["fee"]);
    const std::string ctor = row["ctor"].get_str();
    if (ctor == "kvb") {
        const CFeeRate r{f.fee};            // satoshis per 1000 virtual bytes
        const CAmount have = r.GetFee(vb);
        REQUIRE(have == want, "CFeeRate(" + std::to_string(f.fee) + " per kvB).GetFee(" + std::to_string(vb) + ") = " + std::to_string(have) + ", specification says " + std::to_string(want) + " (rounded up)");
        return "";
    }
    const CFeeRate r{CAmount{f.fee}, f.size};
    const CAmount have = r.GetFee(vb);
    REQUIRE(have == want, "CFeeRate" + Show(f) + ".GetFee(" + std::to_string(vb) + ") = " + std::to_string(have) + ", specification says " + std::to_string(want) + " (rounded up)");
    const CFeeRate r2{FeePerVSize{f.fee, f.size}};
    REQUIRE(r2.GetFee(vb) == want, "CFeeRate(FeePerVSize" + Show(f) + ").GetFee(" + std::to_string(vb) + ") differs from " + std::to_string(want));
    return "";
}

std::string CheckChunks(const UniValue& row)
{
    std::vector<FeeFrac> c0, c1;
    for (size_t i = 0; i < row["c0"].size(); ++i) c0.push_back(FF(row["c0"][i]));
    for (size_t i = 0; i < row["c1"].size(); ++i) c1.push_back(FF(row["c1"][i]));
    const std::partial_ordering o = CompareChunks(c0, c1);
    const std::string have = o == std::partial_ordering::less ? "less" : o == std::partial_ordering::greater ? "greater" :
                             o == std::partial_ordering::equivalent ? "equivalent" : "unordered";
    REQUIRE(have == row["cmp"].get_str(), "CompareChunks = " + have + ", the diagram definition gives " + row["cmp"].get_str());
    return "";
}

std::string CheckRow(const UniValue& row)
{
    const std::string kind = row["kind"].get_str();
    R().Count("rows_" + kind);
    if (kind == "cmp") return CheckCmp(row);
    if (kind == "eval") return CheckEval(row);
    if (kind == "div") return CheckDiv(row);
    if (kind == "getfee") return CheckGetFee(row);
    if (kind == "chunks") return CheckChunks(row);
    return "harness: unknown row kind " + kind;
}
} // namespace

int main(int argc, char** argv)
{
    if (argc < 3) return 2;
    if (std::string(argv[1]) == "table") return TableMain(argv[2], CheckRow);
    return 2;
}
