// Adapter for specs/BlockRules (C06).
//   script <rows>  script-level rows of SigopRows.tla: the concrete bytes of (spent output script, scriptSig, witness, output
//                  script) are handed to CScript::GetSigOpCount, GetLegacySigOpCount, GetP2SHSigOpCount, CountWitnessSigOps and
//                  GetTransactionSigOpCost; "height" rows compare CScript() << h byte for byte.
//   block <rows>   block-level rows of BlockRules.tla: every row is built as a real block on an in-process regtest node
//                  (chainsim) whose chain holds one prepared coin for every (output script, ordinal) a row spends, and is
//                  judged by TestBlockValidity and by ProcessNewBlock. Compared: accept / reject. A different reject reason
//                  is only counted. Rows with "skip" are judged on a fresh node started with an assumed-valid block 2020 headers
//                  above the block under test, where ConnectBlock executes no script (the resource rules must not notice).
// Scripts arrive as token sequences (see specs/BlockRules/Sigops.tla); this file turns tokens into bytes and nothing else:
// no sigop is counted and no rule is evaluated here.
#include <chainsim.h>
#include <consensus/tx_check.h>
#include <consensus/tx_verify.h>
#include <crypto/sha256.h>
#include <hash.h>
#include <script/interpreter.h>
#include <script/signingprovider.h>
#include <addresstype.h>
#include <streams.h>
using namespace vfh;

namespace {
using Bytes = std::vector<unsigned char>;
// a row the harness cannot realise (never a verdict: reported as an infrastructure error by the driver)
struct HarnessError : std::runtime_error { using std::runtime_error::runtime_error; };

struct BuildCtx {
    CPubKey pubkey;
    size_t pad_base{0};      // bytes of the "PAD" token
    size_t pad_wit{0};       // bytes of the "pad" witness item
    uint64_t rowid{0};
};
BuildCtx g_bc;

const std::map<std::string, unsigned char> OPS{
    {"CS", OP_CHECKSIG}, {"CSV", OP_CHECKSIGVERIFY}, {"CMS", OP_CHECKMULTISIG}, {"CMSV", OP_CHECKMULTISIGVERIFY}, {"RET", OP_RETURN},
    {"NOP", OP_NOP}, {"OPIF", OP_IF}, {"OPENDIF", OP_ENDIF}, {"DROP", OP_DROP}, {"HASH160", OP_HASH160}, {"EQUAL", OP_EQUAL},
    {"NEG1", OP_1NEGATE}, {"RESERVED", OP_RESERVED}};

Bytes Ser(const UniValue& script);

struct Tap { CScript spk; Bytes control; };
Tap TapFor(const Bytes& leaf)
{
    TaprootBuilder b;
    b.Add(0, leaf, TAPROOT_LEAF_TAPSCRIPT);
    b.Finalize(XOnlyPubKey::NUMS_H);
    Tap t;
    t.spk = GetScriptForDestination(b.GetOutput());
    const auto sd = b.GetSpendData();
    t.control = *sd.scripts.at({leaf, TAPROOT_LEAF_TAPSCRIPT}).begin();
    return t;
}

Bytes Data(const UniValue& tok)
{
    const std::string how = tok["how"].get_str();
    if (how == "raw") return Ser(tok["d"]);
    if (how == "bytes") { Bytes b; for (size_t i = 0; i < tok["b"].size(); ++i) b.push_back((unsigned char)tok["b"][i].getInt<int>()); return b; }
    if (how == "h160") { const Bytes s = Ser(tok["d"]); const uint160 h = Hash160(s); return Bytes(h.begin(), h.end()); }
    if (how == "sha256") { const Bytes s = Ser(tok["d"]); Bytes h(32); CSHA256().Write(s.data(), s.size()).Finalize(h.data()); return h; }
    if (how == "keyhash") { const CKeyID id = g_bc.pubkey.GetID(); return Bytes(id.begin(), id.end()); }
    if (how == "taproot") { const Tap t = TapFor(Ser(tok["d"])); return Bytes(t.spk.begin() + 2, t.spk.end()); }
    if (how.rfind("fixed", 0) == 0) return Bytes(std::stoi(how.substr(5)), 0x42);
    if (how == "commit" || how == "badcommit") { Bytes b{0xaa, 0x21, 0xa9, 0xed}; b.resize(36, how == "commit" ? 0x00 : 0x01); return b; }   // fixed up once the block is complete
    if (how == "rowid") { Bytes b(8); for (int i = 0; i < 8; ++i) b[i] = (g_bc.rowid >> (8 * i)) & 0xff; return b; }
    throw std::runtime_error("unknown data kind " + how);
}

void AppendPush(Bytes& out, const Bytes& data, const std::string& enc)
{
    const size_t n = data.size();
    if (enc == "min") {
        if (n < OP_PUSHDATA1) out.push_back((unsigned char)n);
        else if (n <= 0xff) { out.push_back(OP_PUSHDATA1); out.push_back((unsigned char)n); }
        else if (n <= 0xffff) { out.push_back(OP_PUSHDATA2); out.push_back(n & 0xff); out.push_back((n >> 8) & 0xff); }
        else { out.push_back(OP_PUSHDATA4); for (int i = 0; i < 4; ++i) out.push_back((n >> (8 * i)) & 0xff); }
    } else if (enc == "pd1") { if (n > 0xff) throw std::runtime_error("pd1 too long"); out.push_back(OP_PUSHDATA1); out.push_back((unsigned char)n); }
    else if (enc == "pd2") { out.push_back(OP_PUSHDATA2); out.push_back(n & 0xff); out.push_back((n >> 8) & 0xff); }
    else if (enc == "pd4") { out.push_back(OP_PUSHDATA4); for (int i = 0; i < 4; ++i) out.push_back((n >> (8 * i)) & 0xff); }
    else throw std::runtime_error("unknown push encoding " + enc);
    out.insert(out.end(), data.begin(), data.end());
}

Bytes Ser(const UniValue& script)
{
    Bytes out;
    for (size_t i = 0; i < script.size(); ++i) {
        const UniValue& k = script[i];
        const std::string t = k["t"].get_str();
        const int rep = k["rep"].getInt<int>();
        if (t == "N") { const int n = k["n"].getInt<int>(); out.insert(out.end(), rep, (unsigned char)(n == 0 ? OP_0 : OP_1 + n - 1)); }
        else if (t == "PAD") out.insert(out.end(), g_bc.pad_base, (unsigned char)OP_NOP);
        else if (t == "PUSH") { const Bytes d = Data(k); for (int r = 0; r < rep; ++r) AppendPush(out, d, k["enc"].get_str()); }
        else if (t == "TRUNC") {
            const Bytes d = Data(k);
            if (k["how"].get_str() == "bytes") { out.insert(out.end(), d.begin(), d.end()); continue; }     // opcode byte included
            const std::string enc = k["enc"].get_str();
            if (enc == "min") { if (d.size() >= 75) throw std::runtime_error("truncated push too long"); out.push_back(75); }
            else if (enc == "pd1") { if (d.size() >= 255) throw std::runtime_error("truncated push too long"); out.push_back(OP_PUSHDATA1); out.push_back(0xff); }
            else if (enc == "pd2") { out.push_back(OP_PUSHDATA2); out.push_back(0xff); out.push_back(0xff); }
            else { out.push_back(OP_PUSHDATA4); out.push_back(0xff); out.push_back(0xff); out.push_back(0xff); out.push_back(0x7f); }
            out.insert(out.end(), d.begin(), d.end());
        } else {
            auto it = OPS.find(t);
            if (it == OPS.end()) throw std::runtime_error("unknown token " + t);
            out.insert(out.end(), rep, it->second);
        }
    }
    return out;
}
CScript ScriptOf(const UniValue& script) { const Bytes b = Ser(script); return CScript(b.begin(), b.end()); }

// witness stack; "sig"/"pubkey" placeholders are filled by signing, "pad" is pad_wit bytes
CScriptWitness WitnessOf(const UniValue& wit, bool* needs_sig = nullptr)
{
    CScriptWitness w;
    for (size_t i = 0; i < wit.size(); ++i) {
        const std::string how = wit[i]["how"].get_str();
        if (how == "raw") w.stack.push_back(Ser(wit[i]["d"]));
        else if (how == "control") w.stack.push_back(wit[i]["d"].size() ? TapFor(Ser(wit[i]["d"])).control : Bytes(33, 0xc0));
        else if (how == "pad") w.stack.push_back(Bytes(g_bc.pad_wit, 0x00));
        else if (how == "sig" || how == "pubkey") { if (needs_sig) *needs_sig = true; w.stack.push_back(Bytes(how == "sig" ? 71 : 33, 0x00)); }
        else throw std::runtime_error("unknown witness item " + how);
    }
    return w;
}

// ------------------------------------------------------------------------------------------------ script rows
std::string CheckScriptRow(const UniValue& row)
{
    if (row["kind"].get_str() == "height") {
        const CScript s = CScript() << row["h"].getInt<int64_t>();
        Bytes want; for (size_t i = 0; i < row["bytes"].size(); ++i) want.push_back((unsigned char)row["bytes"][i].getInt<int>());
        if (Bytes(s.begin(), s.end()) != want) return "CScript() << " + std::to_string(row["h"].getInt<int64_t>()) + " serialises as " + HexStr(s) + ", specification says " + HexStr(want);
        return "";
    }
    const CScript spk = ScriptOf(row["spk"]), sig = ScriptOf(row["sig"]), out = ScriptOf(row["out"]);
    const CScriptWitness wit = WitnessOf(row["wit"]);
    if (spk.IsUnspendable()) return "harness: the spent output script of a row must be spendable";
    CMutableTransaction m;
    m.vin.resize(1); m.vin[0].prevout = COutPoint(Txid::FromUint256(uint256{7}), 3); m.vin[0].scriptSig = sig; m.vin[0].scriptWitness = wit;
    m.vout.emplace_back(1, out);
    const CTransaction tx(m);
    CCoinsViewCache view{&CoinsViewEmpty::Get()};
    view.AddCoin(m.vin[0].prevout, Coin(CTxOut(1000, spk), 1, false), false);
    const script_verify_flags flags = SCRIPT_VERIFY_P2SH | SCRIPT_VERIFY_WITNESS;
    auto cmp = [&](const char* what, int64_t have, const char* key) -> std::string {
        const int64_t want = row[key].getInt<int64_t>();
        return have == want ? "" : std::string(what) + " = " + std::to_string(have) + ", specification says " + std::to_string(want) + "; ";
    };
    std::string why;
    why += cmp("GetLegacySigOpCount", GetLegacySigOpCount(tx), "legacy");
    why += cmp("GetP2SHSigOpCount", GetP2SHSigOpCount(tx, view), "p2sh");
    why += cmp("CountWitnessSigOps", (int64_t)CountWitnessSigOps(sig, spk, wit, flags), "witc");
    why += cmp("GetTransactionSigOpCost", GetTransactionSigOpCost(tx, view, flags), "cost");
    why += cmp("output GetSigOpCount(true)", out.GetSigOpCount(true), "out_acc");
    why += cmp("output GetSigOpCount(false)", out.GetSigOpCount(false), "out_inacc");
    why += cmp("scriptSig GetSigOpCount(true)", sig.GetSigOpCount(true), "sig_acc");
    if (!why.empty()) why += "spk=" + HexStr(spk) + " sig=" + HexStr(sig) + " out=" + HexStr(out);
    return why;
}

int ScriptMain(const std::string& path)
{
    CKey k; const std::array<unsigned char, 32> one{{0, 0, 0, 0, 0, 0, 0, 0, 0, 0, 0, 0, 0, 0, 0, 0, 0, 0, 0, 0, 0, 0, 0, 0, 0, 0, 0, 0, 0, 0, 0, 1}};
    ECC_Context ecc;
    k.Set(one.begin(), one.end(), true); g_bc.pubkey = k.GetPubKey();
    InstallAbortHandlers();
    ForEachLine(path, [&](size_t n, const UniValue& row) {
        R().cur_test = n; R().cur_step = 0; R().cur_action = UniValue::VNULL;
        std::string why;
        try { why = CheckScriptRow(row); } catch (const std::exception& e) { why = std::string("exception: ") + e.what(); }
        ++R().steps; ++R().tests;
        if (!why.empty()) R().Mismatch(row.exists("role") ? Obj({{"role", row["role"]}, {"spk", row["spk"]}, {"sig", row["sig"]}, {"wit", row["wit"]}, {"out", row["out"]}}) : row, why);
    });
    R().Summary();
    return 0;
}

// ------------------------------------------------------------------------------------------------ block rows
struct CoinKey { Bytes spk; int ord; bool operator<(const CoinKey& o) const { return std::tie(spk, ord) < std::tie(o.spk, o.ord); } };
struct Funded { COutPoint op; CTxOut out; };

struct Node {
    std::unique_ptr<ChainSim> sim;
    std::vector<CTransactionRef> cbs;          // coinbases of the mined base blocks (index = height - 1)
    std::map<CoinKey, Funded> coins;
    bool funded{false};
    bool dirty{false};                         // the tip could not be brought back to the base chain
    int rows{0};                               // rows judged on this node (every row leaves a block-index entry behind)
    uint32_t counter{0};
};

constexpr CAmount COIN_VALUE = 100000;

// Brings the chain to height `target` (the block under test is built at target + 1). The funding block sits at height 102.
void ExtendTo(Node& n, int target, const std::set<CoinKey>& need)
{
    while (n.sim->Tip()->nHeight < target) {
        const int next = n.sim->Tip()->nHeight + 1;
        if (next == 102 && !need.empty() && !n.funded) {
            CMutableTransaction f;
            f.vin.emplace_back(COutPoint(n.cbs.at(0)->GetHash(), 0));
            for (const auto& k : need) f.vout.emplace_back(COIN_VALUE, CScript(k.spk.begin(), k.spk.end()));
            if ((CAmount)need.size() * COIN_VALUE > n.cbs.at(0)->vout[0].nValue) throw std::runtime_error("too many coins to fund");
            n.sim->SignP2PK(f, 0, n.cbs.at(0)->vout[0]);
            const CTransactionRef ftx = MakeTransactionRef(f);
            ChainSim::BlockSpec s; CBlockIndex* tip = n.sim->Tip();
            s.prev = tip->GetBlockHash(); s.height = next; s.time = tip->GetBlockTime() + 1; s.cb_value = 0; s.txs.push_back(ftx);
            auto b = n.sim->BuildBlock(s);
            auto [r, nb] = n.sim->SubmitBlock(b, true);
            if (n.sim->Tip()->GetBlockHash() != b->GetHash()) throw std::runtime_error("funding block rejected: " + n.sim->Reason(b->GetHash()));
            uint32_t i = 0;
            for (const auto& k : need) { n.coins[k] = Funded{COutPoint(ftx->GetHash(), i), ftx->vout[i]}; ++i; }
            n.funded = true;
            continue;
        }
        auto more = n.sim->MineBase(1);
        n.cbs.push_back(more[0]);
    }
}

struct Built { CBlock block; std::string err; };

// One concrete block for a row, with the current padding parameters.
CBlock Assemble(Node& n, const UniValue& row, FillableSigningProvider& keys)
{
    CBlock b;
    CBlockIndex* tip = n.sim->Tip();
    b.nVersion = 0x20000000; b.hashPrevBlock = tip->GetBlockHash(); b.nTime = tip->GetBlockTime() + 1 + (n.counter % 500); b.nBits = Params().GenesisBlock().nBits;
    const UniValue& txs = row["txs"];
    for (size_t t = 0; t < txs.size(); ++t) {
        const UniValue& T = txs[t];
        CMutableTransaction m;
        m.nLockTime = (uint32_t)T["lock"].getInt<int>();
        std::vector<CTxOut> spent;
        std::vector<bool> sign;
        for (size_t j = 0; j < T["ins"].size(); ++j) {
            const UniValue& I = T["ins"][j];
            CTxIn in;
            if (I["null"].get_bool()) { in.prevout.SetNull(); spent.emplace_back(); }
            else {
                const CoinKey key{Ser(I["spk"]), I["ord"].getInt<int>()};
                auto it = n.coins.find(key);
                if (it == n.coins.end()) throw HarnessError("no prepared coin for an input");
                in.prevout = it->second.op; spent.push_back(it->second.out);
            }
            in.scriptSig = ScriptOf(I["sig"]);
            bool needs_sig = false;
            in.scriptWitness = WitnessOf(I["wit"], &needs_sig);
            sign.push_back(needs_sig);
            in.nSequence = I["seqfinal"].get_bool() ? CTxIn::SEQUENCE_FINAL : 0xfffffffe;
            m.vin.push_back(in);
        }
        for (size_t i = 0; i < T["outs"].size(); ++i) m.vout.emplace_back(0, ScriptOf(T["outs"][i]));
        for (size_t j = 0; j < m.vin.size(); ++j) {
            if (!sign[j]) continue;
            // P2WPKH / P2SH-P2WPKH: a real signature (the scriptSig ProduceSignature creates is the one the row describes)
            const CScript given_sig = m.vin[j].scriptSig;
            SignatureData sd;
            if (!ProduceSignature(keys, MutableTransactionSignatureCreator(m, j, spent[j].nValue, SignOptions{.sighash_type = SIGHASH_ALL}), spent[j].scriptPubKey, sd)) throw HarnessError("signing failed");
            UpdateInput(m.vin[j], sd);
            if (m.vin[j].scriptSig != given_sig) throw HarnessError("signed scriptSig differs from the row's scriptSig");
        }
        b.vtx.push_back(MakeTransactionRef(m));
    }
    // witness commitment(s): SHA256d(witness merkle root || witness reserved value)
    if (!b.vtx.empty() && !b.vtx[0]->vin.empty()) {
        CMutableTransaction cb(*b.vtx[0]);
        Bytes nonce(32, 0x00);
        if (!cb.vin[0].scriptWitness.stack.empty()) nonce = cb.vin[0].scriptWitness.stack[0];
        const uint256 root = BlockWitnessMerkleRoot(b);
        uint256 commit; CHash256().Write(root).Write(nonce).Finalize(commit);
        bool changed = false;
        for (auto& o : cb.vout) {
            CScript& s = o.scriptPubKey;
            if (s.size() == 38 && s[0] == OP_RETURN && s[1] == 0x24 && s[2] == 0xaa && s[3] == 0x21 && s[4] == 0xa9 && s[5] == 0xed) {
                const bool bad = s[6] == 0x01;
                memcpy(&s[6], commit.begin(), 32);
                if (bad) s[20] ^= 0x04;
                changed = true;
            }
        }
        if (changed) b.vtx[0] = MakeTransactionRef(cb);
    }
    b.hashMerkleRoot = BlockMerkleRoot(b);
    return b;
}

std::string RowLabel(const UniValue& row) { return row["fam"].get_str() + " " + row["fv"].write(); }

UniValue Compact(const UniValue& row)
{
    return Obj({{"fam", row["fam"]}, {"fv", row["fv"]}, {"skip", row["skip"]}, {"h", row["h"]}, {"bip34", row["bip34"]}, {"base", row["base"]}, {"weight", row["weight"]}, {"cost", row["cost"]}, {"res", row["res"]}});
}

bool IsScriptFailure(const std::string& reason)
{
    return reason.rfind("mandatory-script-verify-flag-failed", 0) == 0 || reason.rfind("block-script-verify-flag-failed", 0) == 0;
}

// Compares one verdict with the row; returns false if a mismatch was reported.
bool Judge(const UniValue& row, const std::string& who, bool ok, std::string reason, int64_t base, int64_t weight)
{
    const bool spec_ok = row["res"].get_str() == "ok";
    const bool c06 = row["c06"].get_bool();
    if (IsScriptFailure(reason)) reason = "script-failed";
    if (ok == spec_ok) {
        if (!ok && reason != row["res"].get_str()) {
            R().Count("reason_differs");
            R().Deviation(Compact(row), who + " rejects with " + reason + ", specification's first violated rule is " + row["res"].get_str(), Obj({{"who", who}, {"reason", reason}}));
        }
        return true;
    }
    if (ok && !spec_ok && c06) {
        // accepted although a rule OUTSIDE the statement of C06 is violated (finality, CheckTransaction, witness commitment, scripts)
        R().Count("accepted_other_rule_violation");
        R().Deviation(Compact(row), who + " accepts a block the specification rejects with " + row["res"].get_str() + " (not a clause of C06)", Obj({{"who", who}, {"reason", "ok"}}));
        return true;
    }
    if (ok) R().Mismatch(Compact(row), who + " ACCEPTS a block that violates C06: specification says " + row["res"].get_str() + " [" + RowLabel(row) + "] stripped=" + std::to_string(base) + " weight=" + std::to_string(weight));
    else R().Mismatch(Compact(row), who + " rejects (" + reason + ") a block that satisfies every rule [" + RowLabel(row) + "] stripped=" + std::to_string(base) + " weight=" + std::to_string(weight));
    return false;
}

// a "scripts skipped" row: the block and the headers that bury it, built while the ordinary node was alive
struct Pending { size_t index; CBlock blk; std::vector<CBlockHeader> headers; int64_t base, weight; };
constexpr int BURY_HEADERS = 2020;      // more than two weeks of regtest work (2016 blocks) on top of the block

// returns true if the row was judged; false if it was deferred to the assumed-valid pass (row["skip"])
bool RunBlockRow(Node& n, const UniValue& row, size_t index, std::vector<Pending>& deferred)
{
    FillableSigningProvider keys; keys.AddKey(n.sim->coinbaseKey);
    keys.AddCScript(CScript() << OP_0 << ToByteVector(g_bc.pubkey.GetID()));
    ++n.counter; g_bc.rowid = ((uint64_t)getpid() << 32) | n.counter;
    g_bc.pad_base = 0; g_bc.pad_wit = 0;
    const int64_t want_base = row["base"].getInt<int64_t>(), want_weight = row["weight"].getInt<int64_t>();
    CBlock blk = Assemble(n, row, keys);
    for (int iter = 0; iter < 8 && want_base > 0; ++iter) {
        const int64_t have = ::GetSerializeSize(TX_NO_WITNESS(blk));
        if (have == want_base) break;
        const int64_t np = (int64_t)g_bc.pad_base + want_base - have;
        if (np < 0) throw HarnessError("cannot reach the stripped-size target");
        g_bc.pad_base = np; blk = Assemble(n, row, keys);
    }
    for (int iter = 0; iter < 8 && want_weight > 0; ++iter) {
        const int64_t have = GetBlockWeight(blk);
        if (have == want_weight) break;
        const int64_t np = (int64_t)g_bc.pad_wit + want_weight - have;
        if (np < 0) throw HarnessError("cannot reach the weight target (have " + std::to_string(have) + ")");
        g_bc.pad_wit = np; blk = Assemble(n, row, keys);
    }
    const int64_t base = ::GetSerializeSize(TX_NO_WITNESS(blk)), weight = GetBlockWeight(blk);
    if (want_base > 0 && base != want_base) throw HarnessError("stripped size " + std::to_string(base) + " instead of " + std::to_string(want_base));
    if (want_weight > 0 && weight != want_weight) throw HarnessError("weight " + std::to_string(weight) + " instead of " + std::to_string(want_weight));
    if (want_weight == 0 && weight > 3000000) throw HarnessError("a row without size target is not small");
    n.sim->Solve(blk);
    R().Count(want_weight > 0 ? "blocks_padded" : "blocks_natural");

    const std::string fam = row["fam"].get_str();
    const bool spec_ok = row["res"].get_str() == "ok";
    // the real sigop cost of the block's transactions against the UTXO set at the tip (every input of these families exists)
    if (fam == "sigops" || fam == "both" || fam == "natural" || fam == "weight" || fam == "skip") {
        LOCK(cs_main);
        int64_t cost = 0;
        auto& view = n.sim->cm().ActiveChainstate().CoinsTip();
        const script_verify_flags flags = SCRIPT_VERIFY_P2SH | SCRIPT_VERIFY_WITNESS;
        for (const auto& tx : blk.vtx) cost += GetTransactionSigOpCost(*tx, view, flags);
        if (cost != row["cost"].getInt<int64_t>()) {
            R().Mismatch(Compact(row), "sigop cost of the block is " + std::to_string(cost) + " by GetTransactionSigOpCost, specification says " + row["cost"].write());
            return true;
        }
    }
    if (row["skip"].get_bool()) {
        Pending p; p.index = index; p.blk = blk; p.base = base; p.weight = weight;
        CBlockHeader prev = static_cast<const CBlockHeader&>(blk);
        for (int i = 0; i < BURY_HEADERS; ++i) {
            CBlockHeader h; h.nVersion = 0x20000000; h.hashPrevBlock = prev.GetHash(); h.hashMerkleRoot = uint256{static_cast<uint8_t>(1 + (i & 0x7f))};
            h.nTime = prev.nTime + 1; h.nBits = prev.nBits; h.nNonce = 0;
            while (!CheckProofOfWork(h.GetHash(), h.nBits, n.sim->consensus())) ++h.nNonce;
            p.headers.push_back(h); prev = h;
        }
        deferred.push_back(std::move(p));
        return false;
    }
    const uint256 tip_before = n.sim->Tip()->GetBlockHash();
    const CBlock copy_a = blk;
    auto copy_b = std::make_shared<const CBlock>(blk);
    const uint256 hash = blk.GetHash();
    BlockValidationState st;
    { LOCK(cs_main); st = TestBlockValidity(n.sim->cm().ActiveChainstate(), copy_a, /*check_pow=*/true, /*check_merkle_root=*/true); }
    const bool tbv_ok = st.IsValid();
    const std::string tbv_reason = tbv_ok ? "ok" : st.GetRejectReason();
    if (n.sim->Tip()->GetBlockHash() != tip_before) throw HarnessError("TestBlockValidity moved the tip");
    auto [r, nb] = n.sim->SubmitBlock(copy_b, true);
    const bool pnb_ok = n.sim->Tip()->GetBlockHash() == hash;
    std::string pnb_reason = pnb_ok ? "ok" : n.sim->Reason(hash);
    // back to the base tip; if that fails (it can after the node accepted something it never should have) the caller rebuilds the node
    if (pnb_ok) n.sim->Invalidate(hash);
    n.dirty = n.sim->Tip()->GetBlockHash() != tip_before;
    R().Count(spec_ok ? "spec_accepts" : "spec_rejects");

    bool fine = Judge(row, "TestBlockValidity", tbv_ok, tbv_reason, base, weight);
    if (fine) fine = Judge(row, "ProcessNewBlock", pnb_ok, pnb_reason, base, weight);
    if (n.dirty && fine) throw HarnessError("could not return to the base tip after a block that was judged as the specification says");
    return true;
}

// The assumed-valid pass: a fresh node whose -assumevalid block is the last of the headers that bury the block under test. It gets the base
// chain, then all headers, then the block: ConnectBlock takes the fast path (no script is executed; the block carries a spend with a
// failing script, so a connected block proves it). TestBlockValidity is not used here: it never skips scripts (its dummy index entry is
// not an ancestor of anything).
void RunSkippedRow(const SimOptions& o0, const UniValue& row, const Pending& p, const std::vector<std::shared_ptr<const CBlock>>& base_blocks)
{
    SimOptions o = o0; o.assumed_valid = p.headers.back().GetHash();
    auto sim = MakeSim(o);
    if (sim->cm().AssumedValidBlock() != p.headers.back().GetHash()) throw HarnessError("the node did not take the assumed-valid setting");
    for (const auto& b : base_blocks) {
        sim->SubmitBlock(b, true);
        if (sim->Tip()->GetBlockHash() != b->GetHash()) throw HarnessError("a base block was not connected on the assumed-valid node: " + sim->Reason(b->GetHash()));
    }
    if (sim->Tip()->GetBlockHash() != p.blk.hashPrevBlock) throw HarnessError("the base chain of the assumed-valid node does not end at the block's parent");
    std::vector<CBlockHeader> all{static_cast<const CBlockHeader&>(p.blk)};
    all.insert(all.end(), p.headers.begin(), p.headers.end());
    for (size_t i = 0; i < all.size(); i += 2000) {
        std::vector<CBlockHeader> batch(all.begin() + i, all.begin() + std::min(all.size(), i + 2000));
        BlockValidationState st;
        if (!sim->cm().ProcessNewBlockHeaders(batch, /*min_pow_checked=*/true, st)) throw HarnessError("header rejected: " + st.ToString());
    }
    { LOCK(cs_main); const CBlockIndex* best = sim->cm().m_best_header; if (!best || best->GetBlockHash() != p.headers.back().GetHash()) throw HarnessError("the best header is not the assumed-valid block"); }
    const uint256 hash = p.blk.GetHash();
    sim->SubmitBlock(std::make_shared<const CBlock>(p.blk), true);
    const bool ok = sim->Tip()->GetBlockHash() == hash;
    const std::string reason = ok ? "ok" : sim->Reason(hash);
    if (!ok && IsScriptFailure(reason)) throw HarnessError("scripts were verified although the assumed-valid conditions hold (" + reason + ")");
    R().Count(row["res"].get_str() == "ok" ? "spec_accepts" : "spec_rejects");
    if (ok) R().Count("blocks_connected_with_scripts_skipped");
    R().Count("rows_on_assumed_valid_node");
    Judge(row, "ProcessNewBlock (script checks skipped)", ok, reason, p.base, p.weight);
}

int BlockMain(const std::string& path)
{
    std::vector<UniValue> rows;
    ForEachLine(path, [&](size_t, const UniValue& row) { rows.push_back(row); });
    InstallAbortHandlers();
    // group: activation height of BIP34 -> height -> row indexes
    std::map<int, std::map<int, std::vector<size_t>>> groups;
    for (size_t i = 0; i < rows.size(); ++i) groups[rows[i]["bip34"].getInt<int>()][rows[i]["h"].getInt<int>()].push_back(i);
    for (auto& [bip34, by_h] : groups) {
        SimOptions o;
        if (bip34 != 1) o.args.push_back("-testactivationheight=bip34@" + std::to_string(bip34));
        Node n; n.sim = MakeSim(o);
        g_bc.pubkey = n.sim->coinbaseKey.GetPubKey();
        std::vector<Pending> deferred;                                   // rows for the assumed-valid pass
        std::vector<std::shared_ptr<const CBlock>> base_blocks;          // the chain below the blocks under test (heights 1..102)
        // every coin any row of this node spends
        std::set<CoinKey> need;
        for (auto& [h, idx] : by_h) for (size_t i : idx) {
            const UniValue& txs = rows[i]["txs"];
            for (size_t t = 0; t < txs.size(); ++t) for (size_t j = 0; j < txs[t]["ins"].size(); ++j) {
                const UniValue& I = txs[t]["ins"][j];
                if (!I["null"].get_bool()) need.insert(CoinKey{Ser(I["spk"]), I["ord"].getInt<int>()});
            }
        }
        for (auto& [h, idx] : by_h) {
            try { ExtendTo(n, h - 1, need); } catch (const std::exception& e) { std::cerr << "cannot build the base chain: " << e.what() << "\n"; return 2; }
            for (size_t i : idx) {
                // the block index grows with every row (rejected and invalidated blocks stay in it) and several per-block passes are linear
                // in its size: start over with a fresh node every few hundred rows
                if (n.dirty || ++n.rows > 400) {
                    // a fresh node with the same (deterministic) base chain and coins
                    const uint32_t counter = n.counter;
                    n = Node{}; n.sim = MakeSim(o); n.counter = counter;
                    try { ExtendTo(n, h - 1, need); } catch (const std::exception& e) { std::cerr << "cannot rebuild the base chain: " << e.what() << "\n"; return 2; }
                    R().Count("nodes_rebuilt");
                }
                R().cur_test = i; R().cur_step = 0; R().cur_action = Compact(rows[i]);
                bool judged = true;
                try {
                    judged = RunBlockRow(n, rows[i], i, deferred);
                    if (!judged && base_blocks.empty()) {
                        LOCK(cs_main);
                        const CChain& chain = n.sim->cm().ActiveChain();
                        for (int bh = 1; bh <= chain.Height(); ++bh) {
                            auto b = std::make_shared<CBlock>();
                            if (!n.sim->cm().m_blockman.ReadBlock(*b, *chain[bh])) throw HarnessError("cannot read a base block");
                            base_blocks.push_back(b);
                        }
                    }
                }
                catch (const HarnessError& e) { R().Count("harness_errors"); R().Info(Obj({{"kind", "harness_error"}, {"test", (uint64_t)i}, {"row", Compact(rows[i])}, {"why", e.what()}})); }
                catch (const std::exception& e) { R().Mismatch(Compact(rows[i]), std::string("exception: ") + e.what()); }
                if (judged) { ++R().tests; ++R().steps; }
            }
        }
        // the assumed-valid pass: one fresh node per row (the assumed-valid block is a ChainstateManager option and sits on top of the row's block)
        n = Node{};
        for (const Pending& p : deferred) {
            R().cur_test = p.index; R().cur_step = 0; R().cur_action = Compact(rows[p.index]);
            try { RunSkippedRow(o, rows[p.index], p, base_blocks); }
            catch (const HarnessError& e) { R().Count("harness_errors"); R().Info(Obj({{"kind", "harness_error"}, {"test", (uint64_t)p.index}, {"row", Compact(rows[p.index])}, {"why", e.what()}})); }
            catch (const std::exception& e) { R().Mismatch(Compact(rows[p.index]), std::string("exception: ") + e.what()); }
            ++R().tests; ++R().steps;
        }
    }
    R().Summary();
    return 0;
}
} // namespace

int main(int argc, char** argv)
{
    if (argc < 3) return 2;
    const std::string mode = argv[1];
    if (mode == "script") return ScriptMain(argv[2]);
    if (mode == "block") return BlockMain(argv[2]);
    return 2;
}
