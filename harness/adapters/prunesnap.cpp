// Adapter for specs/Prune/PruneSnap.tla (C19, assumeutxo clause): replays the specification's scripted behaviours on a real regtest node
// that runs in prune mode with fast-prune block files and has an activated, not yet validated assumeutxo snapshot of height 110
// (TestChain100Setup + 10 blocks, restart with -prune / fast_prune, CreateAndActivateUTXOSnapshot(reset_chainstate = true): snapshot
// chainstate at 110, background chainstate at genesis, block data up to 110 forgotten).
//   prunesnap replay <tests.ndjson>
// actions: ["mine", n]  n blocks on the snapshot chain (in order)
//          ["swap"]     headers of the next two blocks, body of the second, then body of the first
//          ["base"]     the snapshot base block (height 110) is delivered, as the background sync would
//          ["hist"]     the next block the background chainstate needs is delivered
//          ["prune", h] PruneBlockFilesManual(snapshot chainstate, min(h, tip))
// The real block-file layout is observed, not predicted: after every step the file infos and the heights of the blocks that have data
// in each file are printed as an observation line, every prune as an event line; TLC judges them (specs/Prune/PruneSnapObs.tla).
#include <vfh.h>
#include <test/util/chainstate.h>
#include <test/util/setup_common.h>
#include <chain.h>
#include <chainparams.h>
#include <consensus/validation.h>
#include <node/blockstorage.h>
#include <node/kernel_notifications.h>
#include <node/miner.h>
#include <pow.h>
#include <primitives/block.h>
#include <script/script.h>
#include <validation.h>
#include <validationinterface.h>
using namespace vfh;
using node::BlockManager;

namespace {
constexpr int SNAPH = 110;

struct PrunedSnapshotNode : public TestChain100Setup {
    PrunedSnapshotNode() : TestChain100Setup{ChainType::REGTEST, TestOpts{.coins_db_in_memory = false, .block_tree_db_in_memory = false}} {}

    // the restart of the repository's snapshot tests (SnapshotTestSetup::SimulateNodeRestart), coming back in prune mode with 64 KiB block files
    void RestartInPruneMode()
    {
        ChainstateManager& chainman = *Assert(m_node.chainman);
        {
            LOCK(chainman.GetMutex());
            for (const auto& cs : chainman.m_chainstates) if (cs->CanFlushToDisk()) cs->ForceFlushStateToDisk();
        }
        {
            m_node.validation_signals->SyncWithValidationInterfaceQueue();
            LOCK(::cs_main);
            chainman.ResetChainstates();
            m_node.notifications = std::make_unique<node::KernelNotifications>(Assert(m_node.shutdown_request), m_node.exit_status, *Assert(m_node.warnings));
            const ChainstateManager::Options chainman_opts{
                .chainparams = ::Params(),
                .datadir = chainman.m_options.datadir,
                .notifications = *m_node.notifications,
                .signals = m_node.validation_signals.get(),
            };
            const BlockManager::Options blockman_opts{
                .chainparams = chainman_opts.chainparams,
                .prune_target = BlockManager::PRUNE_TARGET_MANUAL,
                .fast_prune = true,
                .blocks_dir = m_args.GetBlocksDirPath(),
                .notifications = chainman_opts.notifications,
                .block_tree_db_params = DBParams{
                    .path = chainman.m_options.datadir / "blocks" / "index",
                    .cache_bytes = m_kernel_cache_sizes.block_tree_db,
                    .memory_only = m_block_tree_db_in_memory,
                },
            };
            m_node.chainman.reset();
            m_node.chainman = std::make_unique<ChainstateManager>(*Assert(m_node.shutdown_signal), chainman_opts, blockman_opts);
        }
        LoadVerifyActivateChainstate();
    }
    // a block on top of `prev` (only its header needs to be known to the node)
    CBlock ChildOf(const CBlock& prev, int height)
    {
        CBlock block{prev};
        block.hashPrevBlock = prev.GetHash(); block.nTime = prev.nTime + 1; block.nNonce = 0;
        CMutableTransaction coinbase{*prev.vtx.at(0)};
        coinbase.vin.at(0).scriptSig = CScript() << height << OP_0;
        coinbase.nLockTime = height - 1;
        block.vtx.at(0) = MakeTransactionRef(coinbase);
        node::RegenerateCommitments(block, *Assert(m_node.chainman));
        while (!CheckProofOfWork(block.GetHash(), block.nBits, m_node.chainman->GetConsensus())) ++block.nNonce;
        return block;
    }
};

struct World {
    std::unique_ptr<PrunedSnapshotNode> node;
    std::vector<std::shared_ptr<CBlock>> hist;     // blocks 0..110 of the original chain (index = height)
    ChainstateManager& cm() { return *node->m_node.chainman; }
    BlockManager& bm() { return cm().m_blockman; }

    World()
    {
        node = std::make_unique<PrunedSnapshotNode>();
        node->mineBlocks(10);
        node->RestartInPruneMode();
        if (!bm().IsPruneMode()) throw std::runtime_error("setup: not in prune mode");
        {
            LOCK(cs_main);
            if (cm().ActiveHeight() != SNAPH) throw std::runtime_error("setup: height");
            for (int h = 0; h <= SNAPH; ++h) { auto b = std::make_shared<CBlock>(); if (!bm().ReadBlock(*b, *cm().ActiveChain()[h])) throw std::runtime_error("setup: read block"); hist.push_back(b); }
        }
        if (!CreateAndActivateUTXOSnapshot(node.get(), NoMalleation, /*reset_chainstate=*/true)) throw std::runtime_error("setup: snapshot not activated");
        LOCK(cs_main);
        if (!cm().CurrentChainstate().m_from_snapshot_blockhash || !cm().HistoricalChainstate()) throw std::runtime_error("setup: no snapshot / background chainstate");
        const CBlockIndex* base = cm().CurrentChainstate().SnapshotBase();
        if (!base || base->nHeight != SNAPH || (base->nStatus & BLOCK_HAVE_DATA)) throw std::runtime_error("setup: snapshot base");
    }
    int Tip() { LOCK(cs_main); return cm().ActiveHeight(); }
    int Bg() { LOCK(cs_main); return cm().HistoricalChainstate() ? cm().HistoricalChainstate()->m_chain.Height() : -1; }

    struct FileInfo { int64_t size, nb, hf, hl; bool on_disk; };
    std::vector<FileInfo> Files()
    {
        LOCK(cs_main);
        std::vector<FileInfo> v;
        for (int f = 0;; ++f) {
            node::CBlockFileInfo* fi = nullptr;
            try { fi = bm().GetBlockFileInfo(f); } catch (const std::out_of_range&) { break; }
            v.push_back({(int64_t)fi->nSize, (int64_t)fi->nBlocks, (int64_t)fi->nHeightFirst, (int64_t)fi->nHeightLast, fs::exists(bm().GetBlockPosFilename(FlatFilePos(f, 0)))});
        }
        return v;
    }
    // heights of the blocks that have their data in each file
    std::map<int, std::vector<int>> Heights()
    {
        LOCK(cs_main);
        std::map<int, std::vector<int>> m;
        for (const CBlockIndex* pi : bm().GetAllBlockIndices()) if (pi->nStatus & BLOCK_HAVE_DATA) m[pi->nFile].push_back(pi->nHeight);
        for (auto& [f, v] : m) std::sort(v.begin(), v.end());
        return m;
    }
    void Observe(const std::string& kind, const std::vector<FileInfo>& before, const std::map<int, std::vector<int>>& heights0, int req)
    {
        const auto after = Files();
        const auto heights1 = Heights();
        const auto& hs_src = kind == "prune" ? heights0 : heights1;
        std::set<int> pruned;
        if (kind == "prune") for (size_t f = 0; f < before.size(); ++f) if ((before[f].size > 0 && after[f].size == 0) || (before[f].on_disk && !after[f].on_disk)) pruned.insert(f);
        // blocks that lost their data flag although their file was not reported pruned count as pruned files too
        if (kind == "prune") for (const auto& [f, v] : heights0) { auto it = heights1.find(f); if (it == heights1.end() || it->second.size() < v.size()) pruned.insert(f); }
        UniValue fa(UniValue::VARR); for (const auto& f : after) fa.push_back(Obj({{"size", f.size}, {"nb", f.nb}, {"hf", f.hf}, {"hl", f.hl}, {"disk", f.on_disk}}));
        UniValue hs(UniValue::VARR);
        for (size_t f = 0; f < after.size(); ++f) { UniValue a(UniValue::VARR); auto it = hs_src.find(f); if (it != hs_src.end()) for (int h : it->second) a.push_back(h); hs.push_back(a); }
        UniValue pr(UniValue::VARR); for (int f : pruned) pr.push_back(f);
        UniValue o = Obj({{"kind", kind}, {"tip", Tip()}, {"bg", Bg()}, {"base", SNAPH}, {"req", req}, {"pruned", pr}, {"heights", hs}, {"after", fa}});
        R().Info(Obj({{"kind", "trace"}, {"test", (uint64_t)R().cur_test}, {"step", (uint64_t)R().cur_step}, {"action", R().cur_action}, {"obs", o}}));
        R().Count("observations"); if (!pruned.empty()) { R().Count("prune_events"); R().Count("files_pruned", pruned.size()); }
    }
    void Submit(const CBlock& b)
    {
        bool nb{false};
        if (!cm().ProcessNewBlock(std::make_shared<const CBlock>(b), /*force_processing=*/true, /*min_pow_checked=*/true, &nb) || !nb) throw std::runtime_error("block not accepted as new");
    }
    void Apply(const UniValue& a)
    {
        const std::string op = a[0].get_str();
        const auto before = Files(); const auto heights0 = Heights();
        if (op == "mine") node->mineBlocks(a[1].getInt<int>());
        else if (op == "swap") {
            const int h = Tip();
            const CBlock b1{node->CreateBlock({}, CScript() << OP_TRUE)};
            const CBlock b2{node->ChildOf(b1, h + 2)};
            for (const CBlock* b : {&b1, &b2}) { BlockValidationState st; if (!cm().ProcessNewBlockHeaders({{static_cast<const CBlockHeader&>(*b)}}, true, st)) throw std::runtime_error("header rejected"); }
            Submit(b2); Submit(b1);
            if (Tip() != h + 2) throw std::runtime_error("swapped pair not connected");
        }
        else if (op == "base") Submit(*hist.at(SNAPH));
        else if (op == "hist") { const int next = Bg() + 1; if (next >= SNAPH) throw std::runtime_error("background chain complete"); Submit(*hist.at(next)); if (Bg() != next) throw std::runtime_error("background chainstate did not connect the block"); }
        else if (op == "prune") { const int h = std::min(a[1].getInt<int>(), Tip()); PruneBlockFilesManual(cm().ActiveChainstate(), h); Observe("prune", before, heights0, h); return; }
        else throw std::runtime_error("unknown op " + op);
        Observe("files", before, heights0, 0);
    }
};

int ReplayLoop(const std::string& path)
{
    InstallAbortHandlers();
    ForEachLine(path, [&](size_t n, const UniValue& t) {
        R().cur_test = n; R().cur_step = 0; R().cur_action = UniValue::VNULL;
        std::unique_ptr<World> w;
        try { w = std::make_unique<World>(); } catch (const std::exception& e) { R().Mismatch(UniValue::VNULL, std::string("cannot build the snapshot node: ") + e.what()); ++R().tests; return; }
        const UniValue& st = t["steps"];
        for (size_t i = 0; i < st.size(); ++i) {
            R().cur_step = i; R().cur_action = st[i]["a"];
            try { w->Apply(st[i]["a"]); } catch (const std::exception& e) { R().Mismatch(st[i]["a"], std::string("exception: ") + e.what()); break; }
            ++R().steps;
            // the model's chain heights (layout-independent) must agree
            const UniValue& exp = st[i]["exp"];
            if (exp.isObject() && (exp["tip"].getInt<int>() != w->Tip() || exp["bg"].getInt<int>() != w->Bg())) {
                R().Mismatch(st[i]["a"], "tip / background height " + std::to_string(w->Tip()) + " / " + std::to_string(w->Bg()) + ", specification says " + exp["tip"].write() + " / " + exp["bg"].write());
                break;
            }
        }
        ++R().tests;
        w.reset();
    });
    R().Summary();
    return 0;
}
} // namespace

int main(int argc, char** argv)
{
    if (argc < 3) return 2;
    if (std::string(argv[1]) == "replay") return ReplayLoop(argv[2]);
    return 2;
}
