// Adapter for specs/UtxoChain (C01, C02, C05, C09): replays model paths on a real in-process regtest node with real, signed
// transactions. usage: utxochain replay <tests.ndjson> <universe.json> [fork]
//   universe.json: {universe: [tx...], h0, basedt, base: [{v,h}...]} as printed by the specification (ASSUME VFRow(Universe)).
#include <utxoworld.h>
using namespace vfh;



int main(int argc, char** argv)
{
    if (argc < 4) { std::cerr << "usage: utxochain replay <tests> <universe.json> [fork]\n"; return 2; }
    { std::ifstream f(argv[3]); std::stringstream ss; ss << f.rdbuf(); if (!g_uni.read(ss.str())) { std::cerr << "bad universe\n"; return 2; } }
    // optional key=value arguments: par=<script check worker threads> fetch=<prevout fetch threads> cache=0|1
    for (int i = 4; i < argc; ++i) {
        const std::string a = argv[i];
        if (a.rfind("par=", 0) == 0) g_simopts.worker_threads = std::stoi(a.substr(4));
        if (a.rfind("fetch=", 0) == 0) g_simopts.prevout_threads = std::stoi(a.substr(6));
        if (a.rfind("cache=", 0) == 0) g_simopts.validation_cache = a.substr(6) != "0";
        if (a.rfind("arg=", 0) == 0) g_simopts.args.push_back(a.substr(4));      // e.g. arg=-testactivationheight=bip34@1000
    }
    if (std::string(argv[1]) == "replay") {
        const bool use_fork = argc > 4 && std::string(argv[4]) == "fork";
        if (use_fork) g_pristine = MakeBaseSim();
        const int rc = ReplayMain<World>(argv[2],
            [&](const UniValue&) { return std::make_unique<World>(); },
            [](World& w, const UniValue& a) { return w.Apply(a); },
            [](World& w) { return w.Project(); },
            /*internal_keys=*/{"obs", "@result"}, /*fork_per_test=*/use_fork);
        g_pristine.reset();
        return rc;
    }
    return 2;
}
