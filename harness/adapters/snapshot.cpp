// Adapter for specs/Snapshot (C20): replays the TLC-enumerated (snapshot file, node state) table and the small activation
// state machine on a real in-process regtest node.
//   snapshot replay <tests.ndjson>                 tests {init: node state, steps: [{a, r, exp}]}
//   snapshot flips  <jobs.ndjson> <classes.json>   random byte flips / truncations / appended bytes, classified by the decoder below
//   snapshot crash  <tests.ndjson>                 activation in a forked child that dies at a step boundary (specs/Snapshot/SnapshotCrash),
//                                                  then a node is started on the files left behind
// The genuine snapshot is produced by CreateUTXOSnapshot on the deterministic chain CreateBlockChain(200) whose commitment is
// in the regtest chain parameters.  The snapshot *framing* (metadata, txid groups, compact sizes) is encoded and decoded by the code
// in this file; the Coin codec (VARINT, amount/script compression - property C18) is the library's.
// SAFE mode: the node may refuse what the specification would accept (counted, path truncated); accepting what the
// specification refuses, changing the node on a refusal, or reporting a tampered background set as validated are mismatches.
#include <chainsim.h>
#include <kernel/chainparams.h>
#include <kernel/coinstats.h>
#include <node/utxo_snapshot.h>
#include <rpc/blockchain.h>
#include <streams.h>
#include <test/util/mining.h>
#include <test/util/script.h>
#include <logging.h>
#include <random>
#include <sys/wait.h>
#include <unistd.h>
using namespace vfh;

namespace {
constexpr int BASEH = 200;
using Bytes = std::vector<unsigned char>;

struct Rec { uint32_t n; Coin coin; Bytes raw; };                 // raw = the coin's bytes in the genuine file
struct Grp { uint256 txid; std::vector<Rec> recs; size_t begin{0}, end{0}; };   // [begin, end) in the genuine file

std::vector<std::shared_ptr<CBlock>> g_chain;     // index = height (0 unused), 1..BASEH+1
std::vector<std::shared_ptr<CBlock>> g_forklow;   // 4 blocks on top of height BASEH-2
std::vector<std::shared_ptr<CBlock>> g_forkhigh;  // 3 blocks on top of the base
Bytes g_genuine;                                  // the genuine snapshot file
std::vector<Grp> g_groups;                        // its decoded groups
std::map<COutPoint, Coin> g_set;                  // its coin set
size_t g_meta_len{0};
uint256 g_other_au_hash;                          // blockhash of another assumeutxo entry (header never known)

// ------------------------------------------------------------------ own framing codec
void PutCompact(Bytes& b, uint64_t v)
{
    if (v < 253) b.push_back((unsigned char)v);
    else if (v <= 0xFFFF) { b.push_back(253); b.push_back(v & 0xff); b.push_back((v >> 8) & 0xff); }
    else if (v <= 0xFFFFFFFFULL) { b.push_back(254); for (int i = 0; i < 4; ++i) b.push_back((v >> (8 * i)) & 0xff); }
    else { b.push_back(255); for (int i = 0; i < 8; ++i) b.push_back((v >> (8 * i)) & 0xff); }
}
void PutLE(Bytes& b, uint64_t v, int n) { for (int i = 0; i < n; ++i) b.push_back((v >> (8 * i)) & 0xff); }
void PutHash(Bytes& b, const uint256& h) { b.insert(b.end(), h.begin(), h.end()); }
Bytes CoinBytes(const Coin& c) { DataStream ss; ss << c; Bytes out(ss.size()); memcpy(out.data(), ss.data(), ss.size()); return out; }

struct Cursor {
    const Bytes& b; size_t p{0};
    bool Need(size_t n) const { return p + n <= b.size(); }
    // returns 0 ok, 1 eof, 2 malformed (non-canonical or above MAX_SIZE = 0x02000000)
    int Compact(uint64_t& v)
    {
        if (!Need(1)) return 1;
        const unsigned char c = b[p++];
        if (c < 253) { v = c; }
        else if (c == 253) { if (!Need(2)) return 1; v = b[p] | (b[p + 1] << 8); p += 2; if (v < 253) return 2; }
        else if (c == 254) { if (!Need(4)) return 1; v = 0; for (int i = 0; i < 4; ++i) v |= (uint64_t)b[p + i] << (8 * i); p += 4; if (v < 0x10000ULL) return 2; }
        else { if (!Need(8)) return 1; v = 0; for (int i = 0; i < 8; ++i) v |= (uint64_t)b[p + i] << (8 * i); p += 8; if (v < 0x100000000ULL) return 2; }
        if (v > 0x02000000ULL) return 2;
        return 0;
    }
};

struct Decoded {
    std::string cls;                     // same | coinset_differs | meta_truncated | meta_magic | meta_version | meta_net | meta_base | meta_count |
                                         // truncated | malformed | trailing
    std::vector<Grp> groups;
    std::map<COutPoint, Coin> set;
    uint64_t declared{0};
    uint256 base;
};
bool SameCoin(const Coin& a, const Coin& b) { return a.nHeight == b.nHeight && a.fCoinBase == b.fCoinBase && a.out.nValue == b.out.nValue && a.out.scriptPubKey == b.out.scriptPubKey; }

// Decodes a file exactly as the format is documented; classification is relative to the genuine snapshot.
Decoded Decode(const Bytes& b, bool genuine_pass = false)
{
    Decoded d;
    static const unsigned char MAGIC[5] = {'u', 't', 'x', 'o', 0xff};
    if (b.size() < 5 + 2 + 4 + 32 + 8) { d.cls = "meta_truncated"; return d; }
    if (memcmp(b.data(), MAGIC, 5) != 0) { d.cls = "meta_magic"; return d; }
    if ((b[5] | (b[6] << 8)) != 2) { d.cls = "meta_version"; return d; }
    const auto& ms = Params().MessageStart();
    if (memcmp(b.data() + 7, ms.data(), 4) != 0) { d.cls = "meta_net"; return d; }
    memcpy(d.base.begin(), b.data() + 11, 32);
    for (int i = 0; i < 8; ++i) d.declared |= (uint64_t)b[43 + i] << (8 * i);
    if (!genuine_pass && d.base != g_chain[BASEH]->GetHash()) { d.cls = "meta_base"; return d; }
    Cursor c{b, 51};
    uint64_t left = d.declared;
    while (left > 0) {
        Grp g; g.begin = c.p;
        if (!c.Need(32)) { d.cls = "truncated"; return d; }
        memcpy(g.txid.begin(), b.data() + c.p, 32); c.p += 32;
        uint64_t cnt;
        if (int e = c.Compact(cnt)) { d.cls = e == 1 ? "truncated" : "malformed"; return d; }
        if (cnt > left) { d.cls = "meta_count"; return d; }
        for (uint64_t i = 0; i < cnt; ++i) {
            Rec r; uint64_t n;
            if (int e = c.Compact(n)) { d.cls = e == 1 ? "truncated" : "malformed"; return d; }
            r.n = (uint32_t)n;
            const size_t before = c.p;
            try {
                SpanReader sr{std::span<const unsigned char>(b.data() + c.p, b.size() - c.p)};
                sr >> r.coin;
                c.p = b.size() - sr.size();
            } catch (const std::ios_base::failure&) { d.cls = "truncated"; return d; }   // eof or an over-long varint: refused either way
            r.raw.assign(b.begin() + before, b.begin() + c.p);
            if (r.coin.nHeight > (uint32_t)BASEH || !MoneyRange(r.coin.out.nValue)) { d.cls = "malformed"; return d; }
            d.set.try_emplace(COutPoint(Txid::FromUint256(g.txid), r.n), r.coin);    // the loader keeps the first record of an outpoint
            g.recs.push_back(std::move(r));
            --left;
        }
        g.end = c.p;
        d.groups.push_back(std::move(g));
    }
    if (c.p != b.size()) { d.cls = "trailing"; return d; }
    if (genuine_pass) { d.cls = "same"; return d; }
    bool same = d.set.size() == g_set.size();
    if (same) for (const auto& [op, coin] : d.set) { auto it = g_set.find(op); if (it == g_set.end() || !SameCoin(it->second, coin)) { same = false; break; } }
    d.cls = same ? "same" : "coinset_differs";
    return d;
}

// ------------------------------------------------------------------ abstract file (specs/Snapshot) -> bytes
const Grp& Slot(int s) { return s == 1 ? g_groups.front() : s == 2 ? g_groups[g_groups.size() - 2] : g_groups.back(); }
uint256 NewTxid() { uint256 h; memset(h.begin(), 0xAB, 32); return h; }

Coin ConcreteCoin(const Coin& base, const UniValue& c)
{
    Coin k = base;
    const std::string h = c["h"].get_str(), cb = c["cb"].get_str(), amt = c["amt"].get_str(), spk = c["spk"].get_str();
    if (h == "other") k.nHeight = base.nHeight > 1 ? base.nHeight - 1 : base.nHeight + 1; else if (h == "over") k.nHeight = BASEH + 1;
    if (cb == "flip") k.fCoinBase = !base.fCoinBase;
    if (amt == "plus1") k.out.nValue = base.out.nValue + 1; else if (amt == "max") k.out.nValue = MAX_MONEY; else if (amt == "over") k.out.nValue = MAX_MONEY + 1; else if (amt == "neg") k.out.nValue = -2;
    if (spk == "other") k.out.scriptPubKey = CScript() << OP_TRUE; else if (spk == "empty") k.out.scriptPubKey = CScript();
    return k;
}

Bytes Concretise(const UniValue& F)
{
    Bytes b;
    const unsigned char MAGIC[5] = {'u', 't', 'x', 'o', 0xff};
    b.insert(b.end(), MAGIC, MAGIC + 5);
    if (F["magic"].get_str() != "ok") b[2] ^= 0x20;
    PutLE(b, F["ver"].getInt<int>(), 2);
    const std::string net = F["net"].get_str();
    if (net == "regtest") { const auto& ms = Params().MessageStart(); b.insert(b.end(), ms.begin(), ms.end()); }
    else if (net == "main") { const unsigned char m[4] = {0xf9, 0xbe, 0xb4, 0xd9}; b.insert(b.end(), m, m + 4); }
    else { const unsigned char m[4] = {1, 2, 3, 4}; b.insert(b.end(), m, m + 4); }
    const std::string base = F["base"].get_str();
    uint256 z; memset(z.begin(), 0x5A, 32);
    PutHash(b, base == "B" ? g_chain[BASEH]->GetHash() : base == "P" ? g_chain[BASEH - 1]->GetHash() : base == "A" ? g_other_au_hash : z);
    // the model's count is in model coins: the bulk stands for (real coins - 3) of them, the constant Bulk of the configuration says how many
    PutLE(b, (uint64_t)F["declared"].getInt<int64_t>(), 8);
    const int cut_i = F["cut"]["i"].getInt<int>(); const std::string cut_pos = F["cut"]["pos"].get_str();
    if (cut_i == 0) { b.resize(20); return b; }
    const UniValue& items = F["items"];
    for (size_t i = 1; i <= items.size(); ++i) {
        const UniValue& it = items[i - 1];
        const bool cut = (int)i == cut_i;
        if (cut && cut_pos == "start") return b;
        if (it["kind"].get_str() == "bulk") {
            const size_t from = g_groups[1].begin, to = g_groups[g_groups.size() - 3].end;
            if (cut) { b.insert(b.end(), g_genuine.begin() + from, g_genuine.begin() + from + (to - from) / 2 + 5); return b; }   // "inner": ends mid-record
            b.insert(b.end(), g_genuine.begin() + from, g_genuine.begin() + to);
            continue;
        }
        const int tx = it["tx"].getInt<int>();
        const uint256 txid = tx == 9 ? NewTxid() : Slot(tx).txid;
        const Coin& basecoin = tx == 9 ? Slot(1).recs[0].coin : Slot(tx).recs[0].coin;
        if (cut && cut_pos == "txid") { b.insert(b.end(), txid.begin(), txid.begin() + 16); return b; }
        PutHash(b, txid);
        if (cut && cut_pos == "cnt") return b;
        const uint64_t cnt = it["cnt"].getInt<int>();
        if (it["enc"].get_str() == "noncanon") { b.push_back(253); b.push_back(cnt & 0xff); b.push_back(0); } else PutCompact(b, cnt);
        if (cut && cut_pos == "vout") return b;
        const UniValue& recs = it["recs"];
        for (size_t j = 0; j < recs.size(); ++j) {
            const int n = recs[j]["n"].getInt<int>();
            PutCompact(b, n == 99 ? 0xFFFFFFFFULL : (uint64_t)n);
            const Bytes cb = CoinBytes(ConcreteCoin(basecoin, recs[j]["c"]));
            if (cut && cut_pos == "coin" && j == 0) { b.insert(b.end(), cb.begin(), cb.begin() + cb.size() / 2); return b; }
            b.insert(b.end(), cb.begin(), cb.end());
        }
    }
    if (F["extra"].get_str() == "byte") b.push_back(0x00);
    return b;
}

// ------------------------------------------------------------------ the chain and the genuine snapshot
std::shared_ptr<CBlock> ForkBlock(ChainSim& sim, const uint256& prev, int height, uint32_t time, int salt)
{
    ChainSim::BlockSpec s; s.prev = prev; s.height = height; s.time = time; s.extra_nonce = salt; s.cb_value = 0;
    return sim.BuildBlock(s);
}

void BuildWorld()
{
    auto src = MakeSim();
    g_chain = CreateBlockChain(BASEH + 1, Params());
    g_chain.insert(g_chain.begin(), nullptr);
    const auto au = Params().AssumeutxoForHeight(BASEH);
    if (!au || au->blockhash != g_chain[BASEH]->GetHash()) throw std::runtime_error("the deterministic chain does not end in the assumeutxo block of the chain parameters");
    for (const auto& e : {110, 299}) { const auto o = Params().AssumeutxoForHeight(e); if (o) { g_other_au_hash = o->blockhash; break; } }
    if (g_other_au_hash.IsNull()) throw std::runtime_error("no second assumeutxo entry");
    for (int h = 1; h <= BASEH; ++h) {
        auto [r, nb] = src->SubmitBlock(g_chain[h], true);
        if (!r || src->Tip()->GetBlockHash() != g_chain[h]->GetHash()) throw std::runtime_error("source chain block rejected");
    }
    const fs::path path = src->m_path_root / "genuine.dat";
    {
        AutoFile out{fsbridge::fopen(path, "wb")};
        CreateUTXOSnapshot(src->m_node, src->cm().ActiveChainstate(), std::move(out), path, path);
    }
    { std::ifstream f(fs::PathToString(path), std::ios::binary); g_genuine.assign(std::istreambuf_iterator<char>(f), {}); }
    Decoded d = Decode(g_genuine, /*genuine_pass=*/true);
    if (d.cls != "same" || d.groups.size() != (size_t)BASEH || d.declared != (uint64_t)BASEH || d.base != g_chain[BASEH]->GetHash()) throw std::runtime_error("cannot decode the genuine snapshot: " + d.cls);
    for (const auto& g : d.groups) if (g.recs.size() != 1) throw std::runtime_error("unexpected group shape in the genuine snapshot");
    g_groups = d.groups; g_set = d.set; g_meta_len = 51;
    uint256 prev = g_chain[BASEH - 2]->GetHash();
    for (int k = 0; k < 4; ++k) { auto b = ForkBlock(*src, prev, BASEH - 1 + k, g_chain[BASEH - 2]->nTime + 1 + k, 700 + k); g_forklow.push_back(b); prev = b->GetHash(); }
    prev = g_chain[BASEH]->GetHash();
    for (int k = 0; k < 3; ++k) { auto b = ForkBlock(*src, prev, BASEH + 1 + k, g_chain[BASEH]->nTime + 1 + k, 800 + k); g_forkhigh.push_back(b); prev = b->GetHash(); }
}

// ------------------------------------------------------------------ the node under test
struct World {
    std::unique_ptr<ChainSim> sim;
    Chainstate* orig{nullptr};
    bool disk{false};
    std::string tamper{"none"};
    int nfile{0};

    explicit World(const UniValue& ns)
    {
        disk = ns["disk"].get_bool();
        SimOptions o; o.coins_db_in_memory = !disk; o.block_tree_db_in_memory = !disk;
        sim = MakeSim(o);
        sim->m_node.notifications->m_shutdown_on_fatal_error = false;
        auto& cm = sim->cm();
        orig = &cm.ActiveChainstate();
        const std::string hdr = ns["hdr"].get_str();
        auto headers = [&](const std::vector<std::shared_ptr<CBlock>>& v) {
            for (const auto& b : v) { if (!b) continue; BlockValidationState st; if (!sim->SubmitHeader(static_cast<const CBlockHeader&>(*b), st)) throw std::runtime_error("header rejected: " + st.ToString()); }
        };
        if (hdr != "none") headers(g_chain);
        if (hdr == "forklow") headers(g_forklow);
        if (hdr == "forkhigh") headers(g_forkhigh);
        Deliver(ns["otip"].getInt<int>());
        const std::string failed = ns["failed"].get_str();
        if (failed != "no") sim->Invalidate(g_chain[failed == "base" ? BASEH : BASEH - 5]->GetHash());
        if (ns["pool"].getInt<int>() > 0) {
            CMutableTransaction m;
            m.vin.emplace_back(COutPoint(g_chain[1]->vtx[0]->GetHash(), 0));
            m.vin[0].scriptWitness.stack = {WITNESS_STACK_ELEM_OP_TRUE};
            m.vout.emplace_back(g_chain[1]->vtx[0]->vout[0].nValue - 10000, P2WSH_OP_TRUE);
            const auto res = WITH_LOCK(cs_main, return cm.ProcessTransaction(MakeTransactionRef(m)));
            if (res.m_result_type != MempoolAcceptResult::ResultType::VALID) throw std::runtime_error("mempool transaction rejected: " + res.m_state.ToString());
        }
    }
    void Deliver(int upto)
    {
        const int from = WITH_LOCK(cs_main, return orig->m_chain.Height()) + 1;
        for (int h = from; h <= upto; ++h) {
            auto [r, nb] = sim->SubmitBlock(g_chain[h], true);
            if (!r) throw std::runtime_error("block rejected at height " + std::to_string(h));
        }
    }
    // loadtxoutset: parse the metadata, then ChainstateManager::ActivateSnapshot
    std::pair<bool, std::string> Activate(const Bytes& bytes)
    {
        const fs::path path = sim->m_path_root / fs::PathFromString("snap" + std::to_string(++nfile % 2) + ".dat");
        { std::ofstream f(fs::PathToString(path), std::ios::binary | std::ios::trunc); f.write((const char*)bytes.data(), bytes.size()); }
        AutoFile afile{fsbridge::fopen(path, "rb")};
        if (afile.IsNull()) throw std::runtime_error("cannot reopen the snapshot file");
        node::SnapshotMetadata metadata{sim->cm().GetParams().MessageStart()};
        try { afile >> metadata; } catch (const std::ios_base::failure& e) { (void)afile.fclose(); return {false, std::string("metadata: ") + e.what()}; }
        auto res = sim->cm().ActivateSnapshot(afile, metadata, /*in_memory=*/!disk);
        (void)afile.fclose();
        if (res) return {true, "ok"};
        return {false, util::ErrorString(res).original};
    }
    void Tamper(const std::string& k)
    {
        LOCK(cs_main);
        CCoinsViewCache& v = orig->CoinsTip();
        const COutPoint first(g_chain[1]->vtx[0]->GetHash(), 0);
        if (k == "extra") { Coin c(CTxOut(12345, CScript() << OP_TRUE), 1, false); uint256 h; memset(h.begin(), 0xCD, 32); v.AddCoin(COutPoint(Txid::FromUint256(h), 0), std::move(c), false); }
        else if (k == "remove") { if (!v.SpendCoin(first)) throw std::runtime_error("tamper: coin not there"); }
        else if (k == "change") { Coin c; if (!v.SpendCoin(first, &c)) throw std::runtime_error("tamper: coin not there"); c.out.nValue += 1; v.AddCoin(first, std::move(c), true); }
        tamper = k;
    }
    static std::string Status(const Chainstate& cs) { return cs.m_assumeutxo == Assumeutxo::VALIDATED ? "validated" : cs.m_assumeutxo == Assumeutxo::UNVALIDATED ? "unvalidated" : "invalid"; }
    UniValue Project()
    {
        LOCK(cs_main);
        auto& cm = sim->cm();
        Chainstate& cur = cm.CurrentChainstate();
        Chainstate* snapcs = nullptr;
        for (auto& cs : cm.m_chainstates) if (cs && cs->m_from_snapshot_blockhash) snapcs = cs.get();
        const CBlockIndex* tip = cur.m_chain.Tip();
        const int tiph = tip && tip->nHeight <= BASEH + 1 && (tip->nHeight == 0 || tip->GetBlockHash() == g_chain[tip->nHeight]->GetHash()) ? tip->nHeight : -1;
        const int otip = orig->m_chain.Height();
        // the original chainstate: fully validated, not snapshot based, holds exactly the coinbase outputs of its chain
        bool origok = orig->m_assumeutxo == Assumeutxo::VALIDATED && !orig->m_from_snapshot_blockhash && cm.m_chainstates.size() >= 1 && cm.m_chainstates[0].get() == orig;
        if (origok && orig->CanFlushToDisk()) {
            CCoinsViewCache& v = orig->CoinsTip();
            const bool spent1 = sim->m_node.mempool && false;
            (void)spent1;
            for (int h = 1; h <= BASEH + 1 && origok; ++h) {
                if (h == 1 && (tamper == "remove" || tamper == "change")) continue;
                const bool have = v.HaveCoin(COutPoint(g_chain[h]->vtx[0]->GetHash(), 0));
                if (have != (h <= otip)) origok = false;
            }
            if (v.GetBestBlock() != orig->m_chain.Tip()->GetBlockHash()) origok = false;
        }
        std::string snapcoins = "none";
        std::string snap = "none";
        if (snapcs) {
            snap = Status(*snapcs);
            if (snap != "invalid" && snapcs->CanFlushToDisk()) {
                snapcoins = "committed";
                CCoinsViewCache& v = snapcs->CoinsTip();
                for (const auto& [op, coin] : g_set) { const Coin& have = v.AccessCoin(op); if (have.IsSpent() || !SameCoin(have, coin)) { snapcoins = "other"; break; } }
                if (snapcoins == "committed" && snapcs->m_chain.Height() == BASEH) {
                    size_t n = 0; auto cursor = snapcs->CoinsDB().Cursor(); for (; cursor->Valid(); cursor->Next()) ++n;
                    if (n != g_set.size()) snapcoins = "other";
                }
                if (*snapcs->m_from_snapshot_blockhash != g_chain[BASEH]->GetHash()) snapcoins = "other";
            }
        }
        const bool dir = node::FindAssumeutxoChainstateDir(cm.m_options.datadir).has_value();
        const size_t pool = sim->m_node.mempool ? sim->m_node.mempool->size() : 0;
        return Obj({{"cur", &cur == orig ? "orig" : "snap"}, {"tip", tiph}, {"otip", otip}, {"ncs", (int)cm.m_chainstates.size()}, {"snap", snap},
                    {"pool", (int)pool}, {"snapdir", dir}, {"origok", origok}, {"snapcoins", snapcoins}});
    }
};

std::string CompareProj(const UniValue& exp, const UniValue& have)
{
    for (const char* k : {"cur", "tip", "otip", "ncs", "snap", "pool", "snapdir", "origok", "snapcoins"}) {
        if (!exp.exists(k)) continue;
        const std::string d = JsonDiff(exp[k], have[k], std::string("state.") + k);
        if (!d.empty()) return d;
    }
    return "";
}

UniValue ShortAct(const UniValue& a)
{
    UniValue s(UniValue::VARR);
    for (size_t i = 0; i < a.size() && i < 2; ++i) s.push_back(a[i]);
    return s;
}

int ReplayTests(const std::string& path)
{
    InstallAbortHandlers();
    ForEachLine(path, [&](size_t n, const UniValue& t) {
        R().cur_test = n; R().cur_step = 0; R().cur_action = UniValue::VNULL;
        World w(t["init"]);
        UniValue prev = w.Project();
        {
            const std::string d = CompareProj(t["init"], prev);
            if (!d.empty()) throw std::runtime_error("the harness could not establish the initial node state: " + d);
        }
        const UniValue& st = t["steps"];
        for (size_t i = 0; i < st.size(); ++i) {
            const UniValue& a = st[i]["a"]; const UniValue& r = st[i]["r"]; const UniValue& exp = st[i]["exp"];
            R().cur_step = i; R().cur_action = ShortAct(a);
            ++R().steps;
            const std::string op = a[0].get_str();
            bool stop = false;
            try {
            if (op == "activate") {
                const Bytes bytes = Concretise(a[2]);
                auto [ok, why] = w.Activate(bytes);
                R().Count(ok ? "activations_accepted" : "activations_refused");
                const UniValue have = w.Project();
                if (ok && !r["may"].get_bool()) { R().Mismatch(ShortAct(a), "the node activated a snapshot the specification refuses (model: " + r["why"].get_str() + ")"); break; }
                if (!ok && JsonDiff(prev, have, "state") != "") { R().Mismatch(ShortAct(a), "a refused activation changed the node: " + JsonDiff(prev, have, "state") + " (refusal: " + why + ")"); break; }
                if (ok && !r["ok"].get_bool()) { R().Count("accepted_other_reading"); stop = true; }
                else if (!ok && r["ok"].get_bool()) { R().Count("diverged_conservative"); R().Info(Obj({{"kind", "info"}, {"conservative", ShortAct(a)}, {"why", why}})); stop = true; }
                else {
                    const std::string d = CompareProj(exp, have);
                    if (!d.empty()) { R().Mismatch(ShortAct(a), (ok ? "after an accepted activation: " : "after a refused activation: ") + d); break; }
                }
                prev = have;
            } else if (op == "tamper") {
                w.Tamper(a[1].get_str());
                prev = w.Project();
            } else if (op == "bgsync") {
                w.Deliver(a[1].getInt<int>());
                const UniValue have = w.Project();
                const std::string want = r["why"].get_str();
                const std::string got = have["snap"].get_str();
                if (want != "none") R().Count("completions_" + got);
                if (got == "validated" && want == "invalid") { R().Mismatch(ShortAct(a), "background validation reported success although the validated coin set was tampered with (" + w.tamper + ")"); break; }
                if (want == "validated" && got != "validated") { R().Count("diverged_conservative"); stop = true; }
                else {
                    const std::string d = CompareProj(exp, have);
                    if (!d.empty()) { R().Mismatch(ShortAct(a), "after background sync: " + d); break; }
                }
                prev = have;
            } else throw std::runtime_error("unknown action " + op);
            } catch (const std::exception& e) { R().Mismatch(ShortAct(a), std::string("exception inside a replayed step: ") + e.what()); break; }
            if (stop) break;
        }
        ++R().tests;
    });
    R().Summary();
    return 0;
}

// ------------------------------------------------------------------ random byte-level damage, classified by Decode()
int Flips(const std::string& path, const std::string& classes_path)
{
    InstallAbortHandlers();
    UniValue may;
    { std::ifstream f(classes_path); std::stringstream ss; ss << f.rdbuf(); if (!may.read(ss.str())) throw std::runtime_error("bad classes file"); }
    ForEachLine(path, [&](size_t n, const UniValue& job) {
        R().cur_test = n;
        std::mt19937_64 rng(job["seed"].getInt<uint64_t>());
        const int count = job["count"].getInt<int>();
        UniValue ns = Obj({{"hdr", "chain"}, {"failed", "no"}, {"otip", job["otip"].getInt<int>()}, {"pool", 0}, {"disk", job["disk"].get_bool()}});
        auto w = std::make_unique<World>(ns);
        UniValue prev = w->Project();
        for (int i = 0; i < count; ++i) {
            R().cur_step = i; ++R().steps;
            Bytes b = g_genuine;
            const int kind = rng() % 8;
            UniValue what(UniValue::VARR);
            // bias the positions towards the metadata and the first/last records, where the structure is
            auto pos = [&]() -> size_t { const int z = rng() % 4; return z == 0 ? rng() % 60 : z == 1 ? b.size() - 1 - rng() % 120 : rng() % b.size(); };
            if (kind <= 2) { const size_t p = pos(); const int bit = rng() % 8; b[p] ^= (1 << bit); what.push_back("bitflip"); what.push_back((uint64_t)p); what.push_back(bit); }
            else if (kind == 3) { const size_t p = pos(); unsigned char v = rng() & 0xff; if (v == b[p]) v ^= 1; b[p] = v; what.push_back("setbyte"); what.push_back((uint64_t)p); what.push_back((int)v); }
            else if (kind == 4) { const size_t p = pos(); b.resize(p); what.push_back("truncate"); what.push_back((uint64_t)p); }
            else if (kind == 5) { const int k = 1 + rng() % 70; for (int j = 0; j < k; ++j) b.push_back(rng() & 0xff); what.push_back("append"); what.push_back(k); }
            else if (kind == 6) { const size_t p = pos(), q = pos(); std::swap(b[p], b[q]); what.push_back("swapbytes"); what.push_back((uint64_t)p); what.push_back((uint64_t)q); }
            else { const size_t p = 51 + rng() % (b.size() - 51); const int k = 1 + rng() % 40; b.erase(b.begin() + p, b.begin() + std::min(b.size(), p + k)); what.push_back("delete"); what.push_back((uint64_t)p); what.push_back(k); }
            R().cur_action = what;
            const Decoded d = Decode(b);
            R().Count("class_" + d.cls);
            if (!may.exists(d.cls)) throw std::runtime_error("no verdict for class " + d.cls);
            auto [ok, why] = w->Activate(b);
            const UniValue have = w->Project();
            if (ok && !may[d.cls].get_bool()) { what.push_back(d.cls); R().Mismatch(what, "the node activated a damaged snapshot of class " + d.cls); }
            else if (!ok && JsonDiff(prev, have, "state") != "") { what.push_back(d.cls); R().Mismatch(what, "a refused activation changed the node: " + JsonDiff(prev, have, "state")); }
            else if (!ok && may[d.cls].get_bool() && b != g_genuine) R().Count("diverged_conservative");
            if (ok) {
                R().Count("activations_accepted");
                if (have["snapcoins"].get_str() != "committed") { what.push_back(d.cls); R().Mismatch(what, "activated snapshot chainstate does not hold the committed coin set"); }
                w.reset(); w = std::make_unique<World>(ns); prev = w->Project();
            } else R().Count("activations_refused");
        }
        ++R().tests;
    });
    R().Summary();
    return 0;
}

// ------------------------------------------------------------------ process death during activation, restart on the files left behind
// The child process sets up an on-disk node, starts loadtxoutset's steps and _Exit()s when the log line that marks the requested
// step boundary appears (no destructors, no flushes: what a kill leaves). The parent starts a node on a copy of those files.
const char* PatternOf(const std::string& point)
{
    if (point == "dir") return "[snapshot] loading ";                         // snapshot leveldb created, nothing loaded
    if (point == "loaded") return "[snapshot] loaded ";                       // coins in the cache, before the final flush
    if (point == "flushed") return "FlushSnapshotToDisk: completed";          // coins on disk, not yet hashed
    if (point == "compared") return "[snapshot] validated snapshot";          // hash compared equal, flags faked in memory
    if (point == "added") return "[snapshot] successfully activated snapshot"; // marker written, chainstate added
    if (point == "cleanup") return "Removing leveldb dir";                    // refusal: marker removed, directory not yet
    return nullptr;                                                            // "done" / "refused": after the call returned
}

[[noreturn]] void CrashChild(int wfd, const UniValue& t)
{
    try {
        const bool blocks = t["blocks"].get_bool();
        UniValue ns = Obj({{"hdr", "chain"}, {"failed", "no"}, {"otip", blocks ? BASEH : 0}, {"pool", 0}, {"disk", true}});
        World w(ns);
        auto& cm = w.sim->cm();
        if (blocks) {
            // all block data up to the base on disk, validated tip back at genesis (invalidate + reconsider, not yet re-validated)
            CBlockIndex* b1 = w.sim->Lookup(g_chain[1]->GetHash());
            BlockValidationState st;
            if (!cm.ActiveChainstate().InvalidateBlock(st, b1)) _Exit(52);
            LOCK(cs_main);
            cm.ActiveChainstate().ResetBlockFailureFlags(b1);
            cm.RecalculateBestHeader();
            if (cm.ActiveHeight() != 0) _Exit(52);
            cm.ActiveChainstate().ForceFlushStateToDisk();
        } else {
            LOCK(cs_main);
            cm.ActiveChainstate().ForceFlushStateToDisk();
        }
        const std::string msg = fs::PathToString(w.sim->m_args.GetDataDirNet()) + "\n" + fs::PathToString(w.sim->m_path_root) + "\n";
        if (write(wfd, msg.data(), msg.size()) != (ssize_t)msg.size()) _Exit(53);
        close(wfd);
        const Bytes bytes = Concretise(t["F"]);
        static const char* pattern; pattern = PatternOf(t["point"].get_str());
        LogInstance().EnableCategory(BCLog::LogFlags::ALL);
        if (pattern) LogInstance().PushBackCallback([](const std::string& line) { if (line.find(pattern) != std::string::npos) _Exit(42); });
        auto [ok, why] = w.Activate(bytes);
        if (!pattern) _Exit(42);
        _Exit(ok ? 60 : 61);          // the step boundary was never reached
    } catch (const std::exception& e) {
        std::cerr << "crash child: " << e.what() << std::endl;
        _Exit(54);
    }
}

int CrashTests(const std::string& path)
{
    InstallAbortHandlers();
    const auto au = Params().AssumeutxoForHeight(BASEH);
    ForEachLine(path, [&](size_t n, const UniValue& t) {
        R().cur_test = n; R().cur_step = 0;
        UniValue act = Arr({"crash", t["file"], t["point"], t["blocks"]});
        R().cur_action = act;
        ++R().steps;
        std::cout.flush(); std::cerr.flush();
        int fds[2];
        if (pipe(fds) != 0) throw std::runtime_error("pipe");
        const pid_t pid = fork();
        if (pid < 0) throw std::runtime_error("fork");
        if (pid == 0) { close(fds[0]); CrashChild(fds[1], t); }
        close(fds[1]);
        std::string msg; char buf[512]; ssize_t k;
        while ((k = read(fds[0], buf, sizeof(buf))) > 0) msg.append(buf, k);
        close(fds[0]);
        int status = 0; waitpid(pid, &status, 0);
        const int code = WIFEXITED(status) ? WEXITSTATUS(status) : -1;
        const auto nl1 = msg.find('\n'); const auto nl2 = nl1 == std::string::npos ? nl1 : msg.find('\n', nl1 + 1);
        if (nl2 == std::string::npos) throw std::runtime_error("crash child failed before the node was set up (exit " + std::to_string(code) + ")");
        std::string netdir = msg.substr(0, nl1), rootdir = msg.substr(nl1 + 1, nl2 - nl1 - 1);
        {
            // the restarted node would pick the same "random" datadir name as the forked child did: move the crash image aside
            const std::string moved = rootdir + "_crashed";
            std::error_code ec; std::filesystem::remove_all(moved, ec);
            std::filesystem::rename(rootdir, moved);
            if (netdir.compare(0, rootdir.size(), rootdir) != 0) throw std::runtime_error("unexpected datadir layout");
            netdir = moved + netdir.substr(rootdir.size()); rootdir = moved;
        }
        auto cleanup = [&] { std::error_code ec; std::filesystem::remove_all(rootdir, ec); };
        if (code == 60 || code == 61) { R().Count("crashpoint_not_reached"); R().Info(Obj({{"kind", "info"}, {"not_reached", act}, {"returned", code == 60 ? "ok" : "refused"}})); cleanup(); ++R().tests; return; }
        if (code != 42) { cleanup(); throw std::runtime_error("crash child ended with status " + std::to_string(status)); }
        R().Count("crashes");
        // ---- restart
        SimOptions o; o.coins_db_in_memory = false; o.block_tree_db_in_memory = false; o.preload_dir = netdir; o.defer_load = true;
        std::string started, why; bool hash_ok = false; std::string final_snap = "none"; bool dir = false, marker = false;
        {
            auto sim = MakeSim(o);
            sim->m_node.notifications->m_shutdown_on_fatal_error = false;
            const std::string err = sim->TryLoad();
            const fs::path sdir = sim->m_args.GetDataDirNet() / "chainstate_snapshot";
            dir = fs::exists(sdir); marker = fs::exists(sdir / "base_blockhash");
            if (!err.empty()) { started = "refused"; why = err; }
            else {
                auto& cm = sim->cm();
                Chainstate* snapcs = nullptr;
                {
                    LOCK(cs_main);
                    for (auto& cs : cm.m_chainstates) if (cs && cs->m_from_snapshot_blockhash) snapcs = cs.get();
                    started = snapcs && &cm.CurrentChainstate() == snapcs ? "adopted" : cm.m_chainstates.size() == 1 ? "single" : "other";
                    if (snapcs) {
                        final_snap = World::Status(*snapcs);
                        std::optional<kernel::CCoinsStats> stats;
                        if (!snapcs->CoinsDB().GetBestBlock().IsNull()) stats = kernel::ComputeUTXOStats(kernel::CoinStatsHashType::HASH_SERIALIZED, snapcs->CoinsDB(), cm.m_blockman);
                        hash_ok = stats && au && AssumeutxoHash{stats->hashSerialized} == au->hash_serialized && snapcs->m_chain.Tip() && snapcs->m_chain.Tip()->GetBlockHash() == au->blockhash;
                    }
                }
                if (started == "adopted" && t["blocks"].get_bool()) {
                    // let the original chainstate validate up to the base: MaybeValidateSnapshot
                    Chainstate* bg = WITH_LOCK(cs_main, return cm.HistoricalChainstate());
                    if (bg) { BlockValidationState st; bg->ActivateBestChain(st); }
                    LOCK(cs_main);
                    final_snap = World::Status(*snapcs);
                }
            }
        }
        cleanup();
        const UniValue& exp = t["exp"];
        const std::string want = exp["started"].get_str();
        R().Count("restart_" + started);
        if (started == "other") R().Mismatch(act, "after the restart the node has an unexpected set of chainstates");
        else if (started == "adopted" && !hash_ok) R().Mismatch(act, "after the restart the node runs on a snapshot chainstate whose coins do not hash to the commitment");
        else if (started == "adopted" && want != "adopted") R().Mismatch(act, "after the restart the node runs on a snapshot chainstate that was never compared with the commitment (the specification starts " + want + ")");
        else if (final_snap == "validated" && exp["final"].get_str() != "validated") R().Mismatch(act, "background validation blessed a snapshot chainstate the specification does not");
        else {
            if (want == "adopted" && started != "adopted") { R().Count("diverged_conservative"); R().Info(Obj({{"kind", "info"}, {"conservative", act}, {"why", started + ": " + why}})); }
            else if (want != started) R().Count("restart_result_deviations");
            if (dir != exp["dir"].get_bool() || marker != exp["marker"].get_bool()) R().Count("leftover_deviations");
        }
        ++R().tests;
    });
    R().Summary();
    return 0;
}
} // namespace

int main(int argc, char** argv)
{
    if (argc < 3) { std::cerr << "usage: snapshot replay <tests> | snapshot flips <jobs> <classes.json>\n"; return 2; }
    try {
        BuildWorld();
        if (std::string(argv[1]) == "replay") return ReplayTests(argv[2]);
        if (std::string(argv[1]) == "flips" && argc >= 4) return Flips(argv[2], argv[3]);
        if (std::string(argv[1]) == "crash") return CrashTests(argv[2]);
    } catch (const std::exception& e) {
        std::cout << "{\"kind\":\"info\",\"fatal\":\"" << e.what() << "\"}" << std::endl;
        return 3;
    }
    return 2;
}
