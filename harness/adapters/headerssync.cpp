// Adapter for specs/HeadersSync (C33): drives the real HeadersSyncState (src/headerssync.cpp).
//   headerssync replay <behaviours.ndjson>    engine E2: TLC-generated behaviours {init:{w,..}, steps:[{a:["proc",ids,full],r,exp}]}
//   headerssync drive  <seed> <sessions>      engine E3: seeded adversarial peer, one JSON line per call on stdout
//
// A world (see the header of HeadersSync.tla) is realised with real CBlockHeaders:
//   * consensus parameters: a copy of regtest's with fPowAllowMinDifficultyBlocks = false, target spacing 4 s and
//     timespan 4*RI s (=> DifficultyAdjustmentInterval() == RI, a retarget may move the target by a factor 4 either way),
//     powLimit = 2^248.  Difficulty level v  <->  target 2^(248-2v), GetBlockProof = 4^(v+4)-1 (the model's LW(v)).
//   * chain_start: a stand-alone CBlockIndex (as in src/test/fuzz/headerssync.cpp) with nChainWork = startWork.
//   * m_max_commitments: mock time = MTP(start) - MAX_FUTURE_BLOCK_TIME + X makes the constructor compute 6*X/P.
//   * the commitment offset is read from (drive) or written to (replay, like the fuzz target) the protected m_commit_offset.
//   * the salted 1-bit hash of a header is read with the object's own m_hasher; in replay mode a header that differs from
//     the committed one is ground (merkle root) until its bit collides / does not collide as the model chose.
// HeadersSyncState never evaluates a header hash against its target (the caller does, CheckHeadersPoW), so the headers
// carry no ground proof of work here.
#include <vfh.h>

#include <arith_uint256.h>
#include <chain.h>
#include <chainparams.h>
#include <consensus/params.h>
#include <headerssync.h>
#include <pow.h>
#include <primitives/block.h>
#include <test/util/random.h>
#include <test/util/setup_common.h>
#include <uint256.h>
#include <util/chaintype.h>
#include <util/time.h>

#include <cstdio>
#include <map>
#include <random>

using namespace vfh;

namespace {
// ---- read-only access to private bookkeeping the property names ("memory of commitments"), without touching /repo
template <typename Tag, typename Tag::type M> struct Rob { friend typename Tag::type Get(Tag) { return M; } };
struct HasherTag { using type = const SaltedUint256Hasher HeadersSyncState::*; friend type Get(HasherTag); };
template struct Rob<HasherTag, &HeadersSyncState::m_hasher>;
struct CommitsTag { using type = bitdeque<> HeadersSyncState::*; friend type Get(CommitsTag); };
template struct Rob<CommitsTag, &HeadersSyncState::m_header_commitments>;
struct BufferTag { using type = std::deque<CompressedHeader> HeadersSyncState::*; friend type Get(BufferTag); };
template struct Rob<BufferTag, &HeadersSyncState::m_redownloaded_headers>;
struct MaxCTag { using type = uint64_t HeadersSyncState::*; friend type Get(MaxCTag); };
template struct Rob<MaxCTag, &HeadersSyncState::m_max_commitments>;

class HSS : public HeadersSyncState
{
public:
    using HeadersSyncState::HeadersSyncState;
    size_t Off() const { return m_commit_offset; }
    void SetOff(size_t o) { const_cast<size_t&>(m_commit_offset) = o; }
    int Bit(const uint256& hash) const { return (this->*Get(HasherTag{}))(hash) & 1; }
    size_t NCommits() const { return (this->*Get(CommitsTag{})).size(); }
    size_t NBuffer() const { return (this->*Get(BufferTag{})).size(); }
    uint64_t MaxCommits() const { return this->*Get(MaxCTag{}); }
};

constexpr uint32_t T0 = 1600000000;

uint32_t BitsOfLevel(int v) { const arith_uint256 t{arith_uint256(1) << (248 - 2 * v)}; return t.GetCompact(); }

struct WorldParams {
    int P, B, L, K, RI, off; int64_t minWork, maxC, startWork; std::vector<int> pa, pb;
    UniValue json;
    int Level(char c, int h) const { const auto& p = (c == 'A') ? pa : pb; return p.at(h / RI); }
    bool IsHeader(char c, int h) const { return h >= 1 && h <= L && (c == 'A' || h > K); }
    static WorldParams FromJson(const UniValue& j)
    {
        WorldParams w; w.json = j;
        w.P = j["P"].getInt<int>(); w.B = j["B"].getInt<int>(); w.L = j["L"].getInt<int>(); w.K = j["K"].getInt<int>();
        w.RI = j["RI"].getInt<int>(); w.off = j["off"].getInt<int>(); w.minWork = I(j["minWork"]); w.maxC = I(j["maxC"]);
        w.startWork = I(j["startWork"]);
        for (size_t i = 0; i < j["pa"].size(); ++i) w.pa.push_back(j["pa"][i].getInt<int>());
        for (size_t i = 0; i < j["pb"].size(); ++i) w.pb.push_back(j["pb"][i].getInt<int>());
        return w;
    }
    UniValue ToJson() const
    {
        UniValue a(UniValue::VARR), b(UniValue::VARR);
        for (int v : pa) a.push_back(v);
        for (int v : pb) b.push_back(v);
        return Obj({{"P", P}, {"B", B}, {"L", L}, {"K", K}, {"RI", RI}, {"pa", a}, {"pb", b}, {"off", off},
                    {"minWork", minWork}, {"maxC", maxC}, {"startWork", startWork}});
    }
};

UniValue IdJson(char c, int h) { return Obj({{"c", std::string(1, c)}, {"h", h}}); }

// One HeadersSyncState with the header universe of its world.
struct Session {
    WorldParams w;
    Consensus::Params cons;
    CBlockHeader start_header;
    uint256 start_hash;
    std::unique_ptr<CBlockIndex> start;
    std::unique_ptr<HSS> hss;
    struct Built { CBlockHeader hdr; int model_bit{-1}; };
    std::map<std::pair<char, int>, Built> built;
    std::map<uint256, std::pair<char, int>> by_hash;
    uint64_t salt{0};

    // x_seconds: value of (now - MTP(start) + MAX_FUTURE_BLOCK_TIME) the constructor shall see
    Session(const WorldParams& wp, int64_t x_seconds, bool force_offset) : w(wp)
    {
        cons = Params().GetConsensus();
        cons.fPowAllowMinDifficultyBlocks = false;
        cons.fPowNoRetargeting = false;
        cons.nPowTargetSpacing = 4;
        cons.nPowTargetTimespan = 4 * w.RI;
        cons.powLimit = ArithToUint256(arith_uint256(1) << 248);
        if (cons.DifficultyAdjustmentInterval() != w.RI) throw std::runtime_error("retarget interval not realised");
        start_header.nVersion = 4; start_header.hashPrevBlock.SetNull(); start_header.hashMerkleRoot = uint256::ONE;
        start_header.nTime = T0; start_header.nBits = BitsOfLevel(w.Level('A', 0)); start_header.nNonce = 0;
        start_hash = start_header.GetHash();
        start = std::make_unique<CBlockIndex>(start_header);
        start->phashBlock = &start_hash; start->nHeight = 0; start->nChainWork = arith_uint256(uint64_t(w.startWork));
        by_hash[start_hash] = {'A', 0};
        SetMockTime(int64_t{T0} - MAX_FUTURE_BLOCK_TIME + x_seconds);
        hss = std::make_unique<HSS>(/*id=*/0, cons, HeadersSyncParams{.commitment_period = size_t(w.P), .redownload_buffer_size = size_t(w.B)},
                                    *start, arith_uint256(uint64_t(w.minWork)));
        if (force_offset) hss->SetOff(size_t(w.off)); else w.off = int(hss->Off());
    }

    const CBlockHeader& HeaderOf(char c, int h) { return h == 0 ? start_header : built.at({c, h}).hdr; }

    // Builds (c,h) and its ancestors if needed. model_bit >= 0: the model's bit of a header served now; a freshly built
    // header at a commitment height is ground so that its real bit relates to the real bit of the other chain's header
    // of the same height (if that one was served) like the model bits do.
    const CBlockHeader& Build(char c, int h, int model_bit)
    {
        if (h == 0) return start_header;
        auto it = built.find({c, h});
        if (it != built.end()) { if (it->second.model_bit < 0) it->second.model_bit = model_bit; return it->second.hdr; }
        if (!w.IsHeader(c, h)) throw std::runtime_error("header outside the universe");
        const bool fork_child = (c == 'B' && h == w.K + 1);
        const CBlockHeader& parent = Build(fork_child ? 'A' : c, h - 1, -1);
        Built b; b.model_bit = model_bit;
        b.hdr.nVersion = 4; b.hdr.hashPrevBlock = parent.GetHash(); b.hdr.nTime = T0 + h; b.hdr.nBits = BitsOfLevel(w.Level(c, h)); b.hdr.nNonce = 0;
        const auto sib = built.find({c == 'A' ? 'B' : 'A', h});
        const bool constrain = model_bit >= 0 && h % w.P == w.off && sib != built.end() && sib->second.model_bit >= 0;
        for (int tries = 0;; ++tries) {
            b.hdr.hashMerkleRoot = ArithToUint256((arith_uint256(uint64_t(c)) << 64) + (arith_uint256(uint64_t(h)) << 32) + arith_uint256(++salt));
            if (!constrain) break;
            const bool same_real = hss->Bit(b.hdr.GetHash()) == hss->Bit(sib->second.hdr.GetHash());
            if (same_real == (model_bit == sib->second.model_bit)) break;
            if (tries > 200) throw std::runtime_error("cannot realise the commitment bit of a header (salted hasher constant?)");
        }
        by_hash[b.hdr.GetHash()] = {c, h};
        return built.emplace(std::make_pair(c, h), b).first->second.hdr;
    }

    UniValue IdOfHash(const uint256& hash) const
    {
        auto it = by_hash.find(hash);
        return it == by_hash.end() ? IdJson('?', 0) : IdJson(it->second.first, it->second.second);
    }

    static const char* StateName(HeadersSyncState::State s)
    {
        return s == HeadersSyncState::State::PRESYNC ? "PRESYNC" : s == HeadersSyncState::State::REDOWNLOAD ? "REDOWNLOAD" : "FINAL";
    }

    // ProcessNextHeaders(ids, full) -> {succ, more, rel}
    UniValue Process(const std::vector<CBlockHeader>& batch, bool full)
    {
        auto res = hss->ProcessNextHeaders(batch, full);
        UniValue rel(UniValue::VARR);
        for (const auto& rh : res.pow_validated_headers) rel.push_back(IdOfHash(rh.GetHash()));
        return Obj({{"succ", res.success}, {"more", res.request_more}, {"rel", rel}});
    }

    UniValue Project() const
    {
        const auto st = hss->GetState();
        UniValue loc = IdJson('A', 0);
        int64_t pw = 0;
        if (st != HeadersSyncState::State::FINAL) {
            const auto locator = hss->NextHeadersRequestLocator();
            loc = locator.vHave.empty() ? IdJson('?', -1) : IdOfHash(locator.vHave.front());
            // the rest of the locator must be the locator of chain_start
            if (locator.vHave.size() != 2 || locator.vHave.back() != start_hash) loc = IdJson('?', -2);
            const arith_uint256 wk = hss->GetPresyncWork();
            pw = (wk > arith_uint256(uint64_t(1) << 30)) ? -1 : int64_t(wk.GetLow64());
        }
        return Obj({{"w", w.ToJson()}, {"st", StateName(st)}, {"ph", hss->GetPresyncHeight()}, {"pw", pw},
                    {"nc", uint64_t(hss->NCommits())}, {"nb", uint64_t(hss->NBuffer())}, {"loc", loc}});
    }
};

int64_t SecondsForMaxCommits(int64_t maxC, int P)
{
    for (int64_t x = 0; x < 100000; ++x) if (6 * x / P == maxC) return x;
    throw std::runtime_error("m_max_commitments value not realisable with this commitment period");
}

// The implementation ended the sync without handing anything out: always permitted by C33 (SAFE mode).
bool GaveUp(const UniValue& res, const UniValue& have)
{
    return have["st"].get_str() == "FINAL" && res["rel"].size() == 0 && !res["more"].get_bool() &&
           have["nc"].getInt<int>() == 0 && have["nb"].getInt<int>() == 0;
}

// ------------------------------------------------------------------------------------------------ E2 replay
int ReplayBehaviours(const std::string& path)
{
    InstallAbortHandlers();
    ForEachLine(path, [&](size_t n, const UniValue& t) {
        R().cur_test = n; R().cur_step = 0; R().cur_action = UniValue::VNULL;
        std::unique_ptr<Session> s;
        std::string why;
        try {
            const WorldParams wp = WorldParams::FromJson(t["init"]["w"]);
            s = std::make_unique<Session>(wp, SecondsForMaxCommits(wp.maxC, wp.P), /*force_offset=*/true);
            if (int64_t(s->hss->MaxCommits()) > wp.maxC) why = "m_max_commitments " + std::to_string(s->hss->MaxCommits()) + " exceeds 6 blocks/s bound " + std::to_string(wp.maxC);
            const UniValue have0 = s->Project();
            for (const char* k : {"w", "st", "ph", "pw", "nc", "nb", "loc"}) if (why.empty()) why = JsonDiff(t["init"][k], have0[k], std::string("init.") + k);
        } catch (const std::exception& e) { why = std::string("exception while building the world: ") + e.what(); }
        if (!why.empty()) { R().Mismatch(t["init"], why); ++R().tests; return; }
        const UniValue& st = t["steps"];
        for (size_t i = 0; i < st.size(); ++i) {
            const UniValue& a = st[i]["a"];
            R().cur_step = i; R().cur_action = a;
            UniValue res, have;
            try {
                std::vector<CBlockHeader> batch;
                for (size_t k = 0; k < a[1].size(); ++k) batch.push_back(s->Build(a[1][k]["c"].get_str()[0], a[1][k]["h"].getInt<int>(), a[1][k]["b"].getInt<int>()));
                res = s->Process(batch, a[2].get_bool());
                have = s->Project();
            } catch (const std::exception& e) { why = std::string("exception: ") + e.what(); }
            ++R().steps;
            if (why.empty()) why = JsonDiff(st[i]["r"], res, "result");
            // only what the object shows (key "m" of the expected state is the model's own bookkeeping)
            for (const char* k : {"st", "ph", "pw", "nc", "nb", "loc"}) if (why.empty()) why = JsonDiff(st[i]["exp"][k], have[k], std::string("state.") + k);
            if (!why.empty() && have.isObject() && GaveUp(res, have)) {
                // more conservative than the specification: truncate, count, not a violation
                R().Count("diverged_conservative");
                Emit(Obj({{"kind", "conservative"}, {"test", uint64_t(n)}, {"step", uint64_t(i)}, {"why", why}}));
                why.clear();
                break;
            }
            if (!why.empty()) { R().Mismatch(a, why); break; }
            if (res["rel"].size() > 0) R().Count("steps_releasing");
        }
        ++R().tests;
    });
    R().Summary();
    return 0;
}

// ------------------------------------------------------------------------------------------------ E3 driver
int Drive(unsigned seed, int sessions)
{
    std::mt19937 rng(seed);
    auto rnd = [&](int lo, int hi) { return lo + int(rng() % unsigned(hi - lo + 1)); };
    auto LW = [](int v) { int64_t r = 1; for (int i = 0; i < v + 4; ++i) r *= 4; return r - 1; };
    for (int sidx = 0; sidx < sessions; ++sidx) {
        WorldParams w;
        w.P = rnd(2, 5); w.B = rnd(1, 9); w.L = rnd(8, 28); w.K = rnd(0, w.L - 1); w.RI = (rng() % 3 == 0) ? 8 : 4;
        const int epochs = w.L / w.RI + 1;
        // difficulty profiles: a random walk over levels 0..3, now and then an illegal two-level jump
        w.pa.assign(epochs, 1);
        for (int e = 1; e < epochs; ++e) {
            int step = rnd(-1, 1); if (rng() % 10 == 0) step = (rng() % 2) ? 2 : -2;
            w.pa[e] = std::min(3, std::max(0, w.pa[e - 1] + step));
        }
        w.pb = w.pa;
        const int fork_epoch = (w.K + 1) / w.RI;      // epoch of B's first header
        if (fork_epoch < epochs) {
            // B shares A's level in the fork epoch unless it starts exactly on a retarget height; sometimes it does not
            if ((w.K + 1) % w.RI == 0 || rng() % 8 == 0) w.pb[fork_epoch] = std::min(3, std::max(0, w.pa[std::max(0, fork_epoch - 1)] + rnd(-1, 1)));
            for (int e = fork_epoch + 1; e < epochs; ++e) {
                int step = rnd(-1, 1); if (rng() % 10 == 0) step = (rng() % 2) ? 2 : -2;
                w.pb[e] = std::min(3, std::max(0, w.pb[e - 1] + step));
            }
        }
        w.startWork = LW(w.pa[0]);
        // which chain the peer serves in the first and in the second pass
        const char c1 = (rng() % 4 == 0) ? 'B' : 'A';
        const char c2 = (rng() % 5 < 2) ? (c1 == 'A' ? 'B' : 'A') : c1;
        auto chain_of = [&](char cur, int h) { return h <= w.K ? 'A' : cur; };
        // minimum work: reached exactly at a random height of the first-pass chain, or out of reach (low-work peer)
        {
            const int N = rnd(2, w.L);
            int64_t sum = w.startWork;
            for (int h = 1; h <= N; ++h) sum += LW(w.Level(chain_of(c1, h), h));
            w.minWork = sum;
            if (rng() % 8 == 0) { for (int h = N + 1; h <= w.L; ++h) sum += LW(w.Level(chain_of(c1, h), h)); w.minWork = sum + 1; }
        }
        // bound on the commitments: usually generous, sometimes tight
        int64_t x_seconds = 7200;
        if (rng() % 6 == 0) x_seconds = rnd(0, 6);
        w.maxC = 6 * x_seconds / w.P;
        w.off = 0;
        Session s(w, x_seconds, /*force_offset=*/false);    // fills in w.off with the object's random offset
        std::printf("%s\n", Obj({{"e", "Reset"}, {"w", s.w.ToJson()}, {"mc", uint64_t(s.hss->MaxCommits())}}).write().c_str());
        for (char c : {'A', 'B'}) for (int h = 1; h <= w.L; ++h) if (s.w.IsHeader(c, h)) s.Build(c, h, -1);
        int pos = 0; char cur = c1; bool redl = false;
        for (int guard = 0; guard < 80 && s.hss->GetState() != HeadersSyncState::State::FINAL; ++guard) {
            if (!redl && s.hss->GetState() == HeadersSyncState::State::REDOWNLOAD) { redl = true; pos = 0; cur = c2; }
            int n = (rng() % 10 == 0) ? w.L : rnd(1, std::min(w.L, w.B + 3));
            int from = pos + 1;
            const unsigned g = rng() % 40;
            if (g == 0) from += 1;                         // a gap
            else if (g == 1 && pos >= 1) from = pos;       // repeats the last header
            char serve = cur;
            if (g == 2) serve = (cur == 'A') ? 'B' : 'A';  // continues on the other branch
            if (from + n - 1 > w.L) n = w.L - from + 1;
            if (n <= 0) break;                             // the peer has nothing left
            std::vector<CBlockHeader> batch; UniValue ids(UniValue::VARR);
            for (int h = from; h < from + n; ++h) {
                const char c = chain_of(serve, h);
                const CBlockHeader& hd = s.HeaderOf(c, h);
                batch.push_back(hd);
                UniValue id = IdJson(c, h); id.pushKV("b", s.hss->Bit(hd.GetHash()));
                ids.push_back(id);
            }
            const bool full = rng() % 8 != 0;
            UniValue line = Obj({{"e", "Proc"}, {"ids", ids}, {"full", full}});
            const UniValue res = s.Process(batch, full);
            const UniValue have = s.Project();
            for (const char* k : {"succ", "more", "rel"}) line.pushKV(k, res[k]);
            for (const char* k : {"st", "ph", "pw", "nc", "nb", "loc"}) line.pushKV(k, have[k]);
            std::printf("%s\n", line.write().c_str());
            pos = from + n - 1;
            if (g == 2) cur = serve;
        }
    }
    return 0;
}
} // namespace

int main(int argc, char** argv)
{
    if (argc < 3) { std::cerr << "usage: headerssync replay <behaviours.ndjson> | drive <seed> <sessions>\n"; return 2; }
    const std::string mode = argv[1];
    auto setup = MakeNoLogFileContext<const BasicTestingSetup>(ChainType::REGTEST);
    // determinism: the commitment offsets and hasher salts drawn by the HeadersSyncState constructor repeat from run to run
    SeedRandomStateForTest(SeedRand::ZEROS);
    if (mode == "replay") return ReplayBehaviours(argv[2]);
    if (mode == "drive") return Drive(unsigned(std::atoi(argv[2])), argc > 3 ? std::atoi(argv[3]) : 100);
    std::cerr << "unknown mode\n";
    return 2;
}
