// Adapter for specs/CoinsCache (C15): replays model transitions on real CCoinsViewCache stacks over a CCoinsViewDB,
// and (mode "drive") produces a random trace for trace validation.
#include <vfh.h>
#include <coins.h>
#include <txdb.h>
#include <primitives/transaction.h>
#include <script/script.h>
#include <random.h>
#include <util/fs.h>
#include <memory>

using namespace vfh;

namespace {
class CacheT : public CCoinsViewCache {
public:
    explicit CacheT(CCoinsView* base) : CCoinsViewCache(base, /*deterministic=*/true) {}
    CCoinsMap& map() const { return cacheCoins; }
    size_t usage() const { return cachedCoinsUsage; }
};
COutPoint OP(const std::string& s) { return COutPoint(Txid::FromUint256(uint256{static_cast<uint8_t>(s.at(1) - '0')}), 0); }
// distinct coins differ in value, height, coinbase flag and script length so that any field mix-up is visible.
// The scripts are heap allocated (longer than the prevector's inline capacity) and are GROWN IN PLACE inside the coin, so that
// the buffer owns more capacity than it uses - as scripts built with operator<< do. Memory accounting must follow the coin that
// is actually stored (a copy has capacity == size, a moved-from original keeps its excess), see CCoinsViewCache::SanityCheck.
Coin MkCoin(const std::string& c)
{
    const int k = c.at(1) - '0';
    Coin coin;
    coin.out.nValue = 1000 * k + 1; coin.nHeight = 100 + k; coin.fCoinBase = k % 2 == 0;
    coin.out.scriptPubKey << OP_TRUE;
    for (int i = 0; i < k + 2; ++i) coin.out.scriptPubKey << std::vector<unsigned char>(10 * k + 3, (unsigned char)k);   // grows by 1.5x steps
    return coin;
}
std::string CoinName(const Coin& c)
{
    if (c.IsSpent()) return "spent";
    for (int k = 1; k <= 9; ++k) {
        Coin r = MkCoin("c" + std::to_string(k));
        if (r.out == c.out && r.nHeight == c.nHeight && r.fCoinBase == c.fCoinBase) return "c" + std::to_string(k);
    }
    return "garbled";
}

struct World {
    std::unique_ptr<CCoinsViewDB> db;
    std::vector<std::unique_ptr<CacheT>> layers;
    std::vector<std::string> outpoints;
    explicit World(const UniValue& init)
    {
        db = std::make_unique<CCoinsViewDB>(DBParams{.path = "vfh_coins", .cache_bytes = 1 << 20, .memory_only = true}, CoinsViewOptions{});
        {
            CCoinsViewCache tmp(db.get(), true);
            for (const auto& k : init["db"].getKeys()) {
                outpoints.push_back(k);
                const std::string v = init["db"][k].get_str();
                if (v != "nocoin") tmp.AddCoin(OP(k), MkCoin(v), false);
            }
            tmp.SetBestBlock(uint256::ONE);
            tmp.Flush();
        }
        CCoinsView* base = db.get();
        for (size_t i = 0; i < init["cache"].size(); ++i) {
            layers.push_back(std::make_unique<CacheT>(base));
            layers.back()->SetBestBlock(uint256::ONE);
            base = layers.back().get();
        }
    }
    UniValue Apply(const UniValue& a)
    {
        const std::string op = a[0].get_str();
        CacheT& L = *layers.at(a[1].getInt<int>() - 1);
        UniValue res{"none"};
        auto name = [](const std::optional<Coin>& c) { return UniValue{c ? CoinName(*c) : std::string{"nocoin"}}; };
        if (op == "access") { const Coin& c = L.AccessCoin(OP(a[2].get_str())); res = c.IsSpent() ? "nocoin" : CoinName(c); }
        else if (op == "get") { res = name(L.GetCoin(OP(a[2].get_str()))); }
        else if (op == "have") { res = L.HaveCoin(OP(a[2].get_str())) ? "true" : "false"; }
        else if (op == "peek") { res = name(L.PeekCoin(OP(a[2].get_str()))); }
        else if (op == "haveincache") { res = L.HaveCoinInCache(OP(a[2].get_str())) ? "true" : "false"; }
        else if (op == "add") {
            try { L.AddCoin(OP(a[2].get_str()), MkCoin(a[3].get_str()), a[4].get_bool()); res = "ok"; }
            catch (const std::logic_error&) { res = "throw"; }
        }
        else if (op == "spend") {
            Coin moved;
            const std::optional<Coin> before = L.PeekCoin(OP(a[2].get_str()));
            const bool r = L.SpendCoin(OP(a[2].get_str()), &moved);
            // the moved-out coin must be the coin the view held
            if (r && before && CoinName(moved) != CoinName(*before)) throw std::runtime_error("SpendCoin moveout differs from the coin held");
            res = r ? "true" : "false";
        }
        else if (op == "uncache") { L.Uncache(OP(a[2].get_str())); }
        else if (op == "flush") { L.Flush(); }
        else if (op == "sync") { L.Sync(); }
        else if (op == "reset") { { auto g = L.CreateResetGuard(); } L.SetBestBlock(uint256::ONE); }
        else throw std::runtime_error("unknown op " + op);
        for (auto& l : layers) l->SanityCheck();   // asserts dirty count / memory accounting / flag sanity
        return res;
    }
    UniValue Project()
    {
        UniValue d(UniValue::VOBJ);
        for (const auto& k : outpoints) { auto c = db->GetCoin(OP(k)); d.pushKV(k, c ? CoinName(*c) : "nocoin"); }
        UniValue cs(UniValue::VARR);
        for (auto& l : layers) {
            UniValue m(UniValue::VOBJ);
            size_t ndirty = 0;
            for (const auto& k : outpoints) {
                auto it = l->map().find(OP(k));
                std::string coin = "absent"; bool dd = false, ff = false;
                if (it != l->map().end()) { coin = CoinName(it->second.coin); dd = it->second.IsDirty(); ff = it->second.IsFresh(); }
                ndirty += dd;
                m.pushKV(k, Obj({{"coin", coin}, {"dirty", dd}, {"fresh", ff}}));
            }
            if (l->GetDirtyCount() != ndirty) throw std::runtime_error("GetDirtyCount() != number of dirty entries");
            if (l->GetCacheSize() != l->map().size()) throw std::runtime_error("GetCacheSize() != map size");
            cs.push_back(m);
        }
        UniValue vs(UniValue::VARR);
        for (size_t i = 0; i < layers.size(); ++i) {
            bool usable = true;
            for (size_t k = i + 1; k < layers.size(); ++k) usable = usable && layers[k]->map().empty();
            UniValue m(UniValue::VOBJ);
            for (const auto& k : outpoints) {
                if (!usable) { m.pushKV(k, "unusable"); continue; }
                auto c = layers[i]->PeekCoin(OP(k));
                m.pushKV(k, c ? CoinName(*c) : "nocoin");
            }
            vs.push_back(m);
        }
        return Obj({{"db", d}, {"view", vs}, {"cache", cs}});
    }
};
} // namespace

int main(int argc, char** argv)
{
    if (argc < 3) { std::cerr << "usage: coins replay <tests.ndjson>\n"; return 2; }
    const std::string mode = argv[1];
    if (mode == "replay") {
        return ReplayMain<World>(argv[2],
            [](const UniValue& init) { return std::make_unique<World>(init); },
            [](World& w, const UniValue& a) { return w.Apply(a); },
            [](World& w) { return w.Project(); },
            /*internal_keys=*/{"cache"});
    }
    std::cerr << "unknown mode\n";
    return 2;
}
