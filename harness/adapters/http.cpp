// Adapter for specs/Http (C52).
//   http replay <tests.ndjson> <streams.json> direct|socket
//       Every test is one split of one stream of the grammar of Http.tla into socket reads: {init:{sid,..}, steps:[{a:["deliver",from,to],
//       r:{new:[requests dispatched by this read], err:"none"|"400"|"413", closed:bool}}]}; streams.json maps sid -> token list.
//       direct: the fragments are appended to the m_recv_buffer of a real HTTPRemoteClient and HTTPRemoteClient::ReadRequest is called the
//               way HTTPServer::MaybeDispatchRequestsFromClient does (one request per call; 400/413 reply + disconnect on a parse error;
//               a complete request is recorded and answered with WriteReply(200)).
//       socket: end to end through a real HTTPServer (its I/O thread, accept, Recv, MaybeDispatchRequestsFromClient, DisconnectClients)
//               over the socket mock of the unit tests (DynSock); every fragment is one Recv() of the server.
//       Compared after every read: the requests dispatched so far (method, target, version, headers in order, body), the status of an
//       error reply, and whether the server closed the connection.
//   http auth <rows.ndjson>
//       Decision table of HttpAuth.tla: -rpcallowip x method x Authorization header -> connection dropped / HTTP status / RPC executed,
//       end to end through InitHTTPServer + StartHTTPRPC + the socket mock (peer 5.5.5.5).
#include <vfh.h>
#include <common/args.h>
#include <crypto/hmac_sha256.h>
#include <httprpc.h>
#include <httpserver.h>
#include <rpc/register.h>
#include <rpc/server.h>
#include <test/util/net.h>
#include <test/util/setup_common.h>
#include <util/strencodings.h>
#include <util/string.h>
#include <any>
#include <chrono>
#include <map>
#include <mutex>
#include <thread>

using namespace vfh;
using namespace std::chrono_literals;
using http_bitcoin::HTTPRemoteClient;
using http_bitcoin::HTTPRequest;
using http_bitcoin::HTTPServer;

namespace {
std::string TokBytes(const std::string& t)
{
    if (t == "CR") return "\r";
    if (t == "LF") return "\n";
    if (t == "SP") return " ";
    if (t == "HT") return "\t";
    if (t == "NUL") return std::string(1, '\0');
    if (t == "PAD32M") return std::string(33554432, 'a');
    if (t.size() > 3 && t.compare(0, 3, "PAD") == 0) return std::string(std::stoul(t.substr(3)), 'a');
    return t;
}
std::string Expand(const UniValue& toks, size_t from = 0, size_t to = std::string::npos)
{
    std::string s;
    for (size_t i = from; i < std::min(to, toks.size()); ++i) s += TokBytes(toks[i].get_str());
    return s;
}
std::string Show(const std::string& s)
{
    std::string o;
    for (unsigned char c : s.substr(0, 80)) { if (c >= 32 && c < 127) o += c; else o += strprintf("\\x%02x", c); }
    if (s.size() > 80) o += strprintf("...(%u bytes)", s.size());
    return o;
}
const char* MethodName(HTTPRequestMethod m)
{
    switch (m) {
    case HTTPRequestMethod::GET: return "GET";
    case HTTPRequestMethod::POST: return "POST";
    case HTTPRequestMethod::HEAD: return "HEAD";
    case HTTPRequestMethod::PUT: return "PUT";
    case HTTPRequestMethod::UNKNOWN: return "UNKNOWN";
    }
    return "?";
}
// what the property talks about, of one dispatched request
struct Seen {
    std::string method, target, headers, body;
    int major, minor;
};
Seen Capture(const HTTPRequest& r)
{
    return Seen{MethodName(r.m_method), r.m_target, r.m_headers.Stringify(), r.m_body, r.m_version.major, r.m_version.minor};
}
// "" if the dispatched request equals the specification's
std::string CompareRequest(const UniValue& exp, const Seen& have)
{
    if (exp["method"].get_str() != have.method) return "method: expected " + exp["method"].get_str() + " have " + have.method;
    if (Expand(exp["target"]) != have.target) return "target: expected '" + Show(Expand(exp["target"])) + "' have '" + Show(have.target) + "'";
    if (exp["ver"][0].getInt<int>() != have.major || exp["ver"][1].getInt<int>() != have.minor) return strprintf("version: expected %d.%d have %d.%d", exp["ver"][0].getInt<int>(), exp["ver"][1].getInt<int>(), have.major, have.minor);
    std::string hs;
    for (size_t i = 0; i < exp["hdrs"].size(); ++i) hs += Expand(exp["hdrs"][i][0]) + ": " + Expand(exp["hdrs"][i][1]) + "\r\n";
    hs += "\r\n";
    if (hs != have.headers) return "headers: expected '" + Show(hs) + "' have '" + Show(have.headers) + "'";
    const std::string body = Expand(exp["body"]);
    if (body != have.body) return strprintf("body: expected %u bytes '%s' have %u bytes '%s'", body.size(), Show(body), have.body.size(), Show(have.body));
    return "";
}
// status codes of the replies found in what the server sent
std::vector<int> Statuses(const std::string& sent)
{
    std::vector<int> v;
    size_t pos = 0;
    while ((pos = sent.find("HTTP/1.", pos)) != std::string::npos) {
        if (pos + 12 <= sent.size() && (pos == 0 || sent[pos - 1] == '\n' || sent[pos - 1] == 'k')) {   // start of a reply (our reply bodies are "ok")
            v.push_back(std::atoi(sent.substr(pos + 9, 3).c_str()));
        }
        pos += 7;
    }
    return v;
}
std::string ErrOf(const std::string& sent)
{
    for (int s : Statuses(sent)) if (s != 200) return std::to_string(s);
    return "none";
}
std::string Drain(DynSock::Pipe& p, bool* eof = nullptr)
{
    std::string out;
    char buf[0x10000];
    for (;;) {
        ssize_t n = p.GetBytes(buf, sizeof(buf), 0);
        if (n > 0) { out.append(buf, n); continue; }
        if (n == 0 && eof) *eof = true;
        break;
    }
    return out;
}

// ---------------------------------------------------------------- direct transport
struct Direct {
    std::shared_ptr<DynSock::Pipes> pipes{std::make_shared<DynSock::Pipes>()};
    std::shared_ptr<HTTPRemoteClient> client{std::make_shared<HTTPRemoteClient>(0, CService{}, std::make_unique<DynSock>(pipes))};
    std::vector<Seen> seen;
    std::string sent;
    // one socket read of `bytes`, then what the I/O loop does with the client until nothing more can be done
    void Deliver(const std::string& bytes)
    {
        if (client->m_disconnect) return;                 // DisconnectClients() has dropped the connection: nothing is read any more
        client->m_recv_buffer.insert(client->m_recv_buffer.end(), bytes.begin(), bytes.end());
        for (int guard = 0; guard < 64 && !client->m_disconnect; ++guard) {
            // HTTPServer::MaybeDispatchRequestsFromClient
            if (!client->m_req) client->m_req = std::make_unique<HTTPRequest>(client);
            const size_t before = client->m_recv_buffer.size();
            try {
                client->ReadRequest(*client->m_req);
            } catch (const http_bitcoin::ContentTooLargeError&) {
                client->m_req->WriteHeader("Cache-Control", "no-store");
                client->m_req->WriteReply(HTTP_CONTENT_TOO_LARGE);
                client->m_disconnect = true;
                break;
            } catch (const std::runtime_error&) {
                client->m_req->WriteHeader("Cache-Control", "no-store");
                client->m_req->WriteReply(HTTP_BAD_REQUEST);
                client->m_disconnect = true;
                break;
            }
            if (client->m_req->GetState() == HTTPRequest::State::Complete) {
                std::unique_ptr<HTTPRequest> req{std::move(client->m_req)};
                seen.push_back(Capture(*req));
                req->WriteReply(HTTP_OK, "ok");          // the dispatcher's answer (decides keep-alive / close)
                continue;
            }
            if (client->m_recv_buffer.size() == before) break;   // waiting for more data
            break;
        }
        sent += Drain(pipes->send);
    }
    bool Closed() const { return client->m_disconnect; }
};

// ---------------------------------------------------------------- socket transport
bool g_stuck{false};     // the server stopped answering: do not wait for it again in this process
struct Socket {
    SocketTestingSetup& setup;
    Mutex mutex;
    std::vector<Seen> seen GUARDED_BY(mutex);
    int sentinels_seen GUARDED_BY(mutex){0};
    HTTPServer server;
    std::shared_ptr<DynSock::Pipes> pipes;
    std::string sent;
    bool eof{false};
    explicit Socket(SocketTestingSetup& s) : setup(s), server([this](std::unique_ptr<HTTPRequest>&& moved) {
        // dispatcher, runs in the I/O thread: take the request over (as the server's own dispatcher does), record and answer at once
        const std::unique_ptr<HTTPRequest> req{std::move(moved)};
        if (req->m_target == "/__sentinel") { { LOCK(mutex); ++sentinels_seen; } req->WriteReply(HTTP_OK, "ok"); return; }
        { LOCK(mutex); seen.push_back(Capture(*req)); }
        req->WriteReply(HTTP_OK, "ok");
    })
    {
        if (!server.InitHTTPAllowList()) throw std::runtime_error("InitHTTPAllowList failed");
        const CService bind{Lookup("0.0.0.0", 0, false).value()};
        if (!server.BindAndStartListening(bind)) throw std::runtime_error("bind failed");
        server.StartSocketsThreads();
    }
    ~Socket()
    {
        server.InterruptNet();
        server.JoinSocketsThreads();
        server.ClearConnectedClients();
        server.StopListening();
    }
    // One more client that sends a complete request with "Connection: close"; when the server has answered it and closed it (EOF), the
    // I/O loop has finished at least one full pass over all clients since the moment this function was called.
    void Sentinel()
    {
        static const std::string req{"GET /__sentinel HTTP/1.1\r\nConnection: close\r\n\r\n"};
        auto p = setup.ConnectClient(std::as_bytes(std::span(req)));
        char b;
        const auto deadline = std::chrono::steady_clock::now() + 20s;
        while (std::chrono::steady_clock::now() < deadline) {
            if (p->send.GetBytes(&b, 1, MSG_PEEK) == 0) return;   // EOF: replied and disconnected
            if (p->send.GetBytes(&b, 1, 0) < 0) std::this_thread::sleep_for(1ms);
        }
        g_stuck = true;
        throw std::runtime_error("the HTTP server does not answer and close a 'Connection: close' request within 20 s");
    }
    void Deliver(const std::string& bytes)
    {
        if (!eof) {
            if (!pipes) pipes = setup.ConnectClient(std::as_bytes(std::span(bytes)));
            else pipes->recv.PushBytes(bytes.data(), bytes.size());
        }
        // at most three requests are pipelined in a stream of the grammar: one pass of the I/O loop per request, one to spare
        for (int i = 0; i < 5; ++i) Sentinel();
        if (pipes) sent += Drain(pipes->send, &eof);
    }
    bool Closed() const { return eof; }
    std::vector<Seen> SeenCopy() { LOCK(mutex); return seen; }
};

template <typename T>
std::string RunSteps(T& t, const UniValue& toks, const UniValue& steps, const std::function<std::vector<Seen>()>& seen_fn)
{
    size_t compared = 0;
    for (size_t i = 0; i < steps.size(); ++i) {
        const UniValue& a = steps[i]["a"];
        const UniValue& r = steps[i]["r"];
        R().cur_step = i; R().cur_action = a;
        ++R().steps;
        t.Deliver(Expand(toks, a[1].getInt<int>() - 1, a[2].getInt<int>()));
        const std::vector<Seen> seen = seen_fn();
        const UniValue& fresh = r["new"];
        if (seen.size() != compared + fresh.size()) return strprintf("dispatched %u requests so far, expected %u (this read: %u new)", seen.size(), compared + fresh.size(), fresh.size());
        for (size_t k = 0; k < fresh.size(); ++k) {
            std::string d = CompareRequest(fresh[k], seen[compared + k]);
            if (!d.empty()) return strprintf("dispatched request #%u: ", compared + k + 1) + d;
        }
        compared += fresh.size();
        const std::string err = ErrOf(t.sent);
        if (err != r["err"].get_str()) return "error reply: expected " + r["err"].get_str() + " have " + err;
        if (Statuses(t.sent).size() != compared + (err == "none" ? 0 : 1)) return strprintf("%u replies sent for %u dispatched requests", Statuses(t.sent).size(), compared);
        if (t.Closed() != r["closed"].get_bool()) return std::string("connection: expected ") + (r["closed"].get_bool() ? "closed" : "open") + " have " + (t.Closed() ? "closed" : "open");
    }
    return "";
}

int ReplayMode(const std::string& path, const std::string& streams_path, const std::string& transport)
{
    UniValue streams;
    {
        std::ifstream in(streams_path);
        std::string s((std::istreambuf_iterator<char>(in)), std::istreambuf_iterator<char>());
        if (!streams.read(s)) { std::cerr << "bad streams file\n"; return 2; }
    }
    SocketTestingSetup setup;       // -rpcallowip=5.5.5.5 and the mocked CreateSock
    InstallAbortHandlers();
    ForEachLine(path, [&](size_t n, const UniValue& t) {
        R().cur_test = n; R().cur_step = 0; R().cur_action = UniValue::VNULL;
        const UniValue& toks = streams[t["init"]["sid"].get_str()];
        std::string why;
        try {
            if (transport == "direct") {
                Direct d;
                why = RunSteps(d, toks, t["steps"], [&] { return d.seen; });
            } else if (g_stuck) {
                why = "skipped: the HTTP server stopped answering in an earlier test of this run";
            } else {
                Socket s(setup);
                why = RunSteps(s, toks, t["steps"], [&] { return s.SeenCopy(); });
            }
        } catch (const std::exception& e) { why = std::string("exception: ") + e.what(); }
        if (!why.empty()) R().Mismatch(Obj({{"stream", t["init"]["sid"]}, {"read", R().cur_action}}), why);
        ++R().tests;
    });
    R().Summary();
    return 0;
}

// ---------------------------------------------------------------- auth table
std::string HmacHex(const std::string& salt, const std::string& pass)
{
    std::array<unsigned char, CHMAC_SHA256::OUTPUT_SIZE> out;
    CHMAC_SHA256(UCharCast(salt.data()), salt.size()).Write(UCharCast(pass.data()), pass.size()).Finalize(out.data());
    return HexStr(out);
}
int AuthMode(const std::string& path)
{
    SocketTestingSetup setup;
    InstallAbortHandlers();
    gArgs.ForceSetArg("-rpcuser", "vfuser");
    gArgs.ForceSetArg("-rpcpassword", "vfpass");
    gArgs.ForceSetArg("-rpcauth", "alice:73616c74$" + HmacHex("73616c74", "alicepw"));
    gArgs.ForceSetArg("-rpcthreads", "2");
    RegisterAllCoreRPCCommands(tableRPC);
    StartRPC();
    SetRPCWarmupFinished();
    bool rpc_started = false;
    std::string current_allow = "\x01none";
    bool running = false;
    auto stop = [&] { if (running) { http_bitcoin::InterruptHTTPServer(); http_bitcoin::StopHTTPServer(); running = false; } };
    ForEachLine(path, [&](size_t n, const UniValue& row) {
        R().cur_test = n; R().cur_step = 0; R().cur_action = row;
        ++R().steps; ++R().tests;
        std::string why;
        try {
            const std::string allow = row["allow"].get_str();
            if (allow != current_allow) {
                stop();
                gArgs.ForceSetArg("-rpcallowip", allow);
                if (!http_bitcoin::InitHTTPServer()) throw std::runtime_error("InitHTTPServer failed for -rpcallowip=" + allow);
                if (!rpc_started) { if (!StartHTTPRPC(std::any{})) throw std::runtime_error("StartHTTPRPC failed"); rpc_started = true; }
                http_bitcoin::StartHTTPServer();
                running = true; current_allow = allow;
            }
            const UniValue& c = row["cred"];
            const std::string body = R"({"jsonrpc":"2.0","id":7,"method":"uptime","params":[]})";
            std::string req = row["method"].get_str() + " / HTTP/1.1\r\nHost: x\r\nConnection: close\r\n";
            if (c["hdr"].get_bool()) {
                std::string payload = c["user"].get_str() + (c["colon"].get_bool() ? ":" : "") + c["pass"].get_str();
                std::string b64 = EncodeBase64(payload);
                if (!c["b64ok"].get_bool()) b64 = "!" + b64 + "*";
                req += "Authorization: " + c["scheme"].get_str() + b64 + "\r\n";
            }
            req += strprintf("Content-Length: %u\r\n\r\n", body.size()) + body;
            auto pipes = setup.ConnectClient(std::as_bytes(std::span(req)));
            // wait for the end of the connection (reply + close, or dropped without a reply)
            std::string sent; bool eof = false;
            for (int i = 0; i < 30000 && !eof; ++i) {
                sent += Drain(pipes->send, &eof);
                if (!eof) std::this_thread::sleep_for(1ms);
            }
            if (!eof) throw std::runtime_error("harness: the server neither answered nor closed the connection");
            const UniValue& out = row["out"];
            const auto st = Statuses(sent);
            const bool served = !st.empty();
            const bool executed = served && st[0] == 200 && sent.find("\"result\":") != std::string::npos && sent.find("\"result\":null") == std::string::npos;
            if (out["conn"].get_str() == "dropped") {
                if (served) why = strprintf("a client outside the allow list got a reply (status %d)", st[0]);
                // the request must not even have been read
                char buf[16];
                if (why.empty() && pipes->recv.GetBytes(buf, sizeof(buf), MSG_PEEK) <= 0) why = "the server read from a client outside the allow list";
            } else {
                if (!served) why = "no reply for an allowed client";
                else if (st[0] != out["status"].getInt<int>()) why = strprintf("status: expected %d have %d", out["status"].getInt<int>(), st[0]);
                else if (executed != out["executed"].get_bool()) why = std::string("RPC call ") + (executed ? "was executed" : "was not executed");
            }
            if (out["conn"].get_str() == "dropped") R().Count("rows_dropped"); else R().Count("rows_status_" + std::to_string(out["status"].getInt<int>()));
        } catch (const std::exception& e) { why = std::string("exception: ") + e.what(); }
        if (!why.empty()) R().Mismatch(Obj({{"allow", row["allow"]}, {"method", row["method"]}, {"cred", row["cred"]}}), why);
    });
    R().Summary();      // (the verdicts are out before the tear-down)
    std::cout.flush();
    stop();
    if (rpc_started) StopHTTPRPC();
    InterruptRPC();
    StopRPC();
    return 0;
}
} // namespace

int main(int argc, char** argv)
{
    if (argc < 3) { std::cerr << "usage: http replay <tests> <streams.json> direct|socket | http auth <rows>\n"; return 2; }
    const std::string mode = argv[1];
    if (mode == "replay" && argc >= 5) return ReplayMode(argv[2], argv[3], argv[4]);
    if (mode == "auth") return AuthMode(argv[2]);
    std::cerr << "unknown mode\n";
    return 2;
}
