// Adapter for specs/NetAddr (C60).
//   netaddr table  <rows.ndjson>    rows {in, out} printed by NetAddr.tla (engine E4): subnet construction / IsValid / Match, V1 and V2
//                                   (BIP155) encodings of CNetAddr, CService and CAddress, raw wire inputs, ToString -> LookupHost / LookupSubNet
//   netaddr replay <tests.ndjson>   behaviours of BanMan.tla (engine E1) on a real BanMan (ban file in $TMPDIR, mock clock)
// Addresses travel as {net, b:[bytes]}; they are built through the constructors the repository's own tests use (in_addr / in6_addr,
// SetSpecial for Tor / I2P text, MaybeFlipIPv6toCJDNS for CJDNS) and read back through the public predicates and GetAddrBytes().
#include <vfh.h>
#include <addrdb.h>
#include <banman.h>
#include <netaddress.h>
#include <netbase.h>
#include <protocol.h>
#include <streams.h>
#include <util/fs.h>
#include <util/strencodings.h>
#include <util/time.h>
#include <unistd.h>
using namespace vfh;

namespace {
std::vector<uint8_t> BytesOf(const UniValue& b)
{
    std::vector<uint8_t> v;
    for (size_t i = 0; i < b.size(); ++i) v.push_back((uint8_t)b[i].getInt<int>());
    return v;
}
UniValue BytesJson(const std::vector<uint8_t>& v)
{
    UniValue a(UniValue::VARR);
    for (uint8_t x : v) a.push_back((int)x);
    return a;
}
const std::vector<uint8_t> INTERNAL_PREFIX{0xFD, 0x6B, 0x88, 0xC0, 0x87, 0x24};

struct CjdnsReachable {   // RAII: CJDNS addresses only exist (and parse) while the CJDNS network is reachable
    const bool was;
    explicit CjdnsReachable(bool on) : was(g_reachable_nets.Contains(NET_CJDNS)) { Set(on); }
    ~CjdnsReachable() { Set(was); }
    static void Set(bool on) { if (on) g_reachable_nets.Add(NET_CJDNS); else g_reachable_nets.Remove(NET_CJDNS); }
};

CNetAddr From16(const std::vector<uint8_t>& x)
{
    if (x.size() != 16) throw std::runtime_error("need 16 bytes");
    in6_addr a6;
    memcpy(&a6, x.data(), 16);
    return CNetAddr{a6};
}

CNetAddr Build(const UniValue& a)
{
    const std::string net = S(a["net"]);
    const std::vector<uint8_t> b = BytesOf(a["b"]);
    if (net == "ipv4") { if (b.size() != 4) throw std::runtime_error("ipv4 size"); in_addr a4; memcpy(&a4, b.data(), 4); return CNetAddr{a4}; }
    if (net == "ipv6") return From16(b);
    if (net == "internal") { std::vector<uint8_t> x = INTERNAL_PREFIX; x.insert(x.end(), b.begin(), b.end()); return From16(x); }
    if (net == "cjdns") { CjdnsReachable on{true}; return MaybeFlipIPv6toCJDNS(CService{From16(b), 0}); }
    CNetAddr r;
    if (net == "onion") { if (!r.SetSpecial(OnionToString(b))) throw std::runtime_error("cannot build onion address"); return r; }
    if (net == "i2p") { if (!r.SetSpecial(ToLower(EncodeBase32(b, /*pad=*/false)) + ".b32.i2p")) throw std::runtime_error("cannot build i2p address"); return r; }
    throw std::runtime_error("unknown network " + net);
}

// {net, b} of a real address
UniValue Describe(const CNetAddr& a)
{
    std::string net;
    int n = 0;
    for (auto [name, is] : {std::pair<const char*, bool>{"ipv4", a.IsIPv4()}, {"ipv6", a.IsIPv6()}, {"onion", a.IsTor()}, {"i2p", a.IsI2P()},
                            {"cjdns", a.IsCJDNS()}, {"internal", a.IsInternal()}}) {
        if (is) { net = name; ++n; }
    }
    if (n != 1) net = "ambiguous";
    std::vector<uint8_t> b = a.GetAddrBytes();
    if (net == "ipv4" && b.size() == 16) b.erase(b.begin(), b.begin() + 12);
    if (net == "internal" && b.size() == 16) b.erase(b.begin(), b.begin() + 6);
    return Obj({{"net", net}, {"b", BytesJson(b)}});
}

std::string Same(const char* what, const UniValue& exp, const CNetAddr& have)
{
    const UniValue d = Describe(have);
    const std::string diff = JsonDiff(exp, d, what);
    return diff.empty() ? "" : diff + " (implementation: " + d.write() + ")";
}

CSubNet SubnetFromModel(const UniValue& s)   // {valid, net, base, p}
{
    if (!B(s["valid"])) return CSubNet{};
    const std::string net = S(s["net"]);
    const CNetAddr base = Build(Obj({{"net", net}, {"b", s["base"]}}));
    if (net == "ipv4" || net == "ipv6") return CSubNet{base, (uint8_t)s["p"].getInt<int>()};
    return CSubNet{base};
}

template <typename T, typename P>
std::vector<uint8_t> Ser(const P& params, const T& obj) { DataStream s{}; s << params(obj); return {UCharCast(s.data()), UCharCast(s.data()) + s.size()}; }

std::string CheckMatch(const UniValue& in, const UniValue& out)
{
    const CNetAddr a = Build(in["a"]), x = Build(in["x"]);
    const std::string how = S(in["how"]);
    const CSubNet sub = how == "prefix" ? CSubNet{a, (uint8_t)in["p"].getInt<int>()} : how == "mask" ? CSubNet{a, Build(in["m"])} : CSubNet{a};
    if (sub.IsValid() != B(out["valid"])) return std::string("CSubNet::IsValid is ") + (sub.IsValid() ? "true" : "false");
    if (x.IsValid() != B(out["xvalid"])) return std::string("CNetAddr::IsValid of the queried address is ") + (x.IsValid() ? "true" : "false");
    if (sub.Match(x) != B(out["match"])) return std::string("CSubNet::Match is ") + (sub.Match(x) ? "true" : "false") + " for " + sub.ToString() + " / " + x.ToStringAddr();
    if (sub.Match(x) != sub.Match(x)) return "Match is not deterministic";
    // the same subnet written as text ("addr/prefix", "addr/netmask") and parsed by LookupSubNet (CJDNS unreachable: plain IP parsing)
    if (how != "host" && (a.IsIPv4() || a.IsIPv6())) {
        CjdnsReachable off{false};
        const std::string text = a.ToStringAddr() + "/" + (how == "prefix" ? std::to_string(in["p"].getInt<int>()) : Build(in["m"]).ToStringAddr());
        const CSubNet parsed = LookupSubNet(text);
        if (parsed.IsValid() != sub.IsValid()) return "LookupSubNet('" + text + "') validity differs from the constructor's";
        if (parsed.IsValid() && !(parsed == sub)) return "LookupSubNet('" + text + "') = " + parsed.ToString() + ", constructor gives " + sub.ToString();
    }
    if (!sub.IsValid()) return "";
    // the subnet is the normalized (base, prefix length) the specification computes
    const CSubNet want = SubnetFromModel(Obj({{"valid", true}, {"net", in["a"]["net"]}, {"base", out["base"]}, {"p", out["bits"]}}));
    if (!(want == sub)) return "subnet differs from the normalized (base, prefix) of the specification: " + sub.ToString() + " vs " + want.ToString();
    // printing and parsing: with CJDNS unreachable and reachable (fc00::/8 text is read as CJDNS only while it is reachable)
    const std::string text = sub.ToString();
    for (bool reach : {false, true}) {
        CjdnsReachable on{reach};
        const CSubNet parsed = LookupSubNet(text);
        const std::string want_re = S(out["reparse"][reach ? "reach" : "unreach"]);
        std::string have_re;
        if (!parsed.IsValid()) have_re = "invalid";
        else if (parsed == sub) have_re = "same";
        else if (parsed == CSubNet{From16(BytesOf(out["base"]).size() == 16 ? BytesOf(out["base"]) : std::vector<uint8_t>(16, 0))}) have_re = "ipv6host";
        else have_re = "other:" + parsed.ToString();
        if (have_re != want_re) return "LookupSubNet('" + text + "') with CJDNS " + (reach ? "reachable" : "unreachable") + " is '" + have_re + "', specification says '" + want_re + "'";
        if (have_re == "same" && parsed.Match(x) != B(out["match"])) return "re-parsed subnet matches differently";
    }
    return "";
}

std::string CheckSer(const UniValue& in, const UniValue& out)
{
    const CNetAddr a = Build(in["a"]);
    if (a.IsValid() != B(out["valid"])) return std::string("IsValid is ") + (a.IsValid() ? "true" : "false");
    if (S(out["v2"]["res"]) != "addr") return "specification defect: serializing a sample must decode";
    for (int v = 1; v <= 2; ++v) {
        const UniValue& want = v == 1 ? out["v1"] : out["v2"]["a"];
        const std::string tag = "V" + std::to_string(v);
        // bare CNetAddr
        {
            DataStream s{};
            if (v == 1) s << CNetAddr::V1(a); else s << CNetAddr::V2(a);
            if (v == 1 && s.size() != 16) return "V1 encoding is not 16 bytes";
            CNetAddr r;
            if (v == 1) s >> CNetAddr::V1(r); else s >> CNetAddr::V2(r);
            if (!s.empty()) return tag + " decoding left bytes in the stream";
            if (auto d = Same((tag + " CNetAddr round trip").c_str(), want, r); !d.empty()) return d;
        }
        // CService (address + port)
        {
            const CService svc{a, 18444};
            DataStream s{};
            if (v == 1) s << CNetAddr::V1(svc); else s << CNetAddr::V2(svc);
            CService r;
            if (v == 1) s >> CNetAddr::V1(r); else s >> CNetAddr::V2(r);
            if (!s.empty() || r.GetPort() != 18444) return tag + " CService round trip lost the port";
            if (auto d = Same((tag + " CService round trip").c_str(), want, r); !d.empty()) return d;
        }
        // CAddress as sent on the network (time, services, address, port)
        {
            CAddress ca{CService{a, 8333}, ServiceFlags(NODE_NETWORK | NODE_WITNESS)};
            ca.nTime = NodeSeconds{std::chrono::seconds{1700000000}};
            DataStream s{};
            if (v == 1) s << CAddress::V1_NETWORK(ca); else s << CAddress::V2_NETWORK(ca);
            CAddress r;
            if (v == 1) s >> CAddress::V1_NETWORK(r); else s >> CAddress::V2_NETWORK(r);
            if (!s.empty() || r.GetPort() != 8333 || r.nServices != ca.nServices || r.nTime != ca.nTime) return tag + " CAddress round trip lost port, services or time";
            if (auto d = Same((tag + " CAddress round trip").c_str(), want, r); !d.empty()) return d;
        }
    }
    return "";
}

std::string CheckWire(const UniValue& in, const UniValue& out, bool v2)
{
    DataStream s{};
    const std::vector<uint8_t> b = BytesOf(in["b"]);
    if (v2) { s << (uint8_t)in["id"].getInt<int>(); WriteCompactSize(s, b.size()); }
    s.write(MakeByteSpan(b));
    CNetAddr r;
    std::string res = "addr";
    try {
        if (v2) s >> CNetAddr::V2(r); else s >> CNetAddr::V1(r);
    } catch (const std::ios_base::failure&) {
        res = "throw";
    }
    const std::string want = v2 ? S(out["res"]) : "addr";
    if (res != want) return "decoding result is '" + res + "', specification says '" + want + "'";
    if (res == "throw") return "";
    if (!s.empty()) return "decoding left bytes in the stream";
    return Same("decoded address", out["a"], r);
}

std::string CheckStr(const UniValue& in, const UniValue& out)
{
    const CNetAddr a = Build(in["a"]);
    const CSubNet want_subnet = SubnetFromModel(out["subnet"]);
    CjdnsReachable reach{B(in["reach"])};
    const std::string text = a.ToStringAddr();
    const std::optional<CNetAddr> h = LookupHost(text, /*fAllowLookup=*/false);
    if (S(out["host"]["res"]) == "none") {
        if (h) return "LookupHost parsed '" + text + "'";
    } else {
        if (!h) return "LookupHost cannot parse '" + text + "'";
        if (auto d = Same("LookupHost(ToStringAddr())", out["host"]["a"], *h); !d.empty()) return d + " text '" + text + "'";
        if (h->ToStringAddr() != text) return "printing the parsed address gives another text";
    }
    const CSubNet sn = LookupSubNet(text);
    if (sn.IsValid() != B(out["subnet"]["valid"])) return std::string("LookupSubNet('") + text + "') validity is " + (sn.IsValid() ? "true" : "false");
    if (sn.IsValid() && !(sn == want_subnet)) return "LookupSubNet('" + text + "') = " + sn.ToString() + ", specification says " + want_subnet.ToString();
    return "";
}

std::string CheckRow(const UniValue& row)
{
    const UniValue& in = row["in"];
    const UniValue& out = row["out"];
    const std::string kind = S(in["kind"]);
    R().Count("rows_" + kind);
    try {
        if (kind == "match") return CheckMatch(in, out);
        if (kind == "ser") return CheckSer(in, out);
        if (kind == "wire1") return CheckWire(in, out, false);
        if (kind == "wire2") return CheckWire(in, out, true);
        if (kind == "str") return CheckStr(in, out);
    } catch (const std::exception& e) {
        return std::string("exception: ") + e.what();
    }
    return "unknown row kind " + kind;
}

// ---------------------------------------------------------------------------------------------------------------- BanMan
constexpr int64_t BASE_TIME = 1'700'000'000;
const UniValue ONION1 = [] { UniValue b(UniValue::VARR); for (int i = 1; i <= 32; ++i) b.push_back((7 * i) % 256); return Obj({{"net", "onion"}, {"b", b}}); }();

struct World {
    fs::path file;
    std::unique_ptr<BanMan> bm;
    int64_t now{0};
    std::vector<std::string> addr_names, subnet_names;
    std::map<std::string, CNetAddr> addrs;
    std::map<std::string, CSubNet> subnets;
    World()
    {
        static int counter = 0;
        const char* tmp = getenv("TMPDIR");
        if (!tmp) throw std::runtime_error("TMPDIR not set");
        file = fs::PathFromString(tmp) / fs::PathFromString(strprintf("banlist_%d_%d", (int)getpid(), counter++));
        auto ip = [](const char* s) { return LookupHost(s, false).value(); };
        addrs = {{"a4", ip("1.2.3.4")}, {"a5", ip("1.2.3.5")}, {"a9", ip("9.9.9.9")}, {"o1", Build(ONION1)}};
        subnets = {{"net24", LookupSubNet("1.2.3.0/24")}, {"host4", CSubNet{addrs["a4"]}}, {"onion1", CSubNet{addrs["o1"]}}};
        SetMockTime(BASE_TIME);
        Open();
    }
    void Open() { bm = std::make_unique<BanMan>(file, /*client_interface=*/nullptr, /*default_ban_time=*/2); }
    ~World()
    {
        bm.reset();
        std::error_code ec;
        fs::remove(fs::PathFromString(fs::PathToString(file) + ".json"), ec);
        SetMockTime(0);
    }
};

UniValue Apply(World& w, const UniValue& a)
{
    const std::string op = S(a[0]);
    auto ban_args = [&](int64_t& off, bool& abs) { abs = B(a[3]); off = I(a[2]); if (abs) off += BASE_TIME; };
    if (op == "ban_subnet") { int64_t off; bool abs; ban_args(off, abs); w.bm->Ban(w.subnets.at(S(a[1])), off, abs); return UniValue("none"); }
    if (op == "ban_addr") { int64_t off; bool abs; ban_args(off, abs); w.bm->Ban(w.addrs.at(S(a[1])), off, abs); return UniValue("none"); }
    // compared: lifting a ban that is in force reports success
    if (op == "unban_subnet") { const bool f = w.bm->IsBanned(w.subnets.at(S(a[1]))); const bool r = w.bm->Unban(w.subnets.at(S(a[1]))); return Obj({{"in_force", f}, {"ok", r || !f}}); }
    if (op == "unban_addr") { const bool f = w.bm->IsBanned(CSubNet{w.addrs.at(S(a[1]))}); const bool r = w.bm->Unban(w.addrs.at(S(a[1]))); return Obj({{"in_force", f}, {"ok", r || !f}}); }
    if (op == "isbanned_addr") return UniValue(w.bm->IsBanned(w.addrs.at(S(a[1]))));
    if (op == "isbanned_subnet") return UniValue(w.bm->IsBanned(w.subnets.at(S(a[1]))));
    if (op == "isdiscouraged") return UniValue(w.bm->IsDiscouraged(w.addrs.at(S(a[1]))));
    if (op == "discourage") { w.bm->Discourage(w.addrs.at(S(a[1]))); return UniValue("none"); }
    if (op == "clear") { w.bm->ClearBanned(); return UniValue("none"); }
    if (op == "tick") { ++w.now; SetMockTime(BASE_TIME + w.now); return UniValue("none"); }
    if (op == "restart") { w.bm.reset(); w.Open(); return UniValue("none"); }
    if (op == "getbanned") {
        banmap_t m;
        w.bm->GetBanned(m);
        // compared: the unexpired entries with their expiry; nothing older than now may be listed (an entry expiring this very second is left out)
        UniValue listed(UniValue::VOBJ);
        size_t known = 0;
        int64_t stale = 0;
        for (const std::string& n : w.subnet_names) {
            auto it = m.find(w.subnets.at(n));
            const int64_t until = it == m.end() ? 0 : it->second.nBanUntil - BASE_TIME;
            listed.pushKV(n, until > w.now ? until : (int64_t)0);
            if (it != m.end()) { ++known; if (until < w.now) ++stale; }
        }
        if (known != m.size()) stale += 1000;   // entries for subnets nobody banned
        return Obj({{"listed", listed}, {"stale", stale}});
    }
    throw std::runtime_error("unknown action " + op);
}

UniValue Project(World& w)
{
    UniValue ba(UniValue::VOBJ), bs(UniValue::VOBJ), d(UniValue::VOBJ);
    for (const std::string& n : w.addr_names) { ba.pushKV(n, w.bm->IsBanned(w.addrs.at(n))); d.pushKV(n, w.bm->IsDiscouraged(w.addrs.at(n))); }
    for (const std::string& n : w.subnet_names) bs.pushKV(n, w.bm->IsBanned(w.subnets.at(n)));
    return Obj({{"banned_addr", ba}, {"banned_subnet", bs}, {"disc", d}, {"now", w.now}});
}

std::unique_ptr<World> Make(const UniValue& init)
{
    auto w = std::make_unique<World>();
    w->addr_names = init["banned_addr"].getKeys();
    w->subnet_names = init["banned_subnet"].getKeys();
    if (I(init["now"]) != 0) throw std::runtime_error("behaviours start at time 0");
    return w;
}
} // namespace

int main(int argc, char** argv)
{
    if (argc < 3) { std::cerr << "usage: netaddr table|replay <file>\n"; return 2; }
    const std::string mode = argv[1];
    if (mode == "table") return TableMain(argv[2], CheckRow);
    if (mode == "replay") return ReplayMain<World>(argv[2], Make, Apply, Project);
    return 2;
}
