// Adapter for specs/WalletSpend (C41, C56) and specs/WalletBalance (C44): a real descriptor CWallet attached through interfaces::Chain
// to an in-process regtest node (chainsim: real ChainstateManager + CTxMemPool, hand-built blocks).
//   walletnode script  <behaviours.ndjson> [seed]   C41 / C56: executes TLC-generated scenario scripts (coin table, lock / mine / create /
//                                              bump ...) and prints one {"kind":"trace",...} line per call with the call's arguments, facts
//                                              about the wallet's outputs taken from the NODE (utxo set, mempool), the wallet's coin list
//                                              (AvailableCoins) and the result
//   walletnode balance <behaviours.ndjson>     C44: replays chain / mempool behaviours, prints after every step the node's active chain and
//                                              mempool, the wallet's transaction set, GetBalance() and AvailableCoins()
// The wallet never broadcasts itself (the chainsim node has no PeerManager): the adapter submits committed transactions to the mempool
// through ChainstateManager::ProcessTransaction and the wallet learns about them from the validation interface like any other client.
#include <chainsim.h>
#include <addresstype.h>
#include <interfaces/chain.h>
#include <interfaces/handler.h>
#include <key_io.h>
#include <outputtype.h>
#include <policy/feerate.h>
#include <policy/policy.h>
#include <script/solver.h>
#include <util/moneystr.h>
#include <util/translation.h>
#include <wallet/coincontrol.h>
#include <wallet/feebumper.h>
#include <wallet/fees.h>
#include <wallet/receive.h>
#include <wallet/spend.h>
#include <wallet/test/util.h>
#include <wallet/wallet.h>
#include <deque>
#include <functional>
using namespace vfh;
using namespace wallet;

namespace {

constexpr int64_t GENESIS_TIME = 1296688602;      // regtest genesis block

OutputType TypeOf(const std::string& s)
{
    if (s == "legacy") return OutputType::LEGACY;
    if (s == "p2sh") return OutputType::P2SH_SEGWIT;
    if (s == "bech32") return OutputType::BECH32;
    if (s == "bech32m") return OutputType::BECH32M;
    throw std::runtime_error("unknown output type " + s);
}

std::string ScriptKind(const CScript& spk)
{
    std::vector<std::vector<unsigned char>> sol;
    switch (Solver(spk, sol)) {
    case TxoutType::PUBKEY: return "p2pk";
    case TxoutType::PUBKEYHASH: return "legacy";
    case TxoutType::SCRIPTHASH: return "p2sh";
    case TxoutType::WITNESS_V0_KEYHASH: return "bech32";
    case TxoutType::WITNESS_V0_SCRIPTHASH: return "p2wsh";
    case TxoutType::WITNESS_V1_TAPROOT: return "bech32m";
    case TxoutType::NULL_DATA: return "nulldata";
    case TxoutType::NONSTANDARD: return "nonstd";
    default: return "other";
    }
}

struct WTx {                      // a transaction the adapter knows about (short name for the logs)
    std::string name;
    CTransactionRef tx;
    std::optional<unsigned int> change_pos;          // as reported by CreateTransaction (wallet-created transactions only)
    CAmount fee{-1};
    bool wallet_created{false};
    bool foreign_inputs{false};
    std::string replaced_by;                          // name of the replacement the adapter committed through the fee bumper
};

// ------------------------------------------------------------------------------------------------------------------ world
struct World {
    std::unique_ptr<ChainSim> sim;
    std::shared_ptr<CWallet> wallet;
    std::unique_ptr<interfaces::Handler> handler;
    std::deque<std::pair<COutPoint, CTxOut>> faucet;         // mature P2PK coinbases of the node's key ("others")
    std::map<Txid, std::string> names;                        // txid -> short name
    std::map<std::string, WTx> txs;
    std::map<std::string, COutPoint> coin_ids;                // model coin id -> real outpoint
    std::vector<std::string> created;                         // names of committed wallet-created transactions, in order
    std::set<COutPoint> locked;                               // the adapter's own record of LockCoin calls
    int ntx{0};
    uint64_t rng;

    uint64_t Rand(uint64_t n) { rng = rng * 6364136223846793005ULL + 1442695040888963407ULL; return (rng >> 33) % n; }

    explicit World(uint64_t seed, const std::vector<std::string>& args = {}) : rng(seed * 2654435761ULL + 12345)
    {
        SetMockTime(GENESIS_TIME);                            // the wallet's birth time must not be later than the blocks it has to scan
        SimOptions o; o.args = args;
        sim = MakeSim(o);
        wallet = std::make_shared<CWallet>(sim->m_node.chain.get(), "", CreateMockableWalletDatabase());
        {
            LOCK(wallet->cs_wallet);
            wallet->m_keypool_size = 12;
            wallet->SetWalletFlag(WALLET_FLAG_DESCRIPTORS);
            wallet->SetupDescriptorScriptPubKeyMans();
            wallet->SetLastBlockProcessed(0, Params().GenesisBlock().GetHash());
        }
        wallet->SetBroadcastTransactions(false);
        handler = sim->m_node.chain->handleNotifications(wallet);
        SetMockTime(GENESIS_TIME + 3600);
        // faucet: coinbases of the node's own key; the first ones are mature once 100 more blocks exist
        auto cbs = sim->MineBase(130);
        for (int i = 0; i < 30; ++i) faucet.emplace_back(COutPoint(cbs[i]->GetHash(), 0), cbs[i]->vout[0]);
        Sync();
    }
    ~World()
    {
        Sync();
        handler.reset();
        wallet.reset();
    }

    void Sync() { sim->m_node.validation_signals->SyncWithValidationInterfaceQueue(); }
    CTxMemPool& pool() { return *sim->m_node.mempool; }
    int Height() { return sim->Tip()->nHeight; }

    std::string Name(const CTransactionRef& tx, const std::string& hint = "t")
    {
        auto it = names.find(tx->GetHash());
        if (it != names.end()) return it->second;
        std::string n = hint + std::to_string(++ntx);
        names[tx->GetHash()] = n;
        WTx w; w.name = n; w.tx = tx;
        txs[n] = w;
        return n;
    }
    std::string OpName(const COutPoint& op)
    {
        auto it = names.find(op.hash);
        return (it != names.end() ? it->second : std::string("?") + op.hash.ToString().substr(0, 8)) + ":" + std::to_string(op.n);
    }

    // ---- blocks
    std::shared_ptr<CBlock> BuildBlock(const std::vector<CTxOut>& cb_outs, const std::vector<CTransactionRef>& block_txs, const uint256* prev_hash = nullptr, int64_t nonce = 0)
    {
        CBlockIndex* prev = prev_hash ? sim->Lookup(*prev_hash) : sim->Tip();
        auto b = std::make_shared<CBlock>();
        b->nVersion = 0x20000000; b->hashPrevBlock = prev->GetBlockHash(); b->nTime = prev->GetBlockTime() + 1; b->nBits = Params().GenesisBlock().nBits;
        CMutableTransaction cb;
        cb.vin.resize(1); cb.vin[0].prevout.SetNull();
        cb.vin[0].scriptSig = CScript() << (prev->nHeight + 1) << CScriptNum(2000 + nonce);
        cb.vin[0].scriptWitness.stack = {std::vector<unsigned char>(32, 0x00)};
        cb.vout = cb_outs;
        if (cb.vout.empty()) cb.vout.emplace_back(0, sim->coinbaseSpk);
        b->vtx.push_back(MakeTransactionRef(cb));
        for (const auto& t : block_txs) b->vtx.push_back(t);
        // BIP141 commitment (always present: harmless for blocks without witnesses)
        uint256 root = BlockWitnessMerkleRoot(*b);
        uint256 commit;
        CHash256().Write(root).Write(cb.vin[0].scriptWitness.stack[0]).Finalize(commit);
        CTxOut out; out.nValue = 0;
        out.scriptPubKey.resize(38);
        out.scriptPubKey[0] = OP_RETURN; out.scriptPubKey[1] = 0x24; out.scriptPubKey[2] = 0xaa; out.scriptPubKey[3] = 0x21; out.scriptPubKey[4] = 0xa9; out.scriptPubKey[5] = 0xed;
        memcpy(&out.scriptPubKey[6], commit.begin(), 32);
        cb.vout.push_back(out);
        b->vtx[0] = MakeTransactionRef(cb);
        b->hashMerkleRoot = BlockMerkleRoot(*b);
        sim->Solve(*b);
        return b;
    }
    // mempool content in an order in which it can be put into a block
    std::vector<CTransactionRef> PoolTxsTopological()
    {
        std::vector<CTransactionRef> all;
        for (const auto& info : pool().infoAll()) all.push_back(info.tx);
        std::vector<CTransactionRef> out; std::set<Txid> placed, inpool;
        for (const auto& t : all) inpool.insert(t->GetHash());
        while (out.size() < all.size()) {
            bool progress = false;
            for (const auto& t : all) {
                if (placed.count(t->GetHash())) continue;
                bool ready = true;
                for (const auto& in : t->vin) if (inpool.count(in.prevout.hash) && !placed.count(in.prevout.hash)) ready = false;
                if (ready) { out.push_back(t); placed.insert(t->GetHash()); progress = true; }
            }
            if (!progress) throw std::runtime_error("mempool is not topologically sortable");
        }
        return out;
    }
    // connects a block on the active tip; returns its coinbase
    CTransactionRef Mine(const std::vector<CTxOut>& cb_outs, const std::vector<CTransactionRef>& block_txs)
    {
        auto b = BuildBlock(cb_outs, block_txs);
        auto [ok, nb] = sim->SubmitBlock(b, true);
        if (!ok || sim->Tip()->GetBlockHash() != b->GetHash()) throw std::runtime_error("adapter block was not connected: " + sim->Reason(b->GetHash()));
        return b->vtx[0];
    }
    void MineEmpty(int n) { for (int i = 0; i < n; ++i) Mine({}, {}); }
    void MinePool(int n) { for (int i = 0; i < n; ++i) Mine({}, i == 0 ? PoolTxsTopological() : std::vector<CTransactionRef>{}); }

    // ---- the others' money
    // a transaction of the node's key paying `outs` (change goes back to the faucet key, never to the wallet)
    CTransactionRef FaucetTx(const std::vector<CTxOut>& outs, CAmount fee = 5000)
    {
        if (faucet.empty()) throw std::runtime_error("faucet exhausted");
        auto [op, prev] = faucet.front(); faucet.pop_front();
        CMutableTransaction m;
        m.vin.emplace_back(op, CScript{}, CTxIn::MAX_SEQUENCE_NONFINAL);
        CAmount sum = 0;
        for (const auto& o : outs) { m.vout.push_back(o); sum += o.nValue; }
        m.vout.emplace_back(prev.nValue - sum - fee, sim->coinbaseSpk);
        sim->SignP2PK(m, 0, prev);
        return MakeTransactionRef(m);
    }
    MempoolAcceptResult Submit(const CTransactionRef& tx, bool test_only = false)
    {
        LOCK(cs_main);
        return sim->cm().ProcessTransaction(tx, test_only);
    }
    void MustSubmit(const CTransactionRef& tx, const char* what)
    {
        auto r = Submit(tx);
        if (r.m_result_type != MempoolAcceptResult::ResultType::VALID) throw std::runtime_error(std::string(what) + ": mempool rejected: " + r.m_state.ToString());
    }
    // CWallet::AddToSpends releases the user's lock on every coin a transaction added to the wallet spends
    void SpentByWalletTx(const CTransactionRef& tx) { for (const auto& in : tx->vin) locked.erase(in.prevout); }
    CScript NewWalletScript(const std::string& type)
    {
        auto d = wallet->GetNewDestination(TypeOf(type), "");
        if (!d) throw std::runtime_error("GetNewDestination failed: " + util::ErrorString(d).original);
        return GetScriptForDestination(*d);
    }
};

// ------------------------------------------------------------------------------------------------------------------ facts
// Everything the specification needs to decide which outputs are spendable, taken from the node (chain, utxo set, mempool) and from the
// adapter's own bookkeeping (locks); ownership of a script is the wallet's IsMine (script management is not what is being checked here).
UniValue Facts(World& w)
{
    UniValue txs(UniValue::VOBJ), coins(UniValue::VARR);
    std::set<Txid> done;
    std::vector<Txid> todo;
    LOCK(w.wallet->cs_wallet);
    std::vector<std::pair<std::string, UniValue>> coin_rows;
    for (const auto& [op, txo] : w.wallet->GetTXOs()) {
        const CWalletTx& wtx = txo.GetWalletTx();
        const std::string tn = w.Name(wtx.GetTx(), "t");
        todo.push_back(op.hash);
        bool in_chain = false, in_pool = false;
        {
            LOCK(cs_main);
            in_chain = w.sim->cm().ActiveChainstate().CoinsTip().HaveCoin(op);
        }
        in_pool = w.pool().exists(op.hash);
        const bool spent_pool = w.pool().isSpent(op);
        UniValue c(UniValue::VOBJ);
        c.pushKV("id", tn + ":" + std::to_string(op.n));
        c.pushKV("tx", tn);
        c.pushKV("v", (int64_t)txo.GetTxOut().nValue);
        c.pushKV("type", ScriptKind(txo.GetTxOut().scriptPubKey));
        c.pushKV("exists", in_chain || in_pool);           // created by the active chain (and not spent there) or by a mempool transaction
        c.pushKV("poolspent", spent_pool);
        c.pushKV("locked", w.locked.count(op) > 0);
        coin_rows.emplace_back(tn + ":" + std::to_string(op.n), c);
    }
    std::sort(coin_rows.begin(), coin_rows.end(), [](const auto& a, const auto& b) { return a.first < b.first; });
    for (auto& [k, c] : coin_rows) coins.push_back(c);
    // transactions: those with wallet outputs and their unconfirmed ancestors
    std::map<std::string, UniValue> tx_rows;
    while (!todo.empty()) {
        Txid id = todo.back(); todo.pop_back();
        if (!done.insert(id).second) continue;
        CTransactionRef tx;
        const CWalletTx* wtx = w.wallet->GetWalletTx(id);
        if (wtx) tx = wtx->GetTx(); else tx = w.pool().get(id);
        if (!tx) continue;
        const std::string tn = w.Name(tx, "t");
        int depth = 0;
        {
            LOCK(cs_main);
            // confirmation depth from the node: look the transaction's first unspent output up, fall back to the wallet's block hash
            if (wtx) {
                if (auto* conf = wtx->state<TxStateConfirmed>()) {
                    const CBlockIndex* pi = w.sim->cm().m_blockman.LookupBlockIndex(conf->confirmed_block_hash);
                    if (pi && w.sim->cm().ActiveChain().Contains(*pi)) depth = w.sim->cm().ActiveChain().Height() - pi->nHeight + 1;
                }
            }
        }
        const bool in_pool = w.pool().exists(id);
        UniValue t(UniValue::VOBJ);
        t.pushKV("depth", depth);
        t.pushKV("pool", in_pool);
        t.pushKV("cb", tx->IsCoinBase());
        t.pushKV("replaces", wtx ? wtx->m_replaces_txid.has_value() : false);
        t.pushKV("replaced", wtx ? wtx->m_replaced_by_txid.has_value() : false);
        UniValue ins(UniValue::VARR);
        if (!tx->IsCoinBase() && depth == 0) {
            for (const auto& in : tx->vin) {
                UniValue i(UniValue::VOBJ);
                bool mine = false; std::string pn = "-";
                const CWalletTx* parent = w.wallet->GetWalletTx(in.prevout.hash);
                if (parent && in.prevout.n < parent->GetTx()->vout.size()) {
                    mine = w.wallet->IsMine(parent->GetTx()->vout[in.prevout.n]);
                    pn = w.Name(parent->GetTx(), "t");
                    todo.push_back(in.prevout.hash);
                }
                i.pushKV("mine", mine); i.pushKV("tx", pn);
                ins.push_back(i);
            }
        }
        t.pushKV("ins", ins);
        tx_rows[tn] = t;
    }
    for (auto& [k, t] : tx_rows) txs.pushKV(k, t);
    UniValue f(UniValue::VOBJ);
    f.pushKV("txs", txs); f.pushKV("coins", coins);
    f.pushKV("height", w.Height());
    return f;
}

UniValue NodeParams(World& w)
{
    UniValue n(UniValue::VOBJ);
    n.pushKV("minrelay", (int64_t)w.pool().m_opts.min_relay_feerate.GetFeePerK());
    n.pushKV("poolmin", (int64_t)w.pool().GetMinFee().GetFeePerK());
    n.pushKV("incr", (int64_t)w.pool().m_opts.incremental_relay_feerate.GetFeePerK());
    n.pushKV("dustrate", (int64_t)w.pool().m_opts.dust_relay_feerate.GetFeePerK());
    UniValue wl(UniValue::VOBJ);
    wl.pushKV("maxfee", (int64_t)w.wallet->m_default_max_tx_fee);
    wl.pushKV("minfee", (int64_t)w.wallet->m_min_fee.GetFeePerK());
    wl.pushKV("fallback", (int64_t)w.wallet->m_fallback_fee.GetFeePerK());
    wl.pushKV("spendzc", w.wallet->m_spend_zero_conf_change);
    n.pushKV("wallet", wl);
    return n;
}

// ------------------------------------------------------------------------------------------------------------------ setup
// Realises the coin table of a behaviour: {id, type, kind, vc, locked}. kind: cbm (coinbase, depth 101+), cb100, cb99, cb1 (coinbase at
// that depth), conf6 / conf1 (payment from the others at that depth), uo (unconfirmed payment from the others), us (unconfirmed output of
// a transaction of the wallet itself, all inputs confirmed and ours).
int DepthOf(const std::string& kind)
{
    if (kind == "cbm") return 101;
    if (kind == "cb100") return 100;
    if (kind == "cb99") return 99;
    if (kind == "cb1") return 1;
    if (kind == "conf6") return 6;
    if (kind == "conf1" || kind == "us") return 1;          // "us": the coin the self-spend consumes is confirmed at depth 1
    if (kind == "uo") return 0;
    throw std::runtime_error("unknown coin kind " + kind);
}
CAmount ValueOf(World& w, const std::string& vc)
{
    if (vc == "tiny") return 1500 + w.Rand(500);
    if (vc == "small") return 30000 + w.Rand(5000);
    if (vc == "mid") return 600000 + w.Rand(50000);
    if (vc == "large") return 20000000 + w.Rand(100000);
    if (vc == "huge") return 100000000 + w.Rand(100000);
    throw std::runtime_error("unknown value class " + vc);
}

void Setup(World& w, const UniValue& init)
{
    const UniValue& coins = init["coins"];
    if (init.exists("wallet")) {
        const UniValue& o = init["wallet"];
        if (o.exists("maxfee")) w.wallet->m_default_max_tx_fee = o["maxfee"].getInt<int64_t>();
        if (o.exists("fallback")) { w.wallet->m_fallback_fee = CFeeRate(o["fallback"].getInt<int64_t>()); w.wallet->m_allow_fallback_fee = o["fallback"].getInt<int64_t>() != 0; }   // as -fallbackfee does
        if (o.exists("spendzc")) w.wallet->m_spend_zero_conf_change = o["spendzc"].get_bool();
        if (o.exists("minfee")) w.wallet->m_min_fee = CFeeRate(o["minfee"].getInt<int64_t>());
    }
    struct Want { std::string id, type, kind, vc; bool locked; int depth; CScript spk; CAmount v; };
    std::vector<Want> want;
    int maxd = 0;
    for (size_t i = 0; i < coins.size(); ++i) {
        const UniValue& c = coins[i];
        Want x{c["id"].get_str(), c["type"].get_str(), c["kind"].get_str(), c["vc"].get_str(), c["locked"].get_bool(), 0, {}, 0};
        x.depth = DepthOf(x.kind); x.v = ValueOf(w, x.vc); x.spk = w.NewWalletScript(x.type);
        if (x.kind == "us") x.v += 2000;                       // the self-spend pays its fee out of it
        maxd = std::max(maxd, x.depth);
        want.push_back(x);
    }
    std::map<std::string, COutPoint> temp;                      // "us": the confirmed coin that the wallet's own transaction will spend
    for (int d = maxd; d >= 1; --d) {
        std::vector<CTxOut> cb_outs; std::vector<std::string> cb_ids;
        std::vector<CTransactionRef> btxs;
        for (auto& x : want) {
            if (x.depth != d) continue;
            if (x.kind.rfind("cb", 0) == 0) { cb_outs.emplace_back(x.v, x.spk); cb_ids.push_back(x.id); }
            else {
                auto tx = w.FaucetTx({CTxOut(x.v, x.spk)});
                w.Name(tx, "f");
                btxs.push_back(tx);
                (x.kind == "us" ? temp : w.coin_ids)[x.id] = COutPoint(tx->GetHash(), 0);
            }
        }
        auto cb = w.Mine(cb_outs, btxs);
        if (!cb_ids.empty()) { w.Name(cb, "cb"); for (size_t k = 0; k < cb_ids.size(); ++k) w.coin_ids[cb_ids[k]] = COutPoint(cb->GetHash(), k); }
    }
    w.Sync();
    for (auto& x : want) {
        if (x.kind == "uo") {
            auto tx = w.FaucetTx({CTxOut(x.v, x.spk)});
            w.Name(tx, "f");
            w.MustSubmit(tx, "setup uo");
            w.coin_ids[x.id] = COutPoint(tx->GetHash(), 0);
        } else if (x.kind == "us") {
            // the wallet sends the whole temporary coin to a fresh address of its own, the fee is taken from the amount: one output, no change
            CCoinControl cc; cc.m_allow_other_inputs = false; cc.Select(temp.at(x.id));
            cc.m_feerate = CFeeRate(2000); cc.fOverrideFeeRate = true;
            CRecipient r{*Assert(w.wallet->GetNewDestination(TypeOf(x.type), "")), x.v, true};
            auto res = CreateTransaction(*w.wallet, {r}, std::nullopt, cc);
            if (!res) throw std::runtime_error("setup us: " + util::ErrorString(res).original);
            if (res->tx->vout.size() != 1) throw std::runtime_error("setup us: unexpected change");
            w.wallet->CommitTransaction(res->tx);
            w.SpentByWalletTx(res->tx);
            w.Name(res->tx, "s");
            w.MustSubmit(res->tx, "setup us");
            w.coin_ids[x.id] = COutPoint(res->tx->GetHash(), 0);
        }
    }
    w.Sync();
    for (auto& x : want) {
        if (!x.locked) continue;
        LOCK(w.wallet->cs_wallet);
        w.wallet->LockCoin(w.coin_ids.at(x.id), /*persist=*/false);
        w.locked.insert(w.coin_ids.at(x.id));
    }
}

// ------------------------------------------------------------------------------------------------------------------ create
struct RecipientSpec { CRecipient r; std::string kind; bool standard; CAmount dust; };

CTxDestination DestOf(World& w, const std::string& kind, bool& standard)
{
    standard = true;
    if (kind == "self_bech32") return *Assert(w.wallet->GetNewDestination(OutputType::BECH32, ""));
    if (kind == "self_legacy") return *Assert(w.wallet->GetNewDestination(OutputType::LEGACY, ""));
    if (kind == "self_bech32m") return *Assert(w.wallet->GetNewDestination(OutputType::BECH32M, ""));
    if (kind == "faucet") return PubKeyDestination{w.sim->coinbaseKey.GetPubKey()};      // P2PK of the others' key (they can spend it)
    CKey k; std::array<unsigned char, 32> raw{}; raw[31] = 1 + w.Rand(200); raw[0] = 7; k.Set(raw.begin(), raw.end(), true);
    const CPubKey pk = k.GetPubKey();
    if (kind == "ext_legacy") return PKHash(pk);
    if (kind == "ext_bech32") return WitnessV0KeyHash(pk);
    if (kind == "ext_p2sh") return ScriptHash(GetScriptForDestination(WitnessV0KeyHash(pk)));
    if (kind == "ext_p2wsh") return WitnessV0ScriptHash(GetScriptForRawPubKey(pk));
    if (kind == "ext_bech32m") return WitnessV1Taproot(XOnlyPubKey(pk));
    if (kind == "nulldata") return CNoDestination(CScript() << OP_RETURN << std::vector<unsigned char>(20, 0x42));
    if (kind == "nonstd") { standard = false; return CNoDestination(CScript() << OP_1 << OP_ADD << OP_2 << OP_EQUAL); }
    throw std::runtime_error("unknown recipient kind " + kind);
}

// spendable value as the adapter sees it (only used to turn "a fraction of the funds" into an amount; never part of a verdict)
CAmount RoughFunds(World& w)
{
    LOCK(w.wallet->cs_wallet);
    CCoinControl cc;
    return AvailableCoins(*w.wallet, &cc).GetTotalAmount();
}

UniValue TxJson(World& w, const CTransaction& tx)
{
    UniValue ins(UniValue::VARR), outs(UniValue::VARR);
    for (const auto& in : tx.vin) ins.push_back(w.OpName(in.prevout));
    for (const auto& o : tx.vout) {
        UniValue j(UniValue::VOBJ);
        j.pushKV("v", (int64_t)o.nValue);
        j.pushKV("mine", WITH_LOCK(w.wallet->cs_wallet, return w.wallet->IsMine(o)));
        j.pushKV("spk", HexStr(o.scriptPubKey));
        outs.push_back(j);
    }
    UniValue t(UniValue::VOBJ);
    t.pushKV("ins", ins); t.pushKV("outs", outs);
    return t;
}

// sum of the values of a transaction's inputs as the node knows them (utxo set + mempool); -1 if one is unknown
CAmount InputValue(World& w, const CTransaction& tx)
{
    std::map<COutPoint, Coin> coins;
    for (const auto& in : tx.vin) coins[in.prevout];
    w.sim->m_node.chain->findCoins(coins);
    CAmount s = 0;
    for (const auto& in : tx.vin) { if (coins[in.prevout].out.IsNull()) return -1; s += coins[in.prevout].out.nValue; }
    return s;
}

UniValue DoCreate(World& w, const UniValue& a, UniValue& line)
{
    // ---- coin control
    CCoinControl cc;
    UniValue jcc(UniValue::VOBJ);
    std::vector<COutPoint> presets; UniValue jpre(UniValue::VARR), jext(UniValue::VARR);
    std::vector<std::pair<COutPoint, CTxOut>> ext;
    for (size_t i = 0; a.exists("preset") && i < a["preset"].size(); ++i) {
        auto it = w.coin_ids.find(a["preset"][i].get_str());
        if (it == w.coin_ids.end()) continue;
        presets.push_back(it->second); jpre.push_back(w.OpName(it->second));
    }
    const int next = a.exists("ext") ? a["ext"].getInt<int>() : 0;
    for (int i = 0; i < next; ++i) {
        // an output of the others, confirmed, of moderate value: the caller supplies it explicitly (and can sign for it)
        auto tx = w.FaucetTx({CTxOut(5000000 + w.Rand(1000), w.sim->coinbaseSpk)});
        w.Name(tx, "x");
        w.Mine({}, {tx});
        ext.emplace_back(COutPoint(tx->GetHash(), 0), tx->vout[0]);
        jext.push_back(w.OpName(ext.back().first));
    }
    if (next) w.Sync();
    const std::string via = a.exists("via") ? a["via"].get_str() : "create";
    cc.m_allow_other_inputs = a.exists("other") ? a["other"].get_bool() : true;
    cc.m_include_unsafe_inputs = a.exists("unsafe") ? a["unsafe"].get_bool() : false;
    cc.m_min_depth = a.exists("mindepth") ? a["mindepth"].getInt<int>() : 0;
    int64_t feerate = -1; bool override_rate = false;
    if (a.exists("feerate") && a["feerate"].getInt<int64_t>() >= 0) {
        feerate = a["feerate"].getInt<int64_t>();
        cc.m_feerate = CFeeRate(feerate);
        override_rate = a.exists("override") ? a["override"].get_bool() : false;
        cc.fOverrideFeeRate = override_rate;
    }
    if (a.exists("changetype") && !a["changetype"].get_str().empty()) cc.m_change_type = TypeOf(a["changetype"].get_str());
    std::string custom_change;
    if (a.exists("changedest") && a["changedest"].get_bool()) {
        cc.destChange = *Assert(w.wallet->GetNewDestination(OutputType::BECH32, ""));
        custom_change = HexStr(GetScriptForDestination(cc.destChange));
    }
    std::optional<unsigned int> change_pos;
    if (a.exists("changepos") && a["changepos"].getInt<int>() >= 0) change_pos = a["changepos"].getInt<int>();
    if (via == "create") { for (const auto& op : presets) cc.Select(op); }
    jcc.pushKV("feerate", feerate); jcc.pushKV("override", override_rate); jcc.pushKV("preset", jpre); jcc.pushKV("ext", jext);
    jcc.pushKV("other", cc.m_allow_other_inputs); jcc.pushKV("unsafe", cc.m_include_unsafe_inputs); jcc.pushKV("mindepth", cc.m_min_depth);
    jcc.pushKV("changetype", a.exists("changetype") ? a["changetype"].get_str() : ""); jcc.pushKV("customchange", custom_change);
    jcc.pushKV("changepos", change_pos ? (int)*change_pos : -1);

    // ---- recipients
    CAmount preset_sum = 0;
    {
        LOCK(w.wallet->cs_wallet);
        for (const auto& op : presets) if (auto txo = w.wallet->GetTXO(op)) preset_sum += txo->GetTxOut().nValue;
    }
    for (const auto& e : ext) preset_sum += e.second.nValue;
    const CAmount funds = RoughFunds(w);
    std::vector<CRecipient> recips; UniValue jrec(UniValue::VARR);
    const CFeeRate dust_rate = w.pool().m_opts.dust_relay_feerate;
    for (size_t i = 0; i < a["recips"].size(); ++i) {
        const UniValue& r = a["recips"][i];
        bool standard = true;
        CTxDestination dest = DestOf(w, r["to"].get_str(), standard);
        const CScript spk = GetScriptForDestination(dest);
        const CAmount dust = GetDustThreshold(CTxOut(0, spk), dust_rate);
        const std::string mode = r["amt"][0].get_str();
        const int64_t arg = r["amt"][1].getInt<int64_t>();
        CAmount v = 0;
        if (mode == "abs") v = arg;
        else if (mode == "dust") v = dust + arg;                                  // arg = -1, 0, +1 ...
        else if (mode == "pct") v = std::max<CAmount>(1000, funds / 100 * arg / (CAmount)a["recips"].size());
        else if (mode == "preset") v = std::max<CAmount>(0, (preset_sum - arg) / (CAmount)a["recips"].size());     // whole preset value minus arg
        else throw std::runtime_error("unknown amount mode " + mode);
        if (r["to"].get_str() == "nulldata") v = 0;
        recips.push_back(CRecipient{dest, v, r["sffo"].get_bool()});
        UniValue j(UniValue::VOBJ);
        j.pushKV("v", (int64_t)v); j.pushKV("sffo", r["sffo"].get_bool()); j.pushKV("kind", r["to"].get_str());
        j.pushKV("std", standard); j.pushKV("dust", (int64_t)dust); j.pushKV("spk", HexStr(spk));
        jrec.push_back(j);
    }
    UniValue args(UniValue::VOBJ);
    args.pushKV("recips", jrec); args.pushKV("cc", jcc); args.pushKV("via", via);
    line.pushKV("args", args);

    // ---- what the node knows, and the wallet's coin list for this coin control
    line.pushKV("node", NodeParams(w));
    line.pushKV("facts", Facts(w));
    {
        LOCK(w.wallet->cs_wallet);
        CCoinControl cc2 = cc;
        if (via == "fund") for (const auto& op : presets) cc2.Select(op);
        UniValue av(UniValue::VARR);
        std::vector<std::string> ids;
        for (const auto& c : AvailableCoins(*w.wallet, &cc2).All()) ids.push_back(w.OpName(c.outpoint));
        std::sort(ids.begin(), ids.end());
        for (const auto& s : ids) av.push_back(s);
        line.pushKV("avail", av);
    }

    // ---- the call
    auto call = [&]() -> util::Result<CreatedTransactionResult> {
        if (via == "create") return CreateTransaction(*w.wallet, recips, change_pos, cc, /*sign=*/true);
        CMutableTransaction m;
        for (const auto& op : presets) m.vin.emplace_back(op, CScript{}, CTxIn::MAX_SEQUENCE_NONFINAL - 1);
        for (const auto& e : ext) m.vin.emplace_back(e.first, CScript{}, CTxIn::MAX_SEQUENCE_NONFINAL - 1);
        cc.m_external_provider.pubkeys[w.sim->coinbaseKey.GetPubKey().GetID()] = w.sim->coinbaseKey.GetPubKey();
        return FundTransaction(*w.wallet, m, recips, change_pos, a.exists("lockunspents") && a["lockunspents"].get_bool(), cc);
    };
    auto res = call();
    UniValue r(UniValue::VOBJ);
    r.pushKV("ok", bool(res));
    if (!res) {
        const std::string err = util::ErrorString(res).original;
        r.pushKV("err", err);
        r.pushKV("bug", err.find("nternal bug") != std::string::npos);     // STR_INTERNAL_BUG: one of the wallet's own consistency checks fired
        return r;
    }
    CMutableTransaction mtx(*res->tx);
    bool complete = true;
    if (via == "fund") {
        std::map<COutPoint, Coin> coins;
        for (const auto& in : mtx.vin) coins[in.prevout];
        w.sim->m_node.chain->findCoins(coins);
        std::map<int, bilingual_str> errs;
        w.wallet->SignTransaction(mtx, coins, SIGHASH_DEFAULT, errs);
        for (size_t i = 0; i < mtx.vin.size(); ++i) for (const auto& e : ext) if (mtx.vin[i].prevout == e.first) w.sim->SignP2PK(mtx, i, e.second);
        // complete iff every input verifies; the mempool verdict below says so
        if (a.exists("lockunspents") && a["lockunspents"].get_bool()) for (const auto& in : mtx.vin) w.locked.insert(in.prevout);
    }
    CTransactionRef tx = MakeTransactionRef(mtx);
    const std::string tn = w.Name(tx, "w");
    w.txs[tn].change_pos = res->change_pos; w.txs[tn].fee = res->fee; w.txs[tn].wallet_created = true; w.txs[tn].foreign_inputs = !ext.empty();
    r.pushKV("tx", tn);
    r.pushKV("fee", (int64_t)res->fee);
    r.pushKV("changepos", res->change_pos ? (int)*res->change_pos : -1);
    UniValue t = TxJson(w, *tx);
    r.pushKV("ins", t["ins"]); r.pushKV("outs", t["outs"]);
    r.pushKV("vsize", (int64_t)GetVirtualTransactionSize(*tx));
    r.pushKV("weight", (int64_t)GetTransactionWeight(*tx));
    r.pushKV("invalue", (int64_t)InputValue(w, *tx));
    r.pushKV("version", (int64_t)tx->version);
    auto acc = w.Submit(tx, /*test_only=*/true);
    UniValue ja(UniValue::VOBJ);
    ja.pushKV("ok", acc.m_result_type == MempoolAcceptResult::ResultType::VALID);
    ja.pushKV("why", acc.m_state.IsValid() ? "" : acc.m_state.GetRejectReason());
    ja.pushKV("dbg", acc.m_state.IsValid() ? "" : acc.m_state.GetDebugMessage());
    r.pushKV("accept", ja);
    if (a.exists("commit") && a["commit"].get_bool() && acc.m_result_type == MempoolAcceptResult::ResultType::VALID) {
        if (ext.empty()) w.wallet->CommitTransaction(tx);      // CWallet::CommitTransaction requires every input to be a wallet transaction
        w.MustSubmit(tx, "commit");
        w.SpentByWalletTx(tx);
        w.Sync();
        w.created.push_back(tn);
        r.pushKV("committed", true);
    } else {
        r.pushKV("committed", false);
    }
    return r;
}

// ------------------------------------------------------------------------------------------------------------------ bump
// what "the wallet is unchanged" means here: its transactions with their states and replacement marks, the locked coins, the balances
std::string WalletDigest(World& w)
{
    LOCK(w.wallet->cs_wallet);
    std::vector<std::string> rows;
    for (const auto& [id, wtx] : w.wallet->mapWallet) {
        std::string st = wtx.isConfirmed() ? "conf" : wtx.InMempool() ? "pool" : wtx.isAbandoned() ? "aband" : wtx.isBlockConflicted() ? "confl" : "inactive";
        rows.push_back(id.ToString().substr(0, 16) + ":" + st + ":" + (wtx.m_replaced_by_txid ? wtx.m_replaced_by_txid->ToString().substr(0, 8) : "-") + ":" +
                       (wtx.m_replaces_txid ? wtx.m_replaces_txid->ToString().substr(0, 8) : "-"));
    }
    std::sort(rows.begin(), rows.end());
    std::vector<COutPoint> locked; w.wallet->ListLockedCoins(locked);
    std::sort(locked.begin(), locked.end());
    for (const auto& l : locked) rows.push_back("L" + l.ToString());
    const Balance b = GetBalance(*w.wallet);
    rows.push_back(strprintf("B%d/%d/%d", b.m_mine_trusted, b.m_mine_untrusted_pending, b.m_mine_immature));
    HashWriter h;
    for (const auto& r : rows) h << r;
    return h.GetSHA256().ToString().substr(0, 16);
}

UniValue DoBump(World& w, const UniValue& a, UniValue& line)
{
    const size_t k = a["tx"].getInt<int>();
    UniValue r(UniValue::VOBJ);
    if (k < 1 || k > w.created.size()) { line.pushKV("skipped", "no such transaction"); r.pushKV("ok", false); r.pushKV("skipped", true); return r; }
    WTx& orig = w.txs.at(w.created[k - 1]);
    const Txid txid = orig.tx->GetHash();
    // ---- facts about the original, from the node and the adapter's records
    const CAmount orig_in = [&] { CAmount s = 0; for (const auto& in : orig.tx->vin) { auto it = w.txs.find(w.names.count(in.prevout.hash) ? w.names[in.prevout.hash] : ""); if (it == w.txs.end() || in.prevout.n >= it->second.tx->vout.size()) return CAmount{-1}; s += it->second.tx->vout[in.prevout.n].nValue; } return s; }();
    CAmount orig_out = 0; for (const auto& o : orig.tx->vout) orig_out += o.nValue;
    const CAmount orig_fee = orig_in < 0 ? -1 : orig_in - orig_out;
    const int64_t orig_vsize = GetVirtualTransactionSize(*orig.tx);
    int depth = 0; bool inputs_gone = false; bool allmine = true;
    {
        LOCK(cs_main);
        for (int h = w.sim->cm().ActiveChain().Height(); h > 0 && depth == 0; --h) {       // confirmation depth by looking the transaction up in the chain
            CBlock blk; if (!w.sim->cm().m_blockman.ReadBlock(blk, *w.sim->cm().ActiveChain()[h])) break;
            for (const auto& t : blk.vtx) if (t->GetHash() == txid) depth = w.sim->cm().ActiveChain().Height() - h + 1;
            if (w.sim->cm().ActiveChain().Height() - h > 12) break;
        }
        for (const auto& in : orig.tx->vin) if (!w.sim->cm().ActiveChainstate().CoinsTip().HaveCoin(in.prevout) && !w.pool().exists(in.prevout.hash)) inputs_gone = true;
    }
    {
        LOCK(w.wallet->cs_wallet);
        for (const auto& in : orig.tx->vin) if (!w.wallet->IsMine(in.prevout)) allmine = false;
    }
    // a wallet transaction spending an output of the original - unless that spender is dead: neither confirmed nor in the mempool, and it or
    // one of its unconfirmed ancestors outside the mempool has an input that a mempool or chain transaction spends (judged from the node)
    std::function<bool(const CTransactionRef&, int)> dead = [&](const CTransactionRef& x, int fuel) -> bool {
        if (w.pool().exists(x->GetHash())) return false;
        {
            LOCK(cs_main);
            for (size_t i = 0; i < x->vout.size(); ++i) if (w.sim->cm().ActiveChainstate().CoinsTip().HaveCoin(COutPoint(x->GetHash(), i))) return false;   // confirmed
        }
        for (const auto& in : x->vin) {
            if (w.pool().isSpent(in.prevout)) return true;                                   // a mempool transaction (not x) spends it
            const bool in_utxo = WITH_LOCK(cs_main, return w.sim->cm().ActiveChainstate().CoinsTip().HaveCoin(in.prevout));
            const bool parent_in_pool = w.pool().exists(in.prevout.hash);
            auto it = w.names.find(in.prevout.hash);
            if (!in_utxo && !parent_in_pool) {
                // the parent is unconfirmed and outside the mempool (then its fate decides), or the output was spent by the chain
                if (it != w.names.end() && fuel > 0 && w.txs.count(it->second)) {
                    const auto& p = w.txs.at(it->second).tx;
                    bool parent_confirmed = false;
                    { LOCK(cs_main); for (size_t i = 0; i < p->vout.size(); ++i) if (w.sim->cm().ActiveChainstate().CoinsTip().HaveCoin(COutPoint(p->GetHash(), i))) parent_confirmed = true; }
                    if (parent_confirmed) return true;                                       // spent by a confirmed transaction
                    if (dead(p, fuel - 1)) return true;
                } else {
                    return true;
                }
            }
        }
        return false;
    };
    bool walletdesc = false;
    {
        LOCK(w.wallet->cs_wallet);
        for (const auto& [n, t] : w.txs) {
            if (t.tx->GetHash() == txid || !w.wallet->GetWalletTx(t.tx->GetHash())) continue;
            bool spends = false;
            for (const auto& in : t.tx->vin) if (in.prevout.hash == txid) spends = true;
            if (spends && !dead(t.tx, 6)) walletdesc = true;
        }
    }
    UniValue jo = TxJson(w, *orig.tx);
    UniValue o(UniValue::VOBJ);
    o.pushKV("tx", orig.name); o.pushKV("ins", jo["ins"]); o.pushKV("outs", jo["outs"]);
    o.pushKV("changepos", orig.change_pos ? (int)*orig.change_pos : -1);
    o.pushKV("fee", (int64_t)orig_fee); o.pushKV("vsize", orig_vsize); o.pushKV("weight", (int64_t)GetTransactionWeight(*orig.tx));
    o.pushKV("depth", depth); o.pushKV("pool", w.pool().exists(txid)); o.pushKV("inputsgone", inputs_gone && depth == 0);
    o.pushKV("replaced", !orig.replaced_by.empty()); o.pushKV("walletdesc", walletdesc); o.pushKV("pooldesc", w.pool().HasDescendants(txid));
    o.pushKV("allmine", allmine);
    line.pushKV("orig", o);
    line.pushKV("node", NodeParams(w));

    // ---- arguments
    CCoinControl cc;
    int64_t feerate = -1;
    const std::string fmode = a["feerate"][0].get_str();
    if (fmode == "rel") feerate = (orig_fee < 0 ? 1000 : orig_fee * 1000 / orig_vsize) + a["feerate"][1].getInt<int64_t>();
    else if (fmode == "abs") feerate = a["feerate"][1].getInt<int64_t>();
    if (feerate >= 0) cc.m_feerate = CFeeRate(feerate);
    std::vector<CTxOut> outputs; UniValue jouts(UniValue::VARR);
    const std::string omode = a["outputs"].get_str();
    if (omode == "half") {
        for (size_t i = 0; i < orig.tx->vout.size(); ++i) if (!orig.change_pos || *orig.change_pos != i) outputs.emplace_back(std::max<CAmount>(orig.tx->vout[i].nValue / 2, 1000), orig.tx->vout[i].scriptPubKey);
    } else if (omode == "other") {
        bool st; outputs.emplace_back(std::max<CAmount>((orig_out - (orig.change_pos ? orig.tx->vout[*orig.change_pos].nValue : 0)) / 3, 1000), GetScriptForDestination(DestOf(w, "ext_bech32", st)));
    }
    for (const auto& x : outputs) { UniValue j(UniValue::VOBJ); j.pushKV("v", (int64_t)x.nValue); j.pushKV("spk", HexStr(x.scriptPubKey)); jouts.push_back(j); }
    std::optional<uint32_t> change_idx;
    if (a["changeidx"].get_bool()) change_idx = orig.change_pos ? *orig.change_pos : 0;
    const bool require_mine = a["requiremine"].get_bool();
    UniValue args(UniValue::VOBJ);
    args.pushKV("feerate", feerate); args.pushKV("outputs", jouts); args.pushKV("changeidx", change_idx ? (int)*change_idx : -1); args.pushKV("requiremine", require_mine);
    line.pushKV("args", args);

    // ---- the calls
    const std::string before = WalletDigest(w);
    const size_t pool_before = w.pool().size();
    std::vector<bilingual_str> errors;
    CAmount old_fee{0}, new_fee{0};
    CMutableTransaction mtx;
    const feebumper::Result res = feebumper::CreateRateBumpTransaction(*w.wallet, txid, cc, errors, old_fee, new_fee, mtx, require_mine, outputs, change_idx);
    r.pushKV("ok", res == feebumper::Result::OK);
    r.pushKV("code", (int)res);
    std::string errs; for (const auto& e : errors) errs += e.original + "; ";
    r.pushKV("err", errs);
    r.pushKV("bug", errs.find("nternal bug") != std::string::npos);
    if (res != feebumper::Result::OK) {
        r.pushKV("unchanged", before == WalletDigest(w) && pool_before == w.pool().size());
        return r;
    }
    bool signed_ok = feebumper::SignTransaction(*w.wallet, mtx);
    if (!allmine) {
        // inputs of the others: the caller signs them himself
        std::map<COutPoint, Coin> coins;
        for (const auto& in : mtx.vin) coins[in.prevout];
        w.sim->m_node.chain->findCoins(coins);
        std::map<int, bilingual_str> ierr;
        w.wallet->SignTransaction(mtx, coins, SIGHASH_DEFAULT, ierr);
        LOCK(w.wallet->cs_wallet);
        for (size_t i = 0; i < mtx.vin.size(); ++i) if (!w.wallet->IsMine(mtx.vin[i].prevout) && coins[mtx.vin[i].prevout].out.scriptPubKey == w.sim->coinbaseSpk) w.sim->SignP2PK(mtx, i, coins[mtx.vin[i].prevout].out);
    }
    CTransactionRef ntx = MakeTransactionRef(mtx);
    const std::string nn = w.Name(ntx, "b");
    UniValue jn = TxJson(w, *ntx);
    UniValue nw(UniValue::VOBJ);
    nw.pushKV("tx", nn); nw.pushKV("ins", jn["ins"]); nw.pushKV("outs", jn["outs"]);
    nw.pushKV("vsize", (int64_t)GetVirtualTransactionSize(*ntx)); nw.pushKV("weight", (int64_t)GetTransactionWeight(*ntx)); nw.pushKV("invalue", (int64_t)InputValue(w, *ntx));
    r.pushKV("new", nw);
    r.pushKV("oldfee", (int64_t)old_fee); r.pushKV("newfee", (int64_t)new_fee); r.pushKV("signed", signed_ok);
    auto acc = w.Submit(ntx, /*test_only=*/true);
    UniValue ja(UniValue::VOBJ);
    ja.pushKV("ok", acc.m_result_type == MempoolAcceptResult::ResultType::VALID);
    ja.pushKV("why", acc.m_state.IsValid() ? "" : acc.m_state.GetRejectReason());
    ja.pushKV("dbg", acc.m_state.IsValid() ? "" : acc.m_state.GetDebugMessage());
    r.pushKV("accept", ja);
    bool committed = false;
    if (a["commit"].get_bool() && allmine) {
        Txid bumped;
        CMutableTransaction m2(*ntx);
        const feebumper::Result cres = feebumper::CommitTransaction(*w.wallet, txid, std::move(m2), errors, bumped);
        r.pushKV("commitcode", (int)cres);
        if (cres == feebumper::Result::OK) {
            committed = true;
            w.SpentByWalletTx(ntx);
            orig.replaced_by = nn;
            w.txs[nn].wallet_created = true; w.txs[nn].fee = new_fee;
            auto sub = w.Submit(ntx);
            w.Sync();
            r.pushKV("submitted", sub.m_result_type == MempoolAcceptResult::ResultType::VALID);
            r.pushKV("poolnew", w.pool().exists(ntx->GetHash()));
            r.pushKV("poolorig", w.pool().exists(txid));
            // the replacement takes the original's place in the list of bumpable transactions as well
            {
                // find the change position of the replacement: the output that is the wallet's and not one of the original's payments
                std::optional<unsigned int> cp;
                LOCK(w.wallet->cs_wallet);
                for (size_t i = 0; i < ntx->vout.size(); ++i) if (OutputIsChange(*w.wallet, ntx->vout[i])) cp = i;
                w.txs[nn].change_pos = cp;
            }
            w.created.push_back(nn);
        }
    }
    r.pushKV("committed", committed);
    return r;
}

UniValue DoRespend(World& w, const UniValue& a)
{
    UniValue r(UniValue::VOBJ);
    const size_t k = a.getInt<int>();
    if (k < 1 || k > w.created.size()) { r.pushKV("skipped", true); return r; }
    const WTx& t = w.txs.at(w.created[k - 1]);
    for (size_t i = 0; i < t.tx->vout.size(); ++i) {
        if (t.tx->vout[i].scriptPubKey != w.sim->coinbaseSpk || t.tx->vout[i].nValue < 2000) continue;
        if (w.pool().isSpent(COutPoint(t.tx->GetHash(), i))) continue;
        CMutableTransaction m;
        m.vin.emplace_back(COutPoint(t.tx->GetHash(), i), CScript{}, CTxIn::MAX_SEQUENCE_NONFINAL);
        m.vout.emplace_back(t.tx->vout[i].nValue - 1000, w.sim->coinbaseSpk);
        w.sim->SignP2PK(m, 0, t.tx->vout[i]);
        auto tx = MakeTransactionRef(m);
        auto res = w.Submit(tx);
        w.Sync();
        r.pushKV("tx", w.Name(tx, "d")); r.pushKV("parent", t.name);
        r.pushKV("ok", res.m_result_type == MempoolAcceptResult::ResultType::VALID);
        return r;
    }
    r.pushKV("skipped", true);
    return r;
}

// the wallet itself spends the change of its k-th committed transaction (and commits): a descendant in the wallet
UniValue DoChildOf(World& w, const UniValue& a, bool submit)
{
    UniValue r(UniValue::VOBJ);
    const size_t k = a.getInt<int>();
    if (k < 1 || k > w.created.size()) { r.pushKV("skipped", true); return r; }
    const WTx& t = w.txs.at(w.created[k - 1]);
    if (!t.change_pos || w.pool().isSpent(COutPoint(t.tx->GetHash(), *t.change_pos)) || !w.pool().exists(t.tx->GetHash())) { r.pushKV("skipped", true); return r; }
    CCoinControl cc; cc.m_allow_other_inputs = false; cc.Select(COutPoint(t.tx->GetHash(), *t.change_pos));
    cc.m_feerate = CFeeRate(3000); cc.m_include_unsafe_inputs = true;
    bool st;
    CRecipient rc{DestOf(w, "ext_bech32", st), t.tx->vout[*t.change_pos].nValue, true};
    auto res = CreateTransaction(*w.wallet, {rc}, std::nullopt, cc);
    if (!res) { r.pushKV("skipped", true); r.pushKV("err", util::ErrorString(res).original); return r; }
    auto acc = w.Submit(res->tx, true);
    if (acc.m_result_type != MempoolAcceptResult::ResultType::VALID) { r.pushKV("skipped", true); r.pushKV("err", acc.m_state.GetRejectReason()); return r; }
    w.wallet->CommitTransaction(res->tx);
    w.SpentByWalletTx(res->tx);
    if (submit) w.MustSubmit(res->tx, "childof");        // otherwise the child exists in the wallet only (a broadcast that did not happen yet)
    w.Sync();
    r.pushKV("tx", w.Name(res->tx, "k")); r.pushKV("parent", t.name); r.pushKV("ok", true); r.pushKV("submitted", submit);
    return r;
}

// ------------------------------------------------------------------------------------------------------------------ script mode
void RunScript(size_t n, const UniValue& t, uint64_t seed)
{
    R().cur_test = n;
    World w(seed * 1000003 + n);
    const UniValue& steps = t["steps"];
    Setup(w, t["init"]);
    for (size_t i = 0; i < steps.size(); ++i) {
        const UniValue& a = steps[i]["a"];
        R().cur_step = i; R().cur_action = a;
        const std::string op = a[0].get_str();
        UniValue line(UniValue::VOBJ);
        line.pushKV("kind", "trace"); line.pushKV("test", (uint64_t)n); line.pushKV("step", (uint64_t)i); line.pushKV("e", op);
        if (op == "create") {
            UniValue r = DoCreate(w, a[1], line);
            line.pushKV("res", r);
        } else if (op == "lock" || op == "unlock") {
            auto it = w.coin_ids.find(a[1].get_str());
            if (it != w.coin_ids.end()) {
                LOCK(w.wallet->cs_wallet);
                if (op == "lock") { w.wallet->LockCoin(it->second, false); w.locked.insert(it->second); }
                else { w.wallet->UnlockCoin(it->second); w.locked.erase(it->second); }
            }
        } else if (op == "bump") {
            UniValue r = DoBump(w, a[1], line);
            line.pushKV("res", r);
        } else if (op == "respend") {
            line.pushKV("res", DoRespend(w, a[1]));
        } else if (op == "childof") {
            line.pushKV("res", DoChildOf(w, a[1], a.size() < 3 || a[2].get_bool()));
        } else if (op == "mine") {
            w.MinePool(a[1].getInt<int>());
            w.Sync();
        } else {
            throw std::runtime_error("unknown script action " + op);
        }
        ++R().steps;
        Emit(line);
    }
    ++R().tests;
}

// ------------------------------------------------------------------------------------------------------------------ balance mode (C44)
// Replays behaviours of specs/WalletBalance: a fixed universe of transactions over three confirmed outputs of the others, blocks built by
// the behaviour (coinbase to the wallet or not, a bulk of 100 empty blocks), invalidate / reconsider, abandon. After every step the
// adapter prints the node's active chain and mempool and the wallet's view: GetBalance(), AvailableCoins(), its transactions.
constexpr CAmount UNIT = 100000;         // one value unit of the model in satoshi

struct BalWorld {
    World w;
    UniValue uni;
    std::map<std::string, CTransactionRef> tx;              // universe name -> real transaction
    std::map<std::string, std::pair<COutPoint, CTxOut>> base;   // base coin name -> the others' confirmed output
    std::map<int, std::vector<uint256>> blocks;             // model block id -> hashes (100 for a bulk)
    UniValue block_recs{UniValue::VARR};                    // what the adapter built: {id, parent, txs, mine, span}
    std::map<uint256, int> block_of;
    std::map<Txid, std::string> cb_name;                    // coinbase of model block b -> "cb<b>"
    int base_height{0};

    BalWorld(uint64_t seed, const UniValue& universe) : w(seed), uni(universe)
    {
        // the base coins: outputs of the others worth 100 units each, confirmed below everything the behaviour does
        std::vector<CTransactionRef> txs;
        // (every input of the universe that is not an output of a universe transaction)
        std::set<std::string> base_names;
        for (const auto& name : uni.getKeys()) for (size_t k = 0; k < uni[name]["ins"].size(); ++k) if (!uni.exists(uni[name]["ins"][k][0].get_str())) base_names.insert(uni[name]["ins"][k][0].get_str());
        for (const auto& n : base_names) {
            auto t = w.FaucetTx({CTxOut(100 * UNIT, w.sim->coinbaseSpk)});
            base[n] = {COutPoint(t->GetHash(), 0), t->vout[0]};
            txs.push_back(t);
        }
        w.Mine({}, txs);
        w.MineEmpty(2);
        w.Sync();
        base_height = w.Height();
        for (const auto& name : uni.getKeys()) Build(name);
    }
    const CTxOut& PrevOut(const std::string& p, int i) { return base.count(p) ? base.at(p).second : tx.at(p)->vout.at(i - 1); }
    COutPoint PrevPoint(const std::string& p, int i) { return base.count(p) ? base.at(p).first : COutPoint(tx.at(p)->GetHash(), i - 1); }
    void Build(const std::string& name)
    {
        if (tx.count(name)) return;
        const UniValue& d = uni[name];
        CMutableTransaction m;
        std::map<COutPoint, Coin> coins;
        for (size_t k = 0; k < d["ins"].size(); ++k) {
            const std::string p = d["ins"][k][0].get_str(); const int i = d["ins"][k][1].getInt<int>();
            if (!base.count(p)) Build(p);
            m.vin.emplace_back(PrevPoint(p, i), CScript{}, CTxIn::MAX_SEQUENCE_NONFINAL);
            coins[PrevPoint(p, i)] = Coin(PrevOut(p, i), 1, false);
        }
        for (size_t k = 0; k < d["outs"].size(); ++k) {
            const bool mine = d["outs"][k]["mine"].get_bool();
            m.vout.emplace_back(d["outs"][k]["v"].getInt<int64_t>() * UNIT, mine ? w.NewWalletScript("bech32") : w.sim->coinbaseSpk);
        }
        std::map<int, bilingual_str> errs;
        w.wallet->SignTransaction(m, coins, SIGHASH_DEFAULT, errs);          // the wallet's inputs
        for (size_t k = 0; k < m.vin.size(); ++k) {
            const CTxOut& po = coins.at(m.vin[k].prevout).out;
            if (po.scriptPubKey == w.sim->coinbaseSpk) w.sim->SignP2PK(m, k, po);   // the others' inputs
        }
        tx[name] = MakeTransactionRef(m);
        w.names[tx[name]->GetHash()] = name;
    }
    int Parse(const UniValue& v) { return v.getInt<int>(); }

    UniValue Apply(const UniValue& a)
    {
        const std::string op = a[0].get_str();
        UniValue r(UniValue::VOBJ);
        if (op == "submit" || op == "send") {
            const auto& t = tx.at(a[1].get_str());
            if (op == "send") w.wallet->CommitTransaction(t);
            auto res = w.Submit(t);
            r.pushKV("ok", res.m_result_type == MempoolAcceptResult::ResultType::VALID);
            if (!res.m_state.IsValid()) r.pushKV("why", res.m_state.GetRejectReason());
        } else if (op == "mine") {
            const int b = a[1].getInt<int>();
            const bool mine = a[4].get_bool(), bulk = a[5].get_bool();
            std::vector<CTransactionRef> txs;
            for (size_t k = 0; k < a[3].size(); ++k) txs.push_back(tx.at(a[3][k].get_str()));
            if (bulk) {
                for (int k = 0; k < 100; ++k) { auto blk = w.BuildBlock({}, {}, nullptr, 7000 + b); Connect(blk, b); }
            } else {
                std::vector<CTxOut> cb; cb.emplace_back(7 * UNIT, mine ? w.NewWalletScript("bech32") : w.sim->coinbaseSpk);
                auto blk = w.BuildBlock(cb, txs, nullptr, 7000 + b);
                Connect(blk, b);
                cb_name[blk->vtx[0]->GetHash()] = "cb" + std::to_string(b);
                w.names[blk->vtx[0]->GetHash()] = "cb" + std::to_string(b);
            }
            UniValue br(UniValue::VOBJ);
            br.pushKV("id", b); br.pushKV("parent", a[2].getInt<int>()); br.pushKV("txs", a[3]); br.pushKV("mine", mine); br.pushKV("span", bulk ? 100 : 1);
            block_recs.push_back(br);
            r.pushKV("ok", true);
        } else if (op == "invalidate") {
            w.sim->Invalidate(blocks.at(a[1].getInt<int>()).front());
            r.pushKV("ok", true);
        } else if (op == "reconsider") {
            w.sim->Reconsider(blocks.at(a[1].getInt<int>()).front());
            r.pushKV("ok", true);
        } else if (op == "abandon") {
            r.pushKV("ok", w.wallet->AbandonTransaction(tx.at(a[1].get_str())->GetHash()));
        } else if (op == "evict") {
            LOCK2(cs_main, w.pool().cs);
            w.pool().removeRecursive(*tx.at(a[1].get_str()), MemPoolRemovalReason::EXPIRY);
            r.pushKV("ok", true);
        } else {
            throw std::runtime_error("unknown balance action " + op);
        }
        w.Sync();
        return r;
    }
    void Connect(const std::shared_ptr<CBlock>& blk, int b)
    {
        auto [ok, nb] = w.sim->SubmitBlock(blk, true);
        if (!ok || w.sim->Tip()->GetBlockHash() != blk->GetHash()) throw std::runtime_error("model block was not connected: " + w.sim->Reason(blk->GetHash()));
        blocks[b].push_back(blk->GetHash()); block_of[blk->GetHash()] = b;
    }
    static CAmount Units(CAmount v, bool& exact) { if (v % UNIT) exact = false; return v / UNIT; }

    UniValue Project()
    {
        UniValue o(UniValue::VOBJ);
        UniValue chain(UniValue::VARR);
        {
            LOCK(cs_main);
            int last = 0;
            for (int h = base_height + 1; h <= w.sim->cm().ActiveChain().Height(); ++h) {
                auto it = block_of.find(w.sim->cm().ActiveChain()[h]->GetBlockHash());
                const int b = it == block_of.end() ? -1 : it->second;
                if (b != last) chain.push_back(b);
                last = b;
            }
        }
        o.pushKV("chain", chain);
        std::vector<std::string> pool;
        for (const auto& info : w.pool().infoAll()) pool.push_back(w.names.count(info.tx->GetHash()) ? w.names[info.tx->GetHash()] : "?" + info.tx->GetHash().ToString().substr(0, 8));
        std::sort(pool.begin(), pool.end());
        UniValue jp(UniValue::VARR); for (const auto& s : pool) jp.push_back(s);
        o.pushKV("pool", jp);
        bool exact = true;
        const Balance b = GetBalance(*w.wallet);
        UniValue bal(UniValue::VOBJ);
        bal.pushKV("trusted", (int64_t)Units(b.m_mine_trusted, exact)); bal.pushKV("pending", (int64_t)Units(b.m_mine_untrusted_pending, exact)); bal.pushKV("immature", (int64_t)Units(b.m_mine_immature, exact));
        o.pushKV("bal", bal);
        if (!exact) o.pushKV("inexact", strprintf("%d/%d/%d", b.m_mine_trusted, b.m_mine_untrusted_pending, b.m_mine_immature));
        std::vector<std::string> coins, known, aband, confl, pconfl;
        {
            LOCK(w.wallet->cs_wallet);
            CCoinControl cc;
            for (const auto& c : AvailableCoins(*w.wallet, &cc).All()) coins.push_back((w.names.count(c.outpoint.hash) ? w.names[c.outpoint.hash] : "?") + ":" + std::to_string(c.outpoint.n + 1));
            for (const auto& [id, wtx] : w.wallet->mapWallet) {
                if (!w.names.count(id)) continue;
                const std::string n = w.names[id];
                if (!tx.count(n) && !cb_name.count(id)) continue;
                known.push_back(n);
                if (wtx.isAbandoned() && !wtx.IsCoinBase()) aband.push_back(n);
                if (wtx.isBlockConflicted()) confl.push_back(n);
                if (wtx.isMempoolConflicted()) pconfl.push_back(n);
            }
        }
        auto arr = [](std::vector<std::string>& v) { std::sort(v.begin(), v.end()); UniValue a(UniValue::VARR); for (const auto& s : v) a.push_back(s); return a; };
        o.pushKV("coins", arr(coins)); o.pushKV("known", arr(known)); o.pushKV("aband", arr(aband)); o.pushKV("conflicted", arr(confl));
        o.pushKV("pconflicted", arr(pconfl));
        o.pushKV("blocks", block_recs);
        return o;
    }
};

void RunBalance(size_t n, const UniValue& t, uint64_t seed)
{
    R().cur_test = n; R().cur_step = 0; R().cur_action = UniValue::VNULL;
    BalWorld bw(seed * 1000003 + n, t["init"]["uni"]);
    const UniValue& steps = t["steps"];
    for (size_t i = 0; i < steps.size(); ++i) {
        const UniValue& a = steps[i]["a"];
        R().cur_step = i; R().cur_action = a;
        UniValue line(UniValue::VOBJ);
        line.pushKV("kind", "trace"); line.pushKV("test", (uint64_t)n); line.pushKV("step", (uint64_t)i);
        line.pushKV("res", bw.Apply(a));
        line.pushKV("obs", bw.Project());
        ++R().steps;
        Emit(line);
    }
    ++R().tests;
}

} // namespace

int main(int argc, char** argv)
{
    if (argc < 3) { std::cerr << "usage: walletnode script|balance <behaviours.ndjson> [seed]\n"; return 2; }
    const std::string mode = argv[1];
    const uint64_t seed = argc > 3 ? std::strtoull(argv[3], nullptr, 10) : 1;
    InstallAbortHandlers();
    if (mode == "script") {
        ForEachLine(argv[2], [&](size_t n, const UniValue& t) {
            try { RunScript(n, t, seed); }
            catch (const std::exception& e) {
                UniValue o(UniValue::VOBJ);
                o.pushKV("kind", "error"); o.pushKV("test", (uint64_t)n); o.pushKV("step", (uint64_t)R().cur_step); o.pushKV("why", std::string("adapter: ") + e.what());
                Emit(o); R().Count("adapter_errors");
            }
        });
        R().Summary();
        return 0;
    }
    if (mode == "balance") {
        ForEachLine(argv[2], [&](size_t n, const UniValue& t) {
            try { RunBalance(n, t, seed); }
            catch (const std::exception& e) {
                UniValue o(UniValue::VOBJ);
                o.pushKV("kind", "error"); o.pushKV("test", (uint64_t)n); o.pushKV("step", (uint64_t)R().cur_step); o.pushKV("why", std::string("adapter: ") + e.what());
                Emit(o); R().Count("adapter_errors");
            }
        });
        R().Summary();
        return 0;
    }
    std::cerr << "unknown mode\n";
    return 2;
}
