// Adapter for the wallet-storage properties C62 (keypool), C43 (records / DB transactions) and C42 (encryption): drives a real
// SQLite-backed descriptor wallet (wallet.dat + rollback journal in a wallet directory below the test data directory) that is
// attached to a 100-block regtest chain, exactly as wallet_tests' TestCreateWallet / TestLoadWallet do.
//
//   walletdb run <script.json>
//        script = {"keypool":K, "image":<dir>|null, "steps":[[op, args...], ...], "secrets":[hex...]}
//        image == null : a new wallet is created (CWallet::CreateNew on MakeWalletDatabase(require_create))
//        image != null : the files of <dir> (a crash image or the directory of an earlier session) are copied into the fresh
//                        wallet directory and the wallet is loaded (MakeWalletDatabase(require_existing) + CWallet::LoadExisting)
//        prints one line {"kind":"run","root":<data dir>,"load":"ok"|<error>,"obs0":projection,"steps":[{"a","r","obs"}...]}
//        and writes harmless markers into the syscall stream (write(-1,"VF:...")) that show up in strace:
//        VF:preload:end, VF:base:end (wallet created / loaded), VF:step:<i>:begin:<op>, VF:step:<i>:end, VF:end.
//        The process ends with _exit (no clean shutdown): what a crash image contains is decided from the syscall stream.
//
// Operations (model names on the left are turned into concrete objects here; concrete ids are reported back in "r"):
//   ["new",type,label] ["change",type] ["topup",n] ["topup1",type,internal,n] ["reload"]   keypool (C62)
//   ["importh",k,internal] ["reserve",type,internal,"keep"|"return"|"drop"] ["lock"] ["unlock",pass]   keypool with a hardened range / reservations (C62)
//   ["label",k,label,purpose] ["dellabel",k] ["lockcoin",k,persist] ["unlockcoin",k] ["unlockall"]
//   ["addtx",k,state] ["removetx",[k..]] ["abandon",k] ["setflag",name] ["unsetflag",name] ["bestblock",h]
//   ["import",k,ranged,active,internal,label]                                         records (C43)
//   ["encrypt",pass] ["lock"] ["unlock",pass] ["changepass",old,new] ["sign",addr] ["secrets"] ["scan"]   encryption (C42)
#include <vfh.h>

#include <addresstype.h>
#include <chain.h>
#include <interfaces/chain.h>
#include <key.h>
#include <key_io.h>
#include <outputtype.h>
#include <script/descriptor.h>
#include <script/signingprovider.h>
#include <test/util/setup_common.h>
#include <util/fs.h>
#include <util/strencodings.h>
#include <util/string.h>
#include <validation.h>
#include <wallet/context.h>
#include <wallet/crypter.h>
#include <wallet/scriptpubkeyman.h>
#include <wallet/test/util.h>
#include <wallet/wallet.h>
#include <wallet/walletdb.h>
#include <wallet/walletutil.h>

#include <unistd.h>

using namespace vfh;
using namespace wallet;

namespace {

void Mark(const std::string& s) { (void)!write(-1, s.data(), s.size()); }

UniValue ReadJson(const char* path)
{
    std::ifstream f(path); std::stringstream ss; ss << f.rdbuf();
    UniValue v; if (!v.read(ss.str())) { std::cerr << "bad json " << path << "\n"; std::exit(2); }
    return v;
}

CKey K(int n)
{
    std::vector<unsigned char> b(32, (unsigned char)(n & 0xff));
    b[0] = 0x01; b[1] = (unsigned char)(n >> 8); b[31] = 0x5a;
    CKey k; k.Set(b.begin(), b.end(), /*fCompressedIn=*/true);
    return k;
}

TestOpts Opts()
{
    TestOpts t;
    t.extra_args = {"-nodebuglogfile", "-nodebug"};
    return t;
}

struct Sess : public TestChain100Setup {
    WalletContext context;
    std::shared_ptr<CWallet> w;
    fs::path wdir;
    UniValue secrets{UniValue::VARR};
    std::map<std::string, std::string> named;   // label / name -> address handed out under it ("sign" accepts "@name")
    bool unsafe_sync{false};   // batch reloads of crash images only: PRAGMA synchronous=OFF (what the image contains is already fixed)

    explicit Sess(int keypool) : TestChain100Setup(ChainType::REGTEST, Opts())
    {
        m_args.ForceSetArg("-keypool", util::ToString(keypool));
        gArgs.ForceSetArg("-keypool", util::ToString(keypool));
        context.args = &m_args;
        context.chain = m_node.chain.get();
        wdir = m_args.GetDataDirNet() / "w";
    }

    std::string Create()
    {
        DatabaseOptions options; options.require_create = true; options.create_flags = WALLET_FLAG_DESCRIPTORS;
        DatabaseStatus status; bilingual_str error; std::vector<bilingual_str> warnings;
        auto db = MakeWalletDatabase(fs::PathToString(wdir), options, status, error);
        if (!db) return "database: " + error.original;
        w = CWallet::CreateNew(context, "w", std::move(db), options.create_flags, /*born_encrypted=*/false, error, warnings);
        if (!w) return "create: " + error.original;
        NotifyWalletLoaded(context, w);
        w->postInitProcess();
        return "ok";
    }

    std::string Load()
    {
        DatabaseOptions options; options.require_existing = true; options.use_unsafe_sync = unsafe_sync;
        DatabaseStatus status; bilingual_str error; std::vector<bilingual_str> warnings;
        auto db = MakeWalletDatabase(fs::PathToString(wdir), options, status, error);
        if (!db) return "database: " + error.original;
        try {
            w = CWallet::LoadExisting(context, "w", std::move(db), error, warnings);
        } catch (const std::exception& e) {
            return std::string("load threw: ") + e.what();
        }
        if (!w) return "load: " + error.original;
        NotifyWalletLoaded(context, w);
        w->postInitProcess();
        return "ok";
    }

    void Unload()
    {
        if (!w) return;
        w->chain().waitForNotificationsIfTipChanged({});
        w->m_chain_notifications_handler.reset();
        WaitForDeleteWallet(std::move(w));
        w.reset();
    }

    // ---- concrete objects behind the model's names
    CTxDestination ExtAddr(int k) { return WitnessV0KeyHash(K(100 + k).GetPubKey()); }
    CMutableTransaction Tx(int k)
    {
        CMutableTransaction m; m.version = 2;
        m.vin.emplace_back(COutPoint(m_coinbase_txns.at(k)->GetHash(), 0));
        m.vout.emplace_back(1 * COIN + k, GetScriptForDestination(ExtAddr(k)));
        return m;
    }
    COutPoint Coin_(int k) { return COutPoint(Tx(k).GetHash(), 0); }
    uint256 BlockHash(int h) { LOCK(cs_main); return m_node.chainman->ActiveChain()[h]->GetBlockHash(); }
    int HeightOf(const uint256& hash)
    {
        LOCK(cs_main);
        const CBlockIndex* bi = m_node.chainman->m_blockman.LookupBlockIndex(hash);
        return bi ? bi->nHeight : -1;
    }
    TxState State(const std::string& s)
    {
        if (s == "inactive") return TxStateInactive{};
        if (s == "abandoned") return TxStateInactive{/*abandoned=*/true};
        const int h = std::stoi(s.substr(s.find(':') + 1));
        if (s.rfind("confirmed:", 0) == 0) return TxStateConfirmed{BlockHash(h), h, /*index=*/1};
        if (s.rfind("conflicted:", 0) == 0) return TxStateBlockConflicted{BlockHash(h), h};
        throw std::runtime_error("unknown tx state " + s);
    }
    std::string StateStr(const CWalletTx& wtx)
    {
        if (auto* c = wtx.state<TxStateConfirmed>()) return "confirmed:" + util::ToString(c->confirmed_block_height);
        if (auto* c = wtx.state<TxStateBlockConflicted>()) return "conflicted:" + util::ToString(c->conflicting_block_height);
        if (wtx.state<TxStateInMempool>()) return "mempool";
        if (auto* c = wtx.state<TxStateInactive>()) return c->abandoned ? "abandoned" : "inactive";
        return "unrecognized";
    }
    uint64_t Flag(const std::string& n)
    {
        if (n == "avoid_reuse") return WALLET_FLAG_AVOID_REUSE;
        throw std::runtime_error("unknown flag " + n);
    }
    std::string ImportString(int k, bool ranged)
    {
        if (!ranged) return "wpkh(" + EncodeSecret(K(200 + k)) + ")";
        CExtKey ext; const CKey seed = K(300 + k);
        ext.SetSeed(MakeByteSpan(seed));
        return "wpkh(" + EncodeExtKey(ext) + "/0/*)";
    }

    // ---- projection: the abstract wallet the properties talk about
    UniValue Project()
    {
        UniValue o(UniValue::VOBJ);
        if (!w) { o.pushKV("nowallet", true); return o; }
        LOCK(w->cs_wallet);
        std::map<std::string, UniValue> descs;
        for (ScriptPubKeyMan* m : w->GetAllScriptPubKeyMans()) {
            auto* d = dynamic_cast<DescriptorScriptPubKeyMan*>(m);
            if (!d) continue;
            LOCK(d->cs_desc_man);
            const WalletDescriptor wd = d->GetWalletDescriptor();
            descs[d->GetID().GetHex()] = Obj({{"id", d->GetID().GetHex()}, {"next", wd.next_index}, {"range", wd.range_end}, {"start", wd.range_start},
                                              {"priv", d->HavePrivateKeys()}, {"crypted", d->HaveCryptedKeys()}});
        }
        UniValue dl(UniValue::VARR); for (auto& [k, v] : descs) dl.push_back(v);
        o.pushKV("desc", dl);
        UniValue act(UniValue::VOBJ);
        for (bool internal : {false, true}) for (OutputType t : OUTPUT_TYPES) {
            ScriptPubKeyMan* m = w->GetScriptPubKeyMan(t, internal);
            if (m) act.pushKV(FormatOutputType(t) + (internal ? "/1" : "/0"), m->GetID().GetHex());
        }
        o.pushKV("active", act);
        std::map<std::string, std::string> txs;
        for (const auto& [txid, wtx] : w->mapWallet) txs[txid.GetHex()] = StateStr(wtx);
        UniValue tl(UniValue::VARR); for (auto& [k, v] : txs) tl.push_back(Arr({k, v}));
        o.pushKV("txs", tl);
        UniValue bl(UniValue::VARR);
        for (const auto& [dest, data] : w->m_address_book) {
            bl.push_back(Arr({EncodeDestination(dest), data.IsChange() ? UniValue("<change>") : UniValue(data.GetLabel()),
                              data.purpose ? UniValue(PurposeToString(*data.purpose)) : UniValue("<none>")}));
        }
        o.pushKV("book", bl);
        std::vector<COutPoint> lc; w->ListLockedCoins(lc);
        std::vector<std::string> lcs; for (const auto& c : lc) lcs.push_back(c.hash.GetHex() + ":" + util::ToString(c.n));
        std::sort(lcs.begin(), lcs.end());
        UniValue ll(UniValue::VARR); for (auto& s : lcs) ll.push_back(s);
        o.pushKV("locked", ll);
        o.pushKV("flags", util::ToString(w->GetWalletFlags()));
        o.pushKV("enc", w->HasEncryptionKeys());
        o.pushKV("islocked", w->IsLocked());
        o.pushKV("nmkeys", (int)w->mapMasterKeys.size());
        o.pushKV("orderpos", w->nOrderPosNext);
        CBlockLocator loc; int best = -2;
        if (WalletBatch(w->GetDatabase()).ReadBestBlock(loc) && !loc.vHave.empty()) best = HeightOf(loc.vHave.front());
        o.pushKV("bestblock", best);
        return o;
    }

    UniValue NewAddr(OutputType t, bool internal, const std::string& label)
    {
        auto res = internal ? w->GetNewChangeDestination(t) : w->GetNewDestination(t, label);
        if (!res) return Obj({{"ok", false}, {"err", util::ErrorString(res).original}});
        UniValue r = Obj({{"ok", true}, {"addr", EncodeDestination(*res)}});
        if (!label.empty()) named[label] = EncodeDestination(*res);
        LOCK(w->cs_wallet);
        auto* d = dynamic_cast<DescriptorScriptPubKeyMan*>(w->GetScriptPubKeyMan(t, internal));
        if (d) { LOCK(d->cs_desc_man); r.pushKV("idx", d->GetWalletDescriptor().next_index - 1); r.pushKV("id", d->GetID().GetHex()); }
        return r;
    }

    UniValue Apply(const UniValue& a)
    {
        const std::string op = a[0].get_str();
        if (!w && op != "reload" && op != "scan") return Obj({{"ok", false}, {"err", "no wallet loaded"}});
        if (op == "new") return NewAddr(*ParseOutputType(a[1].get_str()), false, a.size() > 2 ? a[2].get_str() : "");
        if (op == "change") return NewAddr(*ParseOutputType(a[1].get_str()), true, a.size() > 2 ? a[2].get_str() : "");
        if (op == "topup") return Obj({{"ok", w->TopUpKeyPool((unsigned)a[1].getInt<int>())}});
        if (op == "topup1") {
            // keypool top-up of one descriptor: DescriptorScriptPubKeyMan::TopUp(size), one DB transaction
            LOCK(w->cs_wallet);
            ScriptPubKeyMan* m = w->GetScriptPubKeyMan(*ParseOutputType(a[1].get_str()), a[2].get_bool());
            return Obj({{"ok", m && m->TopUp((unsigned)a[3].getInt<int>())}});
        }
        if (op == "reload") { Unload(); const std::string r = Load(); return Obj({{"ok", r == "ok"}, {"load", r}}); }
        if (op == "label") {
            const CTxDestination dest = ExtAddr(a[1].getInt<int>());
            const auto purpose = PurposeFromString(a[3].get_str());
            return Obj({{"ok", w->SetAddressBook(dest, a[2].get_str(), purpose)}, {"addr", EncodeDestination(dest)}});
        }
        if (op == "dellabel") { const CTxDestination dest = ExtAddr(a[1].getInt<int>()); return Obj({{"ok", w->DelAddressBook(dest)}, {"addr", EncodeDestination(dest)}}); }
        if (op == "lockcoin") { LOCK(w->cs_wallet); const COutPoint c = Coin_(a[1].getInt<int>()); return Obj({{"ok", w->LockCoin(c, a[2].get_bool())}, {"coin", c.hash.GetHex() + ":0"}}); }
        if (op == "unlockcoin") { LOCK(w->cs_wallet); const COutPoint c = Coin_(a[1].getInt<int>()); return Obj({{"ok", w->UnlockCoin(c)}, {"coin", c.hash.GetHex() + ":0"}}); }
        if (op == "unlockall") { LOCK(w->cs_wallet); return Obj({{"ok", w->UnlockAllCoins()}}); }
        if (op == "addtx") {
            const CMutableTransaction m = Tx(a[1].getInt<int>());
            const TxState st = State(a[2].get_str());
            CWalletTx* wtx = w->AddToWallet(MakeTransactionRef(m), st);
            return Obj({{"ok", wtx != nullptr}, {"txid", m.GetHash().GetHex()}});
        }
        if (op == "removetx") {
            std::vector<Txid> ids; UniValue names(UniValue::VARR);
            for (size_t i = 0; i < a[1].size(); ++i) { ids.push_back(Tx(a[1][i].getInt<int>()).GetHash()); names.push_back(ids.back().GetHex()); }
            LOCK(w->cs_wallet);
            auto res = w->RemoveTxs(ids);
            return Obj({{"ok", bool(res)}, {"txids", names}, {"err", res ? "" : util::ErrorString(res).original}});
        }
        if (op == "abandon") { const Txid id = Tx(a[1].getInt<int>()).GetHash(); return Obj({{"ok", w->AbandonTransaction(id)}, {"txid", id.GetHex()}}); }
        if (op == "setflag") { w->SetWalletFlag(Flag(a[1].get_str())); return Obj({{"ok", true}}); }
        if (op == "unsetflag") { w->UnsetWalletFlag(Flag(a[1].get_str())); return Obj({{"ok", true}}); }
        if (op == "bestblock") {
            const int h = a[1].getInt<int>();
            LOCK(w->cs_wallet);
            w->SetLastBlockProcessed(h, BlockHash(h));
            return Obj({{"ok", true}});
        }
        if (op == "import") {
            const int k = a[1].getInt<int>(); const bool ranged = a[2].get_bool(), active = a[3].get_bool(), internal = a[4].get_bool();
            const std::string label = a[5].get_str();
            FlatSigningProvider keys; std::string error;
            auto parsed = Parse(ImportString(k, ranged), keys, error, /*require_checksum=*/false);
            if (parsed.empty()) throw std::runtime_error("import descriptor does not parse: " + error);
            // as ProcessDescriptorImport (rpc/backup.cpp): range [0, keypool) for ranged descriptors, [0,1) otherwise... the RPC passes
            // range_start=0, range_end=keypool/1, next_index=0 into the WalletDescriptor
            const int64_t range_end = ranged ? w->m_keypool_size : 1;
            WalletDescriptor wd(std::move(parsed.at(0)), /*creation_time=*/1, 0, range_end, 0);
            LOCK(w->cs_wallet);
            auto res = w->AddWalletDescriptor(wd, keys, label, internal);
            if (!res) return Obj({{"ok", false}, {"err", util::ErrorString(res).original}});
            const uint256 id = res->get().GetID();
            if (active) w->AddActiveScriptPubKeyMan(id, OutputType::BECH32, internal);
            UniValue addrs(UniValue::VARR);
            if (!ranged) {
                for (const CScript& spk : res->get().GetScriptPubKeys()) { CTxDestination d; if (ExtractDestination(spk, d)) addrs.push_back(EncodeDestination(d)); }
            }
            return Obj({{"ok", true}, {"id", id.GetHex()}, {"addrs", addrs}});
        }
        if (op == "importh") {
            // an active bech32 descriptor whose range step is HARDENED: wpkh(xprv/0/*h). Without the private key (locked wallet) it cannot
            // derive beyond its cache, so requests fail with "Keypool ran out" once the pre-derived keys are used up.
            const int k = a[1].getInt<int>(); const bool internal = a[2].get_bool();
            CExtKey ext; const CKey seed = K(400 + k);
            ext.SetSeed(MakeByteSpan(seed));
            FlatSigningProvider keys; std::string error;
            auto parsed = Parse("wpkh(" + EncodeExtKey(ext) + "/0/*h)", keys, error, /*require_checksum=*/false);
            if (parsed.empty()) throw std::runtime_error("hardened descriptor does not parse: " + error);
            WalletDescriptor wd(std::move(parsed.at(0)), /*creation_time=*/1, 0, w->m_keypool_size, 0);
            LOCK(w->cs_wallet);
            auto res = w->AddWalletDescriptor(wd, keys, "", internal);
            if (!res) return Obj({{"ok", false}, {"err", util::ErrorString(res).original}});
            const uint256 id = res->get().GetID();
            w->AddActiveScriptPubKeyMan(id, OutputType::BECH32, internal);
            return Obj({{"ok", true}, {"id", id.GetHex()}});
        }
        if (op == "reserve") {
            // the change reservation of CreateTransaction: ReserveDestination::GetReservedDestination(internal), then KeepDestination ("keep"),
            // ReturnDestination ("return") or nothing but the destructor ("drop")
            const OutputType t = *ParseOutputType(a[1].get_str()); const bool internal = a[2].get_bool(); const std::string how = a[3].get_str();
            UniValue r;
            {
                LOCK(w->cs_wallet);
                ReserveDestination rd(w.get(), t);
                auto res = rd.GetReservedDestination(internal);
                if (!res) r = Obj({{"ok", false}, {"err", util::ErrorString(res).original}});
                else r = Obj({{"ok", true}, {"addr", EncodeDestination(*res)}});
                if (res && how == "keep") rd.KeepDestination();
                if (how == "return") rd.ReturnDestination();
            }
            LOCK(w->cs_wallet);
            auto* d = dynamic_cast<DescriptorScriptPubKeyMan*>(w->GetScriptPubKeyMan(t, internal));
            if (d) { LOCK(d->cs_desc_man); r.pushKV("next", d->GetWalletDescriptor().next_index); r.pushKV("id", d->GetID().GetHex()); }
            return r;
        }
        if (op == "encrypt") { return Obj({{"ok", w->EncryptWallet(SecureString(a[1].get_str()))}}); }
        if (op == "lock") { return Obj({{"ok", w->Lock()}}); }
        if (op == "unlock") { return Obj({{"ok", w->Unlock(SecureString(a[1].get_str()))}}); }
        if (op == "changepass") { return Obj({{"ok", w->ChangeWalletPassphrase(SecureString(a[1].get_str()), SecureString(a[2].get_str()))}}); }
        if (op == "sign") {
            std::string addr = a[1].get_str();
            if (!addr.empty() && addr[0] == '@') { auto it = named.find(addr.substr(1)); if (it == named.end()) return Obj({{"ok", false}, {"err", "no address of that name"}}); addr = it->second; }
            const CTxDestination dest = DecodeDestination(addr);
            const CScript spk = GetScriptForDestination(dest);
            CMutableTransaction m; m.version = 2;
            const COutPoint prev(Txid::FromUint256(uint256{0x77}), 0);
            m.vin.emplace_back(prev);
            m.vout.emplace_back(COIN / 2, GetScriptForDestination(ExtAddr(1)));
            std::map<COutPoint, Coin> coins; coins[prev] = Coin(CTxOut(COIN, spk), 1, false);
            std::map<int, bilingual_str> errors;
            const bool ok = w->SignTransaction(m, coins, SIGHASH_DEFAULT, errors);
            return Obj({{"ok", ok}, {"err", errors.empty() ? "" : errors.begin()->second.original}});
        }
        if (op == "secrets") {
            // every private key the wallet holds in plain text (raw 32-byte scalars), from the private descriptor strings
            std::set<std::string> out;
            LOCK(w->cs_wallet);
            for (ScriptPubKeyMan* m : w->GetAllScriptPubKeyMans()) {
                auto* d = dynamic_cast<DescriptorScriptPubKeyMan*>(m);
                std::string priv;
                if (!d || !d->GetDescriptorString(priv, /*priv=*/true)) continue;
                FlatSigningProvider keys; std::string error;
                auto parsed = Parse(priv, keys, error, false);
                for (const auto& [id, key] : keys.keys) out.insert(HexStr(std::span{reinterpret_cast<const unsigned char*>(key.data()), key.size()}));
            }
            UniValue l(UniValue::VARR); for (auto& s : out) l.push_back(s);
            secrets = l;
            return Obj({{"ok", true}, {"secrets", l}});
        }
        if (op == "scan") {
            // harness monitor of C42: do the database files contain any of the given secrets in plain text
            int found = 0; int64_t bytes = 0; UniValue where(UniValue::VARR);
            for (const auto& ent : fs::directory_iterator(wdir)) {
                std::ifstream f(ent.path(), std::ios::binary); std::stringstream ss; ss << f.rdbuf();
                const std::string data = ss.str(); bytes += data.size();
                for (size_t i = 0; i < secrets.size(); ++i) {
                    const auto raw = ParseHex(secrets[i].get_str());
                    if (data.find(std::string(raw.begin(), raw.end())) != std::string::npos) { ++found; where.push_back(ent.path().filename().string()); }
                }
            }
            return Obj({{"ok", true}, {"found", found}, {"bytes", bytes}, {"nsecrets", (int)secrets.size()}, {"where", where}});
        }
        throw std::runtime_error("unknown op " + op);
    }
};

} // namespace

// one wallet life: (create | load from image) + steps; returns the output line
static UniValue RunOne(Sess& s, const UniValue& script, const std::string& image, bool markers)
{
    std::string load;
    if (!image.empty()) {
        fs::create_directories(s.wdir);
        fs::copy(fs::PathFromString(image), s.wdir, fs::copy_options::recursive | fs::copy_options::overwrite_existing);
        if (markers) Mark("VF:preload:end");
        load = s.Load();
    } else {
        if (markers) Mark("VF:preload:end");
        load = s.Create();
    }
    if (markers) Mark("VF:base:end");
    UniValue out = Obj({{"kind", "run"}, {"root", fs::PathToString(s.m_args.GetDataDirNet())}, {"wdir", fs::PathToString(s.wdir)}, {"load", load}});
    if (load != "ok") return out;
    out.pushKV("obs0", s.Project());
    UniValue steps(UniValue::VARR);
    const UniValue& st = script["steps"];
    for (size_t i = 0; i < st.size(); ++i) {
        R().cur_step = i; R().cur_action = st[i];
        if (markers) Mark("VF:step:" + std::to_string(i) + ":begin:" + st[i][0].get_str());
        UniValue r;
        try { r = s.Apply(st[i]); }
        catch (const std::exception& e) { r = Obj({{"ok", false}, {"exception", e.what()}}); }
        if (markers) Mark("VF:step:" + std::to_string(i) + ":end");
        steps.push_back(Obj({{"a", st[i]}, {"r", r}, {"obs", s.Project()}}));
    }
    if (markers) Mark("VF:end");
    out.pushKV("steps", steps);
    return out;
}

int main(int argc, char** argv)
{
    if (argc < 3 || std::string(argv[1]) != "run") { std::cerr << "usage: walletdb run <script.json>\n"; return 2; }
    const UniValue script = ReadJson(argv[2]);
    const int keypool = script.exists("keypool") ? script["keypool"].getInt<int>() : 3;
    Sess s(keypool);
    if (script.exists("secrets")) s.secrets = script["secrets"];
    InstallAbortHandlers();
    if (script.exists("images")) {
        // batch: the same steps on many images, one wallet directory each ("first" = index of the first image, for the abort line)
        const UniValue& imgs = script["images"];
        s.unsafe_sync = script.exists("unsafe_sync") && script["unsafe_sync"].get_bool();
        const fs::path base = s.m_args.GetDataDirNet();
        for (size_t k = 0; k < imgs.size(); ++k) {
            R().cur_test = k; R().cur_step = 0; R().cur_action = UniValue("load");
            s.wdir = base / fs::u8path("w" + std::to_string(k));
            UniValue out;
            try { out = RunOne(s, script, imgs[k].get_str(), /*markers=*/false); }
            catch (const std::exception& e) { out = Obj({{"kind", "run"}, {"load", std::string("exception: ") + e.what()}}); }
            out.pushKV("image", (uint64_t)k);
            Emit(out);
            try { s.Unload(); } catch (const std::exception& e) {}
            fs::remove_all(s.wdir);
        }
        Emit(Obj({{"kind", "done"}}));
        std::cout.flush();
        _exit(0);
    }
    const std::string image = (script.exists("image") && script["image"].isStr()) ? script["image"].get_str() : "";
    Emit(RunOne(s, script, image, /*markers=*/true));
    std::cout.flush();
    _exit(0);
}
