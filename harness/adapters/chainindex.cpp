// Adapter for specs/ChainIndex (C54).
//   chainindex drive <seed> <tier>     builds seeded random trees of real CBlockIndex objects, linked as BlockManager::AddToBlockIndex
//                                      links them (pprev, nHeight, BuildSkip(), nChainWork = parent's + GetBlockProof), drives
//                                      GetAncestor / LastCommonAncestor / CChain / LocatorEntries / GetLocator and prints one JSON line per
//                                      call (engine E3; validated by specs/ChainIndex/TraceChainIndex.tla).  Blocks are named by their
//                                      creation number, 0 = nullptr.
//   chainindex tall <rows.ndjson> <h>  engine E4 rows of kind "tall" on ONE linear chain of h + 1 plain CBlockIndex entries (size boundaries: the
//                                      locator gains an entry at every 2^k + 10; GetAncestor / pskip at the same tip heights)
//   chainindex table <rows.ndjson>     engine E4 rows of specs/ChainIndex/ChainTables.tla: compact targets (proof is zero exactly for the
//                                      zero class; the proof value goes back as a "trace" line for the relation check), locator heights on
//                                      a linear chain, skip heights (internal: a consistent but different skip height is a deviation).
// Nothing is decided here except exact equality with table rows; the trace is judged by TLC.
#include <vfh.h>
#include <arith_uint256.h>
#include <chain.h>
#include <primitives/block.h>
#include <uint256.h>

#include <csignal>
#include <cstdio>
#include <deque>
#include <map>
#include <random>
#include <string>
#include <unordered_map>
#include <vector>
#include <unistd.h>

using namespace vfh;

namespace {
// the call in progress, for the abort line (an assertion inside the code under test while the trace is produced)
char g_call[160] = "none";
#define CALL(...) std::snprintf(g_call, sizeof(g_call), __VA_ARGS__)
void OnDriveAbort(int sig)
{
    std::fflush(stdout);
    char buf[400];
    const int n = std::snprintf(buf, sizeof(buf), "{\"e\":\"Abort\",\"sig\":%d,\"call\":\"%s\"}\n", sig, g_call);
    (void)!write(1, buf, n);
    _exit(3);
}

struct Node { CBlockIndex idx; uint256 hash; };

struct Tree {
    std::deque<Node> nodes;                                   // nodes[i] is block i + 1
    std::unordered_map<const CBlockIndex*, int> id_of;
    std::map<uint256, int> id_of_hash;
    int Id(const CBlockIndex* p) const { if (!p) return 0; auto it = id_of.find(p); return it == id_of.end() ? -1 : it->second; }
    CBlockIndex* At(int id) { return id == 0 ? nullptr : &nodes[id - 1].idx; }
    int size() const { return (int)nodes.size(); }
    // links a new block below parent id p (0 = none) exactly as AddToBlockIndex does
    int Add(int p, uint32_t bits)
    {
        nodes.emplace_back();
        Node& n = nodes.back();
        const int id = size();
        n.hash = ArithToUint256(arith_uint256(uint64_t(id)) + (arith_uint256(0xC54) << 200));
        n.idx.phashBlock = &n.hash;
        n.idx.nBits = bits;
        CALL("Add block %d below %d (BuildSkip / GetBlockProof)", id, p);
        if (p != 0) {
            n.idx.pprev = At(p);
            n.idx.nHeight = n.idx.pprev->nHeight + 1;
            n.idx.BuildSkip();
        }
        n.idx.nChainWork = (n.idx.pprev ? n.idx.pprev->nChainWork : 0) + GetBlockProof(n.idx);
        id_of[&n.idx] = id;
        id_of_hash[n.hash] = id;
        return id;
    }
};

std::string Bytes32(const arith_uint256& v)
{
    const uint256 u = ArithToUint256(v);
    std::string s = "[";
    for (int i = 0; i < 32; ++i) { s += std::to_string((int)u.data()[i]); if (i < 31) s += ","; }
    return s + "]";
}
std::string BitsBytes(uint32_t b) { return strprintf("[%d,%d,%d,%d]", b >> 24, (b >> 16) & 255, (b >> 8) & 255, b & 255); }

using Rng = std::mt19937_64;
int Rand(Rng& g, int n) { return n <= 0 ? 0 : (int)(g() % (uint64_t)n); }

const uint32_t ORDINARY_BITS[] = {0x207fffff, 0x1d00ffff, 0x1b0404cb, 0x170331db, 0x1c7fffff, 0x1a05db8b, 0x04123456};
const uint32_t ZERO_BITS[] = {0x20ffffff /*negative*/, 0x22010000 /*overflow*/, 0x01003456 /*rounds to 0*/, 0x1d000000 /*zero mantissa*/, 0xff7fffff /*overflow*/};

void LogAdd(Tree& t, int id, int p, bool full)
{
    const CBlockIndex* b = t.At(id);
    if (full) {
        std::printf("{\"e\":\"Add\",\"id\":%d,\"p\":%d,\"h\":%d,\"skip\":%d,\"skiph\":%d,\"bits\":%s,\"proof\":%s,\"work\":%s}\n", id, p, b->nHeight, t.Id(b->pskip),
                    b->pskip ? b->pskip->nHeight : -1, BitsBytes(b->nBits).c_str(), Bytes32(GetBlockProof(*b)).c_str(), Bytes32(b->nChainWork).c_str());
    } else {
        std::printf("{\"e\":\"AddH\",\"id\":%d,\"p\":%d,\"h\":%d,\"skip\":%d,\"skiph\":%d}\n", id, p, b->nHeight, t.Id(b->pskip), b->pskip ? b->pskip->nHeight : -1);
    }
}

// style 0: every block attaches to a uniformly random earlier block (bushy, shallow); 1: mostly to the newest block (long chains with
// forks); 2: like 1 but forks start from recent blocks (reorg-like); 3: one chain
void BuildTree(Tree& t, Rng& g, int n, int style, bool full)
{
    bool used_huge = false;
    for (int i = 0; i < n; ++i) {
        int p = 0;
        if (i > 0) {
            const int r = Rand(g, 100);
            if (style == 0) p = 1 + Rand(g, i);
            else if (style == 1) p = r < 90 ? i : 1 + Rand(g, i);
            else if (style == 2) p = r < 85 ? i : std::max(1, i - Rand(g, 12));
            else p = i;
        }
        uint32_t bits = ORDINARY_BITS[Rand(g, sizeof(ORDINARY_BITS) / sizeof(uint32_t))];
        const int r = Rand(g, 100);
        if (r < 6) bits = ZERO_BITS[Rand(g, sizeof(ZERO_BITS) / sizeof(uint32_t))];
        else if (r < 8 && !used_huge) { bits = 0x03000001; used_huge = true; }      // target 1: proof 2^255 (once per tree: no 256-bit overflow)
        const int id = t.Add(p, bits);
        LogAdd(t, id, p, full);
    }
}

void Drive(Tree& t, Rng& g, bool full, int scale)
{
    const int n = t.size();
    auto rnd = [&]() { return 1 + Rand(g, n); };
    std::vector<int> leaves;
    {
        std::vector<char> has_child(n + 1, 0);
        for (int i = 1; i <= n; ++i) if (t.At(i)->pprev) has_child[t.Id(t.At(i)->pprev)] = 1;
        for (int i = 1; i <= n; ++i) if (!has_child[i]) leaves.push_back(i);
    }
    int deepest = 1;
    for (int i = 1; i <= n; ++i) if (t.At(i)->nHeight > t.At(deepest)->nHeight) deepest = i;
    // GetAncestor at every height, from the block down to genesis, for sampled blocks (the naive walk is re-traced line by line)
    std::vector<int> walkers{deepest, leaves[Rand(g, (int)leaves.size())], rnd()};
    if (!full) walkers.resize(2);
    for (int b : walkers) {
        const CBlockIndex* pb = t.At(b);
        for (int h = pb->nHeight; h >= 0; --h) { CALL("GetAncestor(%d) of block %d", h, b); std::printf("{\"e\":\"Walk\",\"b\":%d,\"h\":%d,\"r\":%d}\n", b, h, t.Id(pb->GetAncestor(h))); }
    }
    // random GetAncestor, including heights out of range
    for (int i = 0; i < 40 * scale; ++i) {
        const int b = rnd();
        const CBlockIndex* pb = t.At(b);
        const int k = Rand(g, 12);
        const int h = k == 0 ? -1 : k == 1 ? pb->nHeight + 1 : k == 2 ? pb->nHeight : k == 3 ? 0 : Rand(g, pb->nHeight + 1);
        CALL("GetAncestor(%d) of block %d", h, b);
        std::printf("{\"e\":\"Anc\",\"b\":%d,\"h\":%d,\"r\":%d}\n", b, h, t.Id(pb->GetAncestor(h)));
    }
    // LastCommonAncestor
    for (int i = 0; i < 30 * scale; ++i) {
        int a = rnd(), b = rnd();
        const int k = Rand(g, 10);
        if (k == 0) b = a;
        else if (k == 1) b = t.Id(t.At(a)->GetAncestor(Rand(g, t.At(a)->nHeight + 1)));     // an ancestor of a
        else if (k == 2 && leaves.size() > 1) { a = leaves[Rand(g, (int)leaves.size())]; b = leaves[Rand(g, (int)leaves.size())]; }
        CALL("LastCommonAncestor(%d, %d)", a, b);
        std::printf("{\"e\":\"LCA\",\"a\":%d,\"b\":%d,\"r\":%d}\n", a, b, t.Id(LastCommonAncestor(t.At(a), t.At(b))));
    }
    // one CChain object, moved between tips
    CChain chain;
    auto chain_queries = [&](int count) {
        for (int i = 0; i < count; ++i) {
            const int b = rnd();
            const CBlockIndex& rb = *t.At(b);
            CALL("FindFork / Contains / Next of block %d", b);
            std::printf("{\"e\":\"Fork\",\"b\":%d,\"r\":%d}\n", b, t.Id(chain.FindFork(rb)));
            if (full) {
                std::printf("{\"e\":\"Contains\",\"b\":%d,\"r\":%s}\n", b, chain.Contains(rb) ? "true" : "false");
                std::printf("{\"e\":\"Next\",\"b\":%d,\"r\":%d}\n", b, t.Id(chain.Next(rb)));
            }
        }
        const int H = chain.Height();
        for (int h : {-1, 0, H, H + 1, Rand(g, H + 2), Rand(g, H + 2)}) std::printf("{\"e\":\"At\",\"h\":%d,\"r\":%d}\n", h, t.Id(chain[h]));
        if (chain.Tip()) {
            const int tip = t.Id(chain.Tip());
            std::printf("{\"e\":\"Fork\",\"b\":%d,\"r\":%d}\n", tip, t.Id(chain.FindFork(*chain.Tip())));
        }
    };
    chain_queries(3);                                  // empty chain
    for (int i = 0; i < 2 + 2 * scale; ++i) {
        const int k = Rand(g, 4);
        const int b = k == 0 ? deepest : k == 1 ? rnd() : leaves[Rand(g, (int)leaves.size())];
        CALL("SetTip(%d)", b);
        chain.SetTip(*t.At(b));
        std::printf("{\"e\":\"SetTip\",\"b\":%d,\"height\":%d,\"tip\":%d,\"gen\":%d}\n", b, chain.Height(), t.Id(chain.Tip()), t.Id(chain.Genesis()));
        chain_queries(5 * scale);
    }
    // locators
    auto locator = [&](int b) {
        CALL("LocatorEntries / GetLocator of block %d", b);
        for (int src = 0; src < 2; ++src) {
            const std::vector<uint256> have = src == 0 ? LocatorEntries(t.At(b)) : GetLocator(t.At(b)).vHave;
            std::string r = "[";
            for (size_t i = 0; i < have.size(); ++i) {
                auto it = t.id_of_hash.find(have[i]);
                r += std::to_string(it == t.id_of_hash.end() ? -1 : it->second);
                if (i + 1 < have.size()) r += ",";
            }
            std::printf("{\"e\":\"Loc\",\"b\":%d,\"r\":%s],\"src\":%d}\n", b, r.c_str(), src);
        }
    };
    locator(0); locator(deepest);
    for (int i = 0; i < 6 * scale; ++i) locator(rnd());
}
} // namespace

static int DriveMain(uint64_t seed, const std::string& tier)
{
    std::signal(SIGABRT, OnDriveAbort); std::signal(SIGSEGV, OnDriveAbort); std::signal(SIGFPE, OnDriveAbort);
    Rng g(seed * 0x9E3779B97F4A7C15ULL + 54);
    const bool thorough = tier == "thorough";
    // many tiny trees (every invariant of the specification is re-evaluated on them), a few hundreds-of-blocks trees with complete
    // ancestry in the specification's state, a few thousands-of-blocks trees checked through heights
    struct Plan { int n; int style; bool full; int scale; };
    std::vector<Plan> plans;
    for (int i = 0; i < (thorough ? 150 : 30); ++i) plans.push_back({1 + Rand(g, 7), Rand(g, 3), true, 1});
    if (thorough) {
        for (int n : {30, 64, 65, 100, 128, 200, 257, 300, 400, 400}) plans.push_back({n, Rand(g, 4), true, 4});
        plans.push_back({5000, 1, false, 10}); plans.push_back({5000, 2, false, 10}); plans.push_back({5000, 0, false, 10}); plans.push_back({4100, 3, false, 10});
    } else {
        plans.push_back({60, 0, true, 3}); plans.push_back({150, 2, true, 3}); plans.push_back({400, 1, true, 4});
        plans.push_back({5000, (int)(seed % 2) + 1, false, 8});
    }
    for (const Plan& p : plans) {
        std::printf("{\"e\":\"Reset\",\"full\":%s}\n", p.full ? "true" : "false");
        Tree t;
        BuildTree(t, g, p.n, p.style, p.full);
        Drive(t, g, p.full, p.scale);
    }
    std::fflush(stdout);
    return 0;
}

// ---------------------------------------------------------------------------------------------- E4
static Tree& LinearChain()
{
    static Tree t;
    if (t.size() == 0) for (int i = 0; i < 5001; ++i) t.Add(i, 0x207fffff);
    return t;
}

static std::string CheckRow(const UniValue& row)
{
    const std::string kind = row["kind"].get_str();
    if (kind == "bits") {
        const UniValue& b = row["bits"];
        const uint32_t bits = (uint32_t(b[0].getInt<int>()) << 24) | (uint32_t(b[1].getInt<int>()) << 16) | (uint32_t(b[2].getInt<int>()) << 8) | uint32_t(b[3].getInt<int>());
        CBlockIndex bi; bi.nBits = bits;
        CBlockHeader hd; hd.nBits = bits;
        const arith_uint256 w = GetBlockProof(bi);
        if (GetBlockProof(hd) != w || GetBitsProof(bits) != w) return "GetBlockProof(index), GetBlockProof(header) and GetBitsProof disagree";
        R().Count(w == 0 ? "proof_zero" : "proof_nonzero");
        if ((w == 0) != row["zero"].get_bool()) {
            return strprintf("nBits %08x: proof is %s, the specification says the target is %sin the zero class (zero / negative / overflow)", bits,
                             w == 0 ? "0" : "non-zero", row["zero"].get_bool() ? "" : "not ");
        }
        std::printf("{\"kind\":\"trace\",\"e\":\"Proof\",\"bits\":%s,\"w\":%s}\n", BitsBytes(bits).c_str(), Bytes32(w).c_str());
        return "";
    }
    Tree& t = LinearChain();
    const int h = row["h"].getInt<int>();
    if (h >= t.size()) return "height beyond the harness chain";
    const CBlockIndex* b = t.At(h + 1);
    if (kind == "loc") {
        const std::vector<uint256> have = LocatorEntries(b);
        const UniValue& hs = row["hs"];
        std::string got;
        bool same = have.size() == hs.size();
        for (size_t i = 0; i < have.size(); ++i) {
            auto it = t.id_of_hash.find(have[i]);
            const int hh = it == t.id_of_hash.end() ? -1 : it->second - 1;
            got += std::to_string(hh) + " ";
            if (same && hh != hs[i].getInt<int>()) same = false;
        }
        R().Count("locator_rows");
        if (!same) return strprintf("LocatorEntries at height %d lists heights [%s], the specification %s", h, got, hs.write());
        if (GetLocator(b).vHave != have) return "GetLocator differs from LocatorEntries";
        return "";
    }
    if (kind == "skip") {
        R().Count("skip_rows");
        if (h == 0) return b->pskip ? "genesis has a skip pointer" : "";
        if (!b->pskip) return strprintf("block at height %d has no skip pointer", h);
        const int sh = b->pskip->nHeight;
        if (sh < 0 || sh >= h || b->pskip != t.At(sh + 1)) return strprintf("pskip of height %d is not a proper ancestor (height %d)", h, sh);
        if (sh != row["sh"].getInt<int>()) R().Deviation(row, strprintf("skip height %d, GetSkipHeight as specified gives %d", sh, row["sh"].getInt<int>()), UniValue(sh));
        return "";
    }
    return "unknown row kind " + kind;
}

// ---------------------------------------------------------------------------------------------- E4, size boundaries
// One linear chain of plain CBlockIndex entries (pprev / nHeight / BuildSkip as skiplist_tests builds it), millions of blocks tall; the hash of
// a block is its height, so the heights a locator lists can be read back from the hashes.
static std::vector<CBlockIndex>* g_tall_ptr{nullptr};
#define g_tall (*g_tall_ptr)
static std::vector<uint256> g_tall_hash;
static void BuildTall(size_t n)
{
    g_tall_ptr = new std::vector<CBlockIndex>(n); g_tall_hash.resize(n);
    for (size_t i = 0; i < n; ++i) {
        g_tall_hash[i] = ArithToUint256(arith_uint256(uint64_t(i)));
        g_tall[i].nHeight = (int)i;
        g_tall[i].pprev = i ? &g_tall[i - 1] : nullptr;
        g_tall[i].phashBlock = &g_tall_hash[i];
        g_tall[i].BuildSkip();
    }
}
static std::string CheckTallRow(const UniValue& row)
{
    if (row["kind"].get_str() != "tall") return "not a tall row";
    const int h = row["h"].getInt<int>();
    if ((size_t)h >= g_tall.size()) return "height beyond the harness chain";
    const CBlockIndex* tip = &g_tall[h];
    R().cur_action = UniValue(strprintf("tall chain, tip height %d", h));
    const std::vector<uint256> have = LocatorEntries(tip);
    const UniValue& hs = row["hs"];
    bool same = have.size() == hs.size();
    std::string got;
    for (size_t i = 0; i < have.size(); ++i) {
        const arith_uint256 v = UintToArith256(have[i]);
        const int64_t hh = v.bits() > 40 ? -1 : (int64_t)v.GetLow64();
        if (i < 3 || i + 3 >= have.size()) got += std::to_string(hh) + " "; else if (i == 3) got += "... ";
        if (same && hh != hs[i].getInt<int>()) same = false;
    }
    if (!same) return strprintf("LocatorEntries at tip height %d lists %d entries [%s], the specification %d entries ending at genesis", h, have.size(), got, hs.size());
    if (have.empty() || have.back() != g_tall_hash[0]) return "the locator does not end at genesis";
    if (GetLocator(tip).vHave != have) return "GetLocator differs from LocatorEntries";
    const UniValue& anc = row["anc"];
    for (size_t i = 0; i < anc.size(); ++i) {
        const int q = anc[i][0].getInt<int>(), exp = anc[i][1].getInt<int>();
        const CBlockIndex* r = tip->GetAncestor(q);
        const CBlockIndex* want = exp < 0 ? nullptr : &g_tall[exp];
        if (r != want) return strprintf("GetAncestor(%d) of the block at height %d returns %s, the specification the block at height %d", q, h, r ? strprintf("height %d", r->nHeight) : "nullptr", exp);
        R().Count("tall_ancestor_queries");
    }
    if (h > 0) {
        if (!tip->pskip) return strprintf("block at height %d has no skip pointer", h);
        const int sh = tip->pskip->nHeight;
        if (sh < 0 || sh >= h || tip->pskip != &g_tall[sh]) return strprintf("pskip of height %d is not a proper ancestor (height %d)", h, sh);
        if (sh != row["sh"].getInt<int>()) R().Deviation(row["h"], strprintf("skip height %d, GetSkipHeight as specified gives %d", sh, row["sh"].getInt<int>()), UniValue(sh));
    }
    R().Count("tall_rows"); R().Count("tall_locator_entries", (int64_t)have.size());
    return "";
}

int main(int argc, char** argv)
{
    if (argc < 3) return 2;
    const std::string mode = argv[1];
    if (mode == "drive") return DriveMain(std::strtoull(argv[2], nullptr, 10), argc > 3 ? argv[3] : "quick");
    if (mode == "table") return TableMain(argv[2], CheckRow);
    if (mode == "tall") { if (argc < 4) return 2; InstallAbortHandlers(); BuildTall(std::strtoull(argv[3], nullptr, 10) + 1); return TableMain(argv[2], CheckTallRow); }
    return 2;
}
