// Adapter for specs/Subsidy (C31): GetBlockSubsidy of the real validation code, evaluated with the real consensus
// parameters of every built-in chain, is compared with the rows of the TLC-generated schedule table.
//   subsidy params <any.ndjson>                     -> one info line per built-in chain: its halving interval
//   subsidy table  <rows.ndjson> <stride> <offset>  -> per row: the boundary points exactly, then every stride-th
//                                                      height of [from, to] (and both ends) must yield the row's subsidy
#include <vfh.h>
#include <chainparams.h>
#include <common/args.h>
#include <consensus/amount.h>
#include <consensus/params.h>
#include <kernel/chainparams.h>
#include <util/chaintype.h>
#include <validation.h>
using namespace vfh;

namespace {
struct Chain { std::string name; std::unique_ptr<const CChainParams> params; };
std::vector<Chain>& Chains()
{
    static std::vector<Chain> chains = [] {
        std::vector<Chain> v;
        static ArgsManager args;
        for (ChainType t : {ChainType::MAIN, ChainType::TESTNET, ChainType::TESTNET4, ChainType::SIGNET, ChainType::REGTEST}) {
            v.push_back({ChainTypeToString(t), CreateChainParams(args, t)});
        }
        return v;
    }();
    return chains;
}

std::string CheckRow(const UniValue& row, int64_t stride, int64_t offset)
{
    const int64_t interval = I(row["interval"]);
    const CAmount want = AmountFromLimbs(row["subsidy"]);
    const int64_t from = I(row["from"]), to = I(row["to"]);
    if (from < 0 || to > std::numeric_limits<int>::max() || from > to || stride < 1) return "harness: bad range in row";
    int used = 0;
    for (const Chain& c : Chains()) {
        const Consensus::Params& cp = c.params->GetConsensus();
        if (cp.nSubsidyHalvingInterval != interval) continue;
        ++used;
        // boundary heights, each with the value the specification computed for that very height
        if (row.exists("points")) {
            const UniValue& pts = row["points"];
            for (size_t i = 0; i < pts.size(); ++i) {
                const int h = pts[i]["h"].getInt<int>();
                const CAmount exp = AmountFromLimbs(pts[i]["v"]);
                const CAmount have = GetBlockSubsidy(h, cp);
                R().Count("calls");
                if (have != exp) return c.name + ": GetBlockSubsidy(" + std::to_string(h) + ") = " + std::to_string(have) + ", specification says " + std::to_string(exp);
                if (have != GetBlockSubsidy(h, cp)) return c.name + ": second evaluation differs at height " + std::to_string(h);
            }
        }
        // the range of the row: constant subsidy
        auto at = [&](int64_t h) -> std::string {
            const CAmount have = GetBlockSubsidy((int)h, cp);
            if (have == want) return "";
            return c.name + ": GetBlockSubsidy(" + std::to_string(h) + ") = " + std::to_string(have) + ", specification says " + std::to_string(want) +
                   " for every height in " + std::to_string(I(row["lo"])) + ".." + std::to_string(I(row["hi"])) + " (halving count " + std::to_string(I(row["k"])) + ")";
        };
        int64_t n = 0;
        for (int64_t h = from + (stride > 1 ? offset % stride : 0); h <= to; h += stride, ++n) {
            if (GetBlockSubsidy((int)h, cp) != want) return at(h);
        }
        for (int64_t h : {from, to}) { ++n; if (auto s = at(h); !s.empty()) return s; }
        R().Count("calls", n);
    }
    if (!used) return "harness: no built-in chain has halving interval " + std::to_string(interval);
    R().Count("chain_rows", used);
    return "";
}
} // namespace

int main(int argc, char** argv)
{
    if (argc < 3) return 2;
    const std::string mode = argv[1];
    if (mode == "params") {
        for (const Chain& c : Chains()) {
            Emit(Obj({{"kind", "info"}, {"chain", c.name}, {"interval", (int64_t)c.params->GetConsensus().nSubsidyHalvingInterval}}));
        }
        R().Summary();
        return 0;
    }
    if (mode == "table") {
        const int64_t stride = argc > 3 ? std::stoll(argv[3]) : 1;
        const int64_t offset = argc > 4 ? std::stoll(argv[4]) : 0;
        return TableMain(argv[2], [&](const UniValue& row) { return CheckRow(row, stride, offset); });
    }
    return 2;
}
