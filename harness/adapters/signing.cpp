// Adapter for specs/MiniscriptSat (C46). A row is a miniscript expression (or a whole non-miniscript descriptor) with tokens for
// keys (@A @B @C, @N = an unspendable point) and hashes (#H1_sha256 ...), plus a list of cases: which private keys and preimages the
// signer has, the spending transaction's version / nLockTime and this input's nSequence, and the specification's verdict
// sat (semantically satisfiable at all) / satk (the same without preimages).
// The expression is wrapped into wsh(...) and tr(@N, ...), parsed and expanded by the real descriptor code (what the real parser /
// type checker rejects is counted and skipped), the output is funded in a synthetic transaction and spent:
//   ProduceSignature with a FlatSigningProvider holding exactly the available keys (preimages in SignatureData), and SignTransaction.
// C46 is one-directional: complete => sat, and complete => an independent VerifyScript with the standard flags passes.
// sat && !complete is only counted.
#include <vfh.h>

#include <addresstype.h>
#include <coins.h>
#include <crypto/ripemd160.h>
#include <crypto/sha256.h>
#include <hash.h>
#include <key.h>
#include <policy/policy.h>
#include <primitives/transaction.h>
#include <pubkey.h>
#include <script/descriptor.h>
#include <script/interpreter.h>
#include <script/script.h>
#include <script/sign.h>
#include <script/signingprovider.h>
#include <util/strencodings.h>
#include <util/translation.h>

#include <cstring>

using namespace vfh;

namespace {

using Bytes = std::vector<unsigned char>;
int g_seed = 1;

const CKey& K(char name)
{
    static std::map<char, CKey> keys;
    auto it = keys.find(name);
    if (it == keys.end()) {
        Bytes b(32, (unsigned char)name);
        b[0] = 0x01;
        b[1] = (unsigned char)g_seed;
        CKey k;
        k.Set(b.begin(), b.end(), true);
        it = keys.emplace(name, k).first;
    }
    return it->second;
}
Bytes Preimage(const std::string& h) { return Bytes(32, (unsigned char)(h == "H1" ? 0xA1 : 0xB2)); }
Bytes HashOf(const std::string& fn, const Bytes& pre)
{
    if (fn == "sha256") { Bytes o(32); CSHA256().Write(pre.data(), pre.size()).Finalize(o.data()); return o; }
    if (fn == "hash256") { Bytes o(32); CHash256().Write(pre).Finalize(o); return o; }
    if (fn == "ripemd160") { Bytes o(20); CRIPEMD160().Write(pre.data(), pre.size()).Finalize(o.data()); return o; }
    if (fn == "hash160") { Bytes o(20); CHash160().Write(pre).Finalize(o); return o; }
    throw std::runtime_error("unknown hash function " + fn);
}
const char* NUMS = "50929b74c1a04954b78b4b6035e97a5e078a5a0f28ec96d547bfee9ace803ac0";

// replace the tokens of the specification's text; xonly: keys as 32-byte x-only hex (inside tr)
std::string Concretise(const std::string& text, bool taproot)
{
    std::string out;
    for (size_t i = 0; i < text.size();) {
        const char c = text[i];
        if (c == '@') {
            const char name = text.at(i + 1);
            if (name == 'N') out += NUMS;
            else {
                const CPubKey pk = K(name).GetPubKey();
                out += taproot ? HexStr(XOnlyPubKey(pk)) : HexStr(pk);
            }
            i += 2;
        } else if (c == '#') {
            // #H1_sha256
            const std::string h = text.substr(i + 1, 2);
            size_t j = i + 4;
            std::string fn;
            while (j < text.size() && (std::isalnum((unsigned char)text[j]))) fn += text[j++];
            out += HexStr(HashOf(fn, Preimage(h)));
            i = j;
        } else if (c == '%') {
            out += taproot ? "multi_a" : "multi";
            i += 2;
        } else {
            out += c;
            ++i;
        }
    }
    return out;
}

struct Target {
    std::string desc;
    CScript spk;
    FlatSigningProvider solving;   // scripts, pubkeys, taproot trees: no private keys
};

bool Prepare(const std::string& desc, Target& t, std::string& error)
{
    FlatSigningProvider parsed;
    auto descs = Parse(desc, parsed, error, /*require_checksum=*/false);
    if (descs.empty()) return false;
    if (descs.size() != 1) { error = "multipath"; return false; }
    std::vector<CScript> spks;
    FlatSigningProvider out;
    if (!descs[0]->Expand(0, parsed, spks, out) || spks.size() != 1) { error = "cannot expand"; return false; }
    t.desc = desc;
    t.spk = spks[0];
    t.solving = out;
    t.solving.keys.clear();
    return true;
}

bool IndependentVerify(const CMutableTransaction& mtx, const CTxOut& utxo, const CScript& script_sig, const CScriptWitness& wit, std::string& why)
{
    const CTransaction tx(mtx);
    PrecomputedTransactionData txdata;
    txdata.Init(tx, std::vector<CTxOut>{utxo}, true);
    ScriptError err;
    if (!VerifyScript(script_sig, utxo.scriptPubKey, &wit, STANDARD_SCRIPT_VERIFY_FLAGS,
                      TransactionSignatureChecker(&tx, 0, utxo.nValue, txdata, MissingDataBehavior::FAIL), &err)) {
        why = ScriptErrorString(err);
        return false;
    }
    return true;
}

std::string CheckCase(const Target& t, const UniValue& c, const std::string& label, const CKey* key_a = nullptr)
{
    const bool sat = c["sat"].get_bool(), satk = c["satk"].get_bool();
    FlatSigningProvider prov = t.solving;
    std::string have;
    for (size_t i = 0; i < c["k"].size(); ++i) {
        const CKey& k = (key_a && c["k"][i].get_str() == "A") ? *key_a : K(c["k"][i].get_str()[0]);
        prov.keys[k.GetPubKey().GetID()] = k;
        prov.pubkeys[k.GetPubKey().GetID()] = k.GetPubKey();
        have += c["k"][i].get_str();
    }
    CMutableTransaction spend;
    spend.version = (uint32_t)c["tv"].getInt<int>();
    spend.nLockTime = (uint32_t)std::stoull(c["lock"].get_str());
    spend.vin.emplace_back(COutPoint(Txid::FromUint256(uint256{(uint8_t)0x77}), 0));
    spend.vin[0].nSequence = (uint32_t)std::stoull(c["seq"].get_str());
    spend.vout.emplace_back(40000, CScript() << OP_TRUE);
    const CTxOut utxo(50000, t.spk);
    const std::string ctx = label + " keys={" + have + "} pre=" + c["p"].write() + " version=" + std::to_string(spend.version) + " nSequence=" + c["seq"].get_str() + " nLockTime=" + c["lock"].get_str();

    // ---- ProduceSignature
    {
        PrecomputedTransactionData txdata;
        txdata.Init(spend, std::vector<CTxOut>{utxo}, true);
        MutableTransactionSignatureCreator creator(spend, 0, utxo.nValue, &txdata, {.sighash_type = SIGHASH_DEFAULT});
        SignatureData sigdata;
        for (size_t i = 0; i < c["p"].size(); ++i) {
            const Bytes pre = Preimage(c["p"][i].get_str());
            sigdata.sha256_preimages[HashOf("sha256", pre)] = pre;
            sigdata.hash256_preimages[HashOf("hash256", pre)] = pre;
            sigdata.ripemd160_preimages[HashOf("ripemd160", pre)] = pre;
            sigdata.hash160_preimages[HashOf("hash160", pre)] = pre;
        }
        const bool complete = ProduceSignature(prov, creator, t.spk, sigdata);
        R().Count("produce_calls");
        if (complete != sigdata.complete) return ctx + ": ProduceSignature returns " + (complete ? "true" : "false") + " but SignatureData.complete is the opposite";
        if (complete) {
            R().Count("produce_complete");
            if (!sat) return ctx + ": ProduceSignature reports complete although the specification says the script cannot be satisfied with this material";
            std::string why;
            if (!IndependentVerify(spend, utxo, sigdata.scriptSig, sigdata.scriptWitness, why)) return ctx + ": ProduceSignature reports complete but the spend fails VerifyScript with the standard flags: " + why;
        } else {
            R().Count(sat ? "produce_incomplete_though_satisfiable" : "produce_incomplete_unsatisfiable");
        }
    }
    // ---- SignTransaction (no way to hand preimages over: the verdict without preimages applies)
    {
        CMutableTransaction mtx = spend;
        std::map<COutPoint, Coin> coins;
        coins.emplace(mtx.vin[0].prevout, Coin(utxo, /*nHeightIn=*/1, /*fCoinBaseIn=*/false));
        std::map<int, bilingual_str> errors;
        const bool complete = SignTransaction(mtx, &prov, coins, {.sighash_type = SIGHASH_DEFAULT}, errors);
        R().Count("signtx_calls");
        if (complete != errors.empty()) return ctx + ": SignTransaction's result and its error map disagree";
        if (complete) {
            R().Count("signtx_complete");
            if (!satk) return ctx + ": SignTransaction reports complete although the specification says the script cannot be satisfied with this material";
            std::string why;
            if (!IndependentVerify(mtx, utxo, mtx.vin[0].scriptSig, mtx.vin[0].scriptWitness, why)) return ctx + ": SignTransaction reports complete but the spend fails VerifyScript with the standard flags: " + why;
        } else {
            R().Count(satk ? "signtx_incomplete_though_satisfiable" : "signtx_incomplete_unsatisfiable");
        }
    }
    return "";
}

std::string CheckRow(const UniValue& row)
{
    const std::string kind = row["t"].get_str(), text = row["ms"].get_str();
    std::vector<std::pair<std::string, std::string>> descs;   // (label, descriptor)
    if (kind == "ms") {
        descs.emplace_back("wsh", "wsh(" + Concretise(text, false) + ")");
        descs.emplace_back("tr", std::string("tr(") + NUMS + "," + Concretise(text, true) + ")");
    } else if (text[0] == '!') {
        // raw outputs for an uncompressed key in a witness program: solvable, never spendable under the standard flags
        Bytes b(32, (unsigned char)'A');
        b[0] = 0x01;
        b[1] = (unsigned char)g_seed;
        CKey ku;
        ku.Set(b.begin(), b.end(), /*fCompressedIn=*/false);
        const CPubKey pku = ku.GetPubKey();
        Target t;
        t.desc = text;
        t.solving.pubkeys[pku.GetID()] = pku;
        if (text.rfind("!wpkh_", 0) == 0) {
            t.spk = CScript() << OP_0 << ToByteVector(pku.GetID());
        } else if (text.rfind("!sh_wpkh_", 0) == 0) {
            const CScript redeem = CScript() << OP_0 << ToByteVector(pku.GetID());
            t.solving.scripts[CScriptID(redeem)] = redeem;
            t.spk = GetScriptForDestination(ScriptHash(redeem));
        } else {
            const CScript ws = CScript() << ToByteVector(pku) << OP_CHECKSIG;
            t.solving.scripts[CScriptID(ws)] = ws;
            t.spk = GetScriptForDestination(WitnessV0ScriptHash(ws));
        }
        R().Count("accepted_raw");
        for (size_t i = 0; i < row["cases"].size(); ++i) {
            std::string why = CheckCase(t, row["cases"][i], text, &ku);
            if (!why.empty()) return why;
        }
        return "";
    } else {
        const bool taproot = text.rfind("tr(", 0) == 0 || text.rfind("rawtr(", 0) == 0;
        descs.emplace_back("plain", Concretise(text, taproot));
    }
    for (const auto& [label, desc] : descs) {
        Target t;
        std::string error;
        if (!Prepare(desc, t, error)) {
            // the real parser / type checker is the judge of what is a valid, sane expression
            if (kind != "ms") return "descriptor " + desc + " rejected: " + error;
            const std::string cls = error.find("is not sane") != std::string::npos ? "not_sane" : error.find("is invalid") != std::string::npos ? "invalid" :
                                    error.find("is not satisfiable") != std::string::npos ? "not_satisfiable" : "other";
            R().Count("rejected_" + label + "_" + cls);
            if (cls == "other") R().Count("rejected_other:" + error.substr(0, 60));
            continue;
        }
        R().Count("accepted_" + label);
        if (kind == "ms") {
            static const char* frags[] = {"pk(", "pkh(", "pk_k(", "pk_h(", "older(", "after(", "sha256(", "hash256(", "ripemd160(", "hash160(", "and_v(", "and_b(", "and_n(",
                                          "or_b(", "or_c(", "or_d(", "or_i(", "andor(", "thresh(", "%M("};
            for (const char* f : frags) if (text.find(f) != std::string::npos) R().Count("frag_" + label + ":" + std::string(f, strlen(f) - 1));
            // wrapper letters: the run of letters before a ':'
            for (size_t i = 0; i < text.size(); ++i) {
                if (text[i] != ':') continue;
                for (size_t j = i; j-- > 0 && std::isalpha((unsigned char)text[j]);) R().Count(std::string("wrap_") + label + ":" + text[j]);
            }
        }
        for (size_t i = 0; i < row["cases"].size(); ++i) {
            std::string why = CheckCase(t, row["cases"][i], label + " " + text);
            if (!why.empty()) return why;
        }
    }
    return "";
}

} // namespace

int main(int argc, char** argv)
{
    if (argc < 3) return 2;
    ECC_Context ecc;
    if (argc > 3) g_seed = std::atoi(argv[3]);
    if (std::string(argv[1]) == "table") return TableMain(argv[2], CheckRow);
    return 2;
}
