// Adapter for specs/TxRequest (C34): drives the real TxRequestTracker(deterministic=true).
//   txrequest priorities <npeers> <ncandidates>   ComputePriority of every (txhash candidate, peer, preferred): the tie-break
//                                                 order is a constant of the model, read here before TLC runs
//   txrequest replay <tests.ndjson>               engine E1: replays model transitions, compares the answers of the query interface
//   txrequest drive <seed> <ncalls> <npeers> <ntxs>   engine E3: seeded random call sequence, one JSON line per call
#include <vfh.h>
#include <txrequest.h>
#include <crypto/sha256.h>
#include <primitives/transaction_identifier.h>
#include <uint256.h>
#include <chrono>
#include <memory>
#include <set>

using namespace vfh;

namespace {
// txhash candidate c: SHA256 of the byte c (as in the repository's txrequest fuzz target)
uint256 HashOf(int c)
{
    uint256 h; const uint8_t b = static_cast<uint8_t>(c);
    CSHA256().Write(&b, 1).Finalize(h.begin());
    return h;
}
std::chrono::microseconds T(int64_t k) { return std::chrono::microseconds{1000000 + k}; }
GenTxid Gtx(const uint256& h, const std::string& kind)
{
    if (kind == "wtxid") return GenTxid{Wtxid::FromUint256(h)};
    if (kind == "txid") return GenTxid{Txid::FromUint256(h)};
    throw std::runtime_error("unknown kind " + kind);
}
std::string KindOf(const GenTxid& g) { return g.IsWtxid() ? "wtxid" : "txid"; }

struct World {
    std::unique_ptr<TxRequestTracker> tracker{std::make_unique<TxRequestTracker>(/*deterministic=*/true)};
    std::vector<uint256> hashes;      // txhash of model transaction t is hashes[t - 1]
    int npeers{0}, nnows{0};
    std::vector<UniValue> history;    // every call made so far (to clone the tracker for probing)

    explicit World(const UniValue& init)
    {
        for (size_t i = 0; i < init["hashes"].size(); ++i) hashes.push_back(HashOf(init["hashes"][i].getInt<int>()));
        npeers = init["npeers"].getInt<int>();
        nnows = init["nnows"].getInt<int>();
    }
    int ntxs() const { return (int)hashes.size(); }
    const uint256& H(int t) const { return hashes.at(t - 1); }
    int TxIndex(const uint256& h) const
    {
        for (size_t i = 0; i < hashes.size(); ++i) if (hashes[i] == h) return (int)i + 1;
        throw std::runtime_error("tracker returned a txhash that was never announced");
    }

    // one public call; for GetRequestable the result is {req: [{t, k}], expired: matrix[peer][tx] of kind or "-"}
    UniValue Call(TxRequestTracker& tr, const UniValue& a) const
    {
        const std::string op = a[0].get_str();
        if (op == "inv") {
            tr.ReceivedInv(a[1].getInt<int>(), Gtx(H(a[2].getInt<int>()), a[3].get_str()), a[4].get_bool(), T(a[5].getInt<int64_t>()));
        } else if (op == "getreq") {
            const NodeId peer = a[1].getInt<int>();
            const auto now = T(a[2].getInt<int64_t>());
            std::vector<std::pair<NodeId, GenTxid>> expired;
            const std::vector<GenTxid> req = tr.GetRequestable(peer, now, &expired);
            tr.PostGetRequestableSanityCheck(now);
            UniValue rq(UniValue::VARR);
            for (const GenTxid& g : req) rq.push_back(Obj({{"t", TxIndex(g.ToUint256())}, {"k", KindOf(g)}}));
            std::vector<std::vector<std::string>> m(npeers, std::vector<std::string>(ntxs(), "-"));
            for (const auto& [p, g] : expired) {
                if (p < 1 || p > npeers) throw std::runtime_error("expired request of an unknown peer");
                std::string& cell = m[p - 1][TxIndex(g.ToUint256()) - 1];
                if (cell != "-") throw std::runtime_error("the same request reported as expired twice");
                cell = KindOf(g);
            }
            UniValue em(UniValue::VARR);
            for (const auto& row : m) { UniValue r(UniValue::VARR); for (const auto& c : row) r.push_back(c); em.push_back(r); }
            return Obj({{"req", rq}, {"expired", em}});
        } else if (op == "requested") {
            tr.RequestedTx(a[1].getInt<int>(), H(a[2].getInt<int>()), T(a[3].getInt<int64_t>()));
        } else if (op == "response") {
            tr.ReceivedResponse(a[1].getInt<int>(), H(a[2].getInt<int>()));
        } else if (op == "forget") {
            tr.ForgetTxHash(H(a[1].getInt<int>()));
        } else if (op == "disconnect") {
            tr.DisconnectedPeer(a[1].getInt<int>());
        } else {
            throw std::runtime_error("unknown op " + op);
        }
        return UniValue{"none"};
    }
    UniValue Apply(const UniValue& a)
    {
        UniValue r = Call(*tracker, a);
        tracker->SanityCheck();
        history.push_back(a);
        return r;
    }
    UniValue Counters(const TxRequestTracker& tr) const
    {
        UniValue cnt(UniValue::VARR);
        for (int p = 1; p <= npeers; ++p) cnt.push_back(Arr({(int64_t)tr.Count(p), (int64_t)tr.CountInFlight(p), (int64_t)tr.CountCandidates(p)}));
        return cnt;
    }
    UniValue Project()
    {
        UniValue cand(UniValue::VARR);
        for (int t = 1; t <= ntxs(); ++t) {
            std::vector<NodeId> peers;
            tracker->GetCandidatePeers(H(t), peers);
            std::set<NodeId> s(peers.begin(), peers.end());
            if (s.size() != peers.size()) throw std::runtime_error("GetCandidatePeers lists a peer twice");
            UniValue row(UniValue::VARR);
            for (int p = 1; p <= npeers; ++p) { row.push_back(s.count(p) > 0); s.erase(p); }
            if (!s.empty()) throw std::runtime_error("GetCandidatePeers lists an unknown peer");
            cand.push_back(row);
        }
        // What would GetRequestable answer for each peer at each time? Asked on clones (the call moves the tracker's time point).
        UniValue probe(UniValue::VARR);
        for (int n = 0; n < nnows; ++n) {
            TxRequestTracker clone(/*deterministic=*/true);
            for (const UniValue& a : history) Call(clone, a);
            UniValue per_peer(UniValue::VARR);
            for (int p = 1; p <= npeers; ++p) {
                UniValue ts(UniValue::VARR);
                for (const GenTxid& g : clone.GetRequestable(p, T(n))) ts.push_back(TxIndex(g.ToUint256()));
                per_peer.push_back(ts);
            }
            clone.PostGetRequestableSanityCheck(T(n));
            clone.SanityCheck();
            probe.push_back(per_peer);
        }
        return Obj({{"cnt", Counters(*tracker)}, {"size", (int64_t)tracker->Size()}, {"cand", cand}, {"probe", probe}});
    }
};

int Priorities(int npeers, int ncand)
{
    TxRequestTracker tr(/*deterministic=*/true);
    for (int c = 0; c < ncand; ++c)
        for (int p = 1; p <= npeers; ++p)
            for (int pref = 0; pref < 2; ++pref)
                Emit(Obj({{"h", c}, {"p", p}, {"pref", pref == 1}, {"prio", std::to_string(tr.ComputePriority(HashOf(c), p, pref == 1))}}));
    return 0;
}

// E3: a seeded random driver in the style of the repository's fuzz target (clock moving in both directions, the usual
// GetRequestable -> RequestedTx pattern as well as arbitrary calls); every call is logged with its answer and the counters.
struct Rng {
    uint64_t s;
    explicit Rng(uint64_t seed) : s(seed * 0x9E3779B97F4A7C15ULL + 0x1234567) {}
    uint64_t next() { s ^= s << 13; s ^= s >> 7; s ^= s << 17; return s; }
    int below(int n) { return (int)((next() >> 11) % (uint64_t)n); }
};
int Drive(uint64_t seed, int ncalls, int npeers, int ntxs)
{
    InstallAbortHandlers();
    Rng rng(seed);
    UniValue init(UniValue::VOBJ);
    { UniValue hs(UniValue::VARR); for (int t = 0; t < ntxs; ++t) hs.push_back(t); init.pushKV("hashes", hs); }
    init.pushKV("npeers", npeers); init.pushKV("nnows", 0);
    std::unique_ptr<World> w;
    int64_t now = 0;
    static const int DELTAS[] = {-3, -1, 0, 0, 1, 1, 2, 3, 5, 8};
    auto log = [&](const char* e, UniValue o, const UniValue& res) {
        o.pushKV("e", e);
        if (res.isObject()) {
            o.pushKV("req", res["req"]);
            UniValue ex(UniValue::VARR);
            for (size_t p = 0; p < res["expired"].size(); ++p)
                for (size_t t = 0; t < res["expired"][p].size(); ++t)
                    if (res["expired"][p][t].get_str() != "-") ex.push_back(Obj({{"p", (int64_t)p + 1}, {"t", (int64_t)t + 1}, {"k", res["expired"][p][t].get_str()}}));
            o.pushKV("expired", ex);
        }
        o.pushKV("cnt", w->Counters(*w->tracker)); o.pushKV("size", (int64_t)w->tracker->Size());
        Emit(o);
    };
    for (int i = 0; i < ncalls; ++i) {
        R().cur_step = i;
        if (!w || rng.below(2000) == 0) {
            w = std::make_unique<World>(init); now = 50;
            Emit(Obj({{"e", "Reset"}}));
            continue;
        }
        const int c = rng.below(100);
        // txhashes are drawn with a skew so that several peers announce the same ones and selection has to choose
        const int p = 1 + rng.below(npeers), t = 1 + std::min(rng.below(ntxs), rng.below(ntxs));
        // the clock drifts forward, occasionally backwards
        if (rng.below(3) == 0) { now += DELTAS[rng.below(10)]; if (now < 10) now = 10; }
        UniValue a(UniValue::VARR);
        if (c < 42) {
            const bool pref = rng.below(2) == 1; const std::string k = rng.below(3) == 0 ? "txid" : "wtxid";
            const int64_t rt = now + DELTAS[rng.below(10)];
            a = Arr({"inv", p, t, k, pref, rt});
            R().cur_action = a;
            log("inv", Obj({{"p", p}, {"t", t}, {"k", k}, {"pref", pref}, {"time", rt}}), w->Apply(a));
        } else if (c < 72) {
            a = Arr({"getreq", p, now});
            R().cur_action = a;
            const UniValue res = w->Apply(a);
            log("getreq", Obj({{"p", p}, {"now", now}}), res);
            // the usual client: request (most of) what was offered
            for (size_t j = 0; j < res["req"].size() && i + 1 < ncalls; ++j) {
                if (rng.below(4) == 0) continue;
                const int tt = res["req"][j]["t"].getInt<int>();
                const int64_t ex = now + 1 + rng.below(6);
                UniValue b = Arr({"requested", p, tt, ex});
                R().cur_action = b; ++i;
                log("requested", Obj({{"p", p}, {"t", tt}, {"time", ex}}), w->Apply(b));
            }
        } else if (c < 79) {
            const int64_t ex = now + DELTAS[rng.below(10)];
            a = Arr({"requested", p, t, ex});
            R().cur_action = a;
            log("requested", Obj({{"p", p}, {"t", t}, {"time", ex}}), w->Apply(a));
        } else if (c < 92) {
            a = Arr({"response", p, t});
            R().cur_action = a;
            log("response", Obj({{"p", p}, {"t", t}}), w->Apply(a));
        } else if (c < 97) {
            a = Arr({"forget", t});
            R().cur_action = a;
            log("forget", Obj({{"t", t}}), w->Apply(a));
        } else {
            a = Arr({"disconnect", p});
            R().cur_action = a;
            log("disconnect", Obj({{"p", p}}), w->Apply(a));
        }
    }
    return 0;
}
} // namespace

int main(int argc, char** argv)
{
    if (argc < 3) { std::cerr << "usage: txrequest replay <tests.ndjson> | priorities <npeers> <ncand> | drive <seed> <n> <npeers> <ntxs>\n"; return 2; }
    const std::string mode = argv[1];
    if (mode == "replay") {
        return ReplayMain<World>(argv[2],
            [](const UniValue& init) { return std::make_unique<World>(init); },
            [](World& w, const UniValue& a) { return w.Apply(a); },
            [](World& w) { return w.Project(); });
    }
    if (mode == "priorities" && argc >= 4) return Priorities(std::atoi(argv[2]), std::atoi(argv[3]));
    if (mode == "drive" && argc >= 6) return Drive(std::strtoull(argv[2], nullptr, 10), std::atoi(argv[3]), std::atoi(argv[4]), std::atoi(argv[5]));
    std::cerr << "unknown mode\n";
    return 2;
}
