// Adapter for specs/TxGraph (C25): replays TLC-generated operation sequences on a real TxGraph (MakeTxGraph).
//   txgraph replay <tests.ndjson>
// Every test is {init, steps:[{a, r, exp}]} as emitted by TxGraph.tla (a = the call with its arguments, r = the structural answer the
// specification predicts, exp = the specification's state after the step). The adapter
//   * performs the call and compares the STRUCTURAL answers (existence, ancestors, descendants, cluster membership, counts, oversize
//     status, individual feerates) with r: a difference is a mismatch (EXACT);
//   * never judges ORDERING answers (GetCluster order, chunk feerates, CompareMainOrder, BlockBuilder chunks, worst chunk, diagrams): it
//     collects all of them that were obtained between two calls that may change a linearization and writes them, together with the
//     specification's state they were given in, to <tests.ndjson>.obs - TxGraphObs.tla (TLC) decides whether one linearization per
//     cluster explains them all;
//   * compares what Trim() removed with the set the specification chose among those its postcondition allows; if the implementation
//     chose another one, the set and the structural answers right after it go to the .obs file (TLC checks the postcondition and the
//     answers) and the behaviour ends there;
//   * calls SanityCheck() after every step.
// It does not evaluate any precondition or compute anything about the graph itself: which calls are allowed is decided by the specification.
#include <vfh.h>
#include <txgraph.h>
#include <util/feefrac.h>
#include <algorithm>
#include <compare>
#include <fstream>
#include <memory>
#include <optional>
#include <set>
#include <vector>

using namespace vfh;

namespace {
struct SimRef : public TxGraph::Ref {
    int id{0};
    explicit SimRef(int i) : id(i) {}
};
int IdOf(const TxGraph::Ref* r) { return static_cast<const SimRef*>(r)->id; }
UniValue IdList(const std::vector<TxGraph::Ref*>& v)
{
    UniValue a(UniValue::VARR);
    for (auto* r : v) a.push_back(IdOf(r));
    return a;
}
UniValue SortedIds(const std::vector<TxGraph::Ref*>& v, bool* dup = nullptr)
{
    std::vector<int> ids;
    for (auto* r : v) ids.push_back(IdOf(r));
    std::sort(ids.begin(), ids.end());
    if (dup) *dup = std::adjacent_find(ids.begin(), ids.end()) != ids.end();
    UniValue a(UniValue::VARR);
    for (int i : ids) a.push_back(i);
    return a;
}
UniValue FS(const FeeFrac& f) { UniValue a(UniValue::VARR); a.push_back((int64_t)f.fee); a.push_back((int64_t)f.size); return a; }

struct World {
    int n{0};
    std::unique_ptr<TxGraph> g;
    std::vector<std::unique_ptr<SimRef>> refs;   // refs[t], t = 1..n; an empty (never added) Ref when the slot is unused
    std::unique_ptr<TxGraph::BlockBuilder> bb;
    // ordering answers of the current epoch, and the state they were given in
    UniValue answers{UniValue::VARR};
    UniValue walk{UniValue::VNULL};              // the walk of the long-lived BlockBuilder
    std::ofstream* obs{nullptr};
    size_t test{0};

    explicit World(const UniValue& init, std::ofstream* o, size_t t) : obs(o), test(t)
    {
        n = init["ref"].size();
        const UniValue& cfg = init["cfg"];
        g = MakeTxGraph(cfg["count"].getInt<int>(), cfg["size"].getInt<int64_t>(), cfg["acc"].getInt<int64_t>(),
                        [](const TxGraph::Ref& a, const TxGraph::Ref& b) noexcept { return IdOf(&a) <=> IdOf(&b); });
        refs.resize(n + 1);
        for (int t2 = 1; t2 <= n; ++t2) refs[t2] = std::make_unique<SimRef>(t2);
    }
    ~World()
    {
        bb.reset();
        g.reset();      // Refs may outlive the graph
        refs.clear();
    }
    SimRef& Ref(int t) { return *refs.at(t); }
    static TxGraph::Level Lvl(const UniValue& l) { return l.get_str() == "main" ? TxGraph::Level::MAIN : TxGraph::Level::TOP; }
    std::string LvlName(const UniValue& l) const { return (l.get_str() == "top" && g->HaveStaging()) ? "staging" : "main"; }
    std::vector<const TxGraph::Ref*> RefSet(const UniValue& s)
    {
        std::vector<const TxGraph::Ref*> v;
        for (size_t i = 0; i < s.size(); ++i) v.push_back(&Ref(s[i].getInt<int>()));
        return v;
    }

    void Flush(const UniValue& state, size_t step)
    {
        if (answers.empty()) return;
        UniValue o(UniValue::VOBJ);
        o.pushKV("kind", "epoch"); o.pushKV("test", (uint64_t)test); o.pushKV("step", (uint64_t)step);
        o.pushKV("state", state); o.pushKV("ans", answers);
        *obs << o.write() << "\n";
        R().Count("epochs"); R().Count("ordering_answers", answers.size());
        answers = UniValue(UniValue::VARR);
    }
    void Answer(UniValue a) { answers.push_back(std::move(a)); }

    UniValue ClusterAnswer(const std::string& lvl, const std::vector<TxGraph::Ref*>& c)
    {
        return Obj({{"q", "cluster"}, {"lvl", lvl}, {"order", IdList(c)}});
    }
    // one BlockBuilder step: the current chunk (asked twice: the answer must not change), then Include or Skip
    void BuilderStep(TxGraph::BlockBuilder& b, UniValue& w, bool skip)
    {
        auto chunk = b.GetCurrentChunk();
        auto again = b.GetCurrentChunk();
        if (chunk != again) throw std::runtime_error("GetCurrentChunk gives two different answers without Include/Skip in between");
        if (!w["ended"].get_bool()) {
            if (chunk) {
                UniValue steps = w["steps"];
                steps.push_back(Obj({{"txs", IdList(chunk->first)}, {"fs", FS(chunk->second)}, {"dec", skip ? "skip" : "include"}}));
                w = Obj({{"q", "walk"}, {"steps", steps}, {"ended", false}});
            } else {
                w = Obj({{"q", "walk"}, {"steps", w["steps"]}, {"ended", true}});
            }
        } else if (chunk) {
            throw std::runtime_error("GetCurrentChunk returns a chunk after it had reported the end");
        }
        if (skip) b.Skip(); else b.Include();
    }
    static UniValue NewWalk() { return Obj({{"q", "walk"}, {"steps", UniValue(UniValue::VARR)}, {"ended", false}}); }
    // a complete walk with a fresh builder; pattern 0: include everything, k > 0: skip every chunk whose index is divisible by k
    UniValue FullWalk(int pattern)
    {
        auto b = g->GetBlockBuilder();
        UniValue w = NewWalk();
        for (int i = 0; i < 3 * n + 2 && !w["ended"].get_bool(); ++i) BuilderStep(*b, w, pattern > 0 && (i % pattern) == pattern - 1);
        return w;
    }
    // every ordering answer about main (which must not be oversized)
    void MainOrdering(const UniValue& exists, int pattern)
    {
        std::set<std::vector<int>> seen;
        std::vector<int> txs;
        for (int t = 1; t <= n; ++t) if (exists[t - 1].get_bool()) txs.push_back(t);
        for (int t : txs) {
            auto c = g->GetCluster(Ref(t), TxGraph::Level::MAIN);
            std::vector<int> ids; for (auto* r : c) ids.push_back(IdOf(r));
            if (seen.insert(ids).second) Answer(ClusterAnswer("main", c));
            Answer(Obj({{"q", "chunkfr"}, {"t", t}, {"fs", FS(g->GetMainChunkFeerate(Ref(t)))}}));
        }
        for (int a : txs) for (int b : txs) {
            auto c = g->CompareMainOrder(Ref(a), Ref(b));
            Answer(Obj({{"q", "cmp"}, {"a", a}, {"b", b}, {"r", c < 0 ? -1 : c > 0 ? 1 : 0}}));
        }
        auto [wc, wf] = g->GetWorstMainChunk();
        Answer(Obj({{"q", "worst"}, {"txs", IdList(wc)}, {"fs", FS(wf)}}));
        Answer(FullWalk(0));
        if (pattern > 0) Answer(FullWalk(pattern));
    }
    // exact = false: the specification leaves IsOversized open here (stale main status while staging exists) and says "treat as oversized"
    UniValue Struct(TxGraph::Level lvl, bool expect_oversized, bool exact = true)
    {
        UniValue o(UniValue::VOBJ);
        o.pushKV("count", (int64_t)g->GetTransactionCount(lvl));
        const bool ov = g->IsOversized(lvl);
        o.pushKV("ov", Obj({{"flag", exact ? ov : expect_oversized}, {"exact", exact}}));
        UniValue ex(UniValue::VARR);
        for (int t = 1; t <= n; ++t) ex.push_back(g->Exists(Ref(t), lvl));
        o.pushKV("exists", ex);
        UniValue rel(UniValue::VARR);
        if (!ov && !expect_oversized) {
            for (int t = 1; t <= n; ++t) {
                bool d1, d2, d3;
                UniValue e = Obj({{"anc", SortedIds(g->GetAncestors(Ref(t), lvl), &d1)}, {"desc", SortedIds(g->GetDescendants(Ref(t), lvl), &d2)},
                                  {"cluster", SortedIds(g->GetCluster(Ref(t), lvl), &d3)}});
                if (d1 || d2 || d3) throw std::runtime_error("a transaction is reported twice");
                rel.push_back(e);
            }
        }
        o.pushKV("rel", rel);
        return o;
    }

    // returns the structural answer (compared with r by the caller); ordering answers go to `answers`
    UniValue Query(const UniValue& a, const UniValue& r, size_t step)
    {
        const std::string op = a[0].get_str();
        bool dup = false;
        if (op == "exists") return g->Exists(Ref(a[1].getInt<int>()), Lvl(a[2]));
        if (op == "count") return (int64_t)g->GetTransactionCount(Lvl(a[1]));
        if (op == "oversized") return g->IsOversized(Lvl(a[1]));
        if (op == "havestaging") return g->HaveStaging();
        if (op == "ifr") return FS(g->GetIndividualFeerate(Ref(a[1].getInt<int>())));
        UniValue res;
        if (op == "anc") res = SortedIds(g->GetAncestors(Ref(a[1].getInt<int>()), Lvl(a[2])), &dup);
        else if (op == "desc") res = SortedIds(g->GetDescendants(Ref(a[1].getInt<int>()), Lvl(a[2])), &dup);
        else if (op == "cluster") {
            auto c = g->GetCluster(Ref(a[1].getInt<int>()), Lvl(a[2]));
            if (!c.empty()) Answer(ClusterAnswer(LvlName(a[2]), c));
            res = SortedIds(c, &dup);
        }
        else if (op == "ancu") { auto s = RefSet(a[1]); res = SortedIds(g->GetAncestorsUnion(s, Lvl(a[2])), &dup); }
        else if (op == "descu") { auto s = RefSet(a[1]); res = SortedIds(g->GetDescendantsUnion(s, Lvl(a[2])), &dup); }
        else if (op == "ndistinct") { auto s = RefSet(a[1]); return (int64_t)g->CountDistinctClusters(s, Lvl(a[2])); }
        else if (op == "chunkfr") {
            auto f = g->GetMainChunkFeerate(Ref(a[1].getInt<int>()));
            if (!f.IsEmpty()) Answer(Obj({{"q", "chunkfr"}, {"t", a[1]}, {"fs", FS(f)}}));
            return Obj({{"empty", f.IsEmpty()}});
        }
        else if (op == "cmp") {
            auto c = g->CompareMainOrder(Ref(a[1].getInt<int>()), Ref(a[2].getInt<int>()));
            Answer(Obj({{"q", "cmp"}, {"a", a[1]}, {"b", a[2]}, {"r", c < 0 ? -1 : c > 0 ? 1 : 0}}));
            return Obj({{"equal", c == 0}});
        }
        else if (op == "worst") {
            auto [wc, wf] = g->GetWorstMainChunk();
            Answer(Obj({{"q", "worst"}, {"txs", IdList(wc)}, {"fs", FS(wf)}}));
            return Obj({{"empty", wc.empty()}});
        }
        else if (op == "diagrams") {
            auto [dm, ds] = g->GetMainStagingDiagrams();
            UniValue m(UniValue::VARR), s(UniValue::VARR);
            for (auto& f : dm) m.push_back(FS(f));
            for (auto& f : ds) s.push_back(FS(f));
            Answer(Obj({{"q", "diagrams"}, {"main", m}, {"staging", s}}));
            return "any";
        }
        else if (op == "sweep") {
            UniValue o(UniValue::VOBJ);
            const bool main_ov = r["main"]["ov"]["flag"].get_bool(), top_ov = r["top"]["ov"]["flag"].get_bool();
            o.pushKV("main", Struct(TxGraph::Level::MAIN, main_ov, r["main"]["ov"]["exact"].get_bool()));
            o.pushKV("top", Struct(TxGraph::Level::TOP, top_ov, r["top"]["ov"]["exact"].get_bool()));
            o.pushKV("hs", g->HaveStaging());
            UniValue ifr(UniValue::VARR);
            for (int t = 1; t <= n; ++t) ifr.push_back(FS(g->GetIndividualFeerate(Ref(t))));
            o.pushKV("ifr", ifr);
            o.pushKV("diag", r["diag"]);
            if (!JsonDiff(r, o, "result").empty()) return o;      // structure differs: reported by the caller, no ordering answers
            if (!main_ov) MainOrdering(r["main"]["exists"], 2 + (int)(step % 2));
            if (r["hs"].get_bool() && !top_ov) {
                std::set<std::vector<int>> seen;
                for (int t = 1; t <= n; ++t) {
                    if (!r["top"]["exists"][t - 1].get_bool()) continue;
                    auto c = g->GetCluster(Ref(t), TxGraph::Level::TOP);
                    std::vector<int> ids; for (auto* x : c) ids.push_back(IdOf(x));
                    if (seen.insert(ids).second) Answer(ClusterAnswer("staging", c));
                }
            }
            if (r["diag"].get_bool()) {
                auto [dm, ds] = g->GetMainStagingDiagrams();
                UniValue m(UniValue::VARR), s(UniValue::VARR);
                for (auto& f : dm) m.push_back(FS(f));
                for (auto& f : ds) s.push_back(FS(f));
                Answer(Obj({{"q", "diagrams"}, {"main", m}, {"staging", s}}));
            }
            R().Count("sweeps");
            return o;
        }
        else throw std::runtime_error("unknown query " + op);
        if (dup) throw std::runtime_error("a transaction is reported twice");
        return res;
    }
};

const std::set<std::string> QUERIES{"exists", "count", "oversized", "havestaging", "ifr", "anc", "desc", "cluster", "ancu", "descu", "ndistinct",
                                    "chunkfr", "cmp", "worst", "diagrams", "sweep"};

// Runs one behaviour. Returns "" or the description of the first structural mismatch.
std::string RunTest(const UniValue& t, std::ofstream& obs, size_t test)
{
    World w(t["init"], &obs, test);
    const UniValue& st = t["steps"];
    for (size_t i = 0; i < st.size(); ++i) {
        const UniValue& a = st[i]["a"];
        const UniValue& r = st[i]["r"];
        const UniValue& pre = i == 0 ? t["init"] : st[i - 1]["exp"];
        const std::string op = a[0].get_str();
        R().cur_step = i; R().cur_action = a;
        ++R().steps;
        R().Count("op_" + op);
        if (QUERIES.count(op)) {
            UniValue have = w.Query(a, r, i);
            if (!r.isStr() || r.get_str() != "any") {
                std::string d = JsonDiff(r, have, "result");
                if (!d.empty()) return d;
            }
        } else if (op == "bbstep") {
            if (!w.bb) throw std::runtime_error("harness: bbstep without a builder");
            w.BuilderStep(*w.bb, w.walk, a[1].get_str() == "skip");
        } else {
            // a call that may change a linearization: the ordering answers collected so far belong to the state before it
            w.Flush(pre, i);
            if (op == "add") w.g->AddTransaction(w.Ref(a[1].getInt<int>()), FeePerWeight{a[2].getInt<int64_t>(), a[3].getInt<int32_t>()});
            else if (op == "remove") {
                const UniValue& batch = a[4];
                if (batch.empty()) w.g->RemoveTransaction(w.Ref(a[1].getInt<int>()));
                for (size_t k = 0; k < batch.size(); ++k) w.g->RemoveTransaction(w.Ref(batch[a[3].get_bool() ? k : batch.size() - 1 - k].getInt<int>()));
            }
            else if (op == "dep") w.g->AddDependency(w.Ref(a[1].getInt<int>()), w.Ref(a[2].getInt<int>()));
            else if (op == "setfee") w.g->SetTransactionFee(w.Ref(a[1].getInt<int>()), a[2].getInt<int64_t>());
            else if (op == "start") w.g->StartStaging();
            else if (op == "commit") w.g->CommitStaging();
            else if (op == "abort") w.g->AbortStaging();
            else if (op == "dowork") { (void)w.g->DoWork(a[1].getInt<uint64_t>()); }
            else if (op == "destroy") {
                const UniValue& d = a[2];
                const bool fwd = a[1].get_str() == "anc";
                for (size_t k = 0; k < d.size(); ++k) {
                    const int t2 = d[fwd ? k : d.size() - 1 - k].getInt<int>();
                    w.refs.at(t2).reset();                               // ~Ref
                    w.refs.at(t2) = std::make_unique<SimRef>(t2);        // the slot holds an empty Ref again
                }
            }
            else if (op == "bbstart") { w.bb = w.g->GetBlockBuilder(); w.walk = World::NewWalk(); }
            else if (op == "bbend") {
                // the walk, together with what pins the linearization it was taken from (main cannot have changed meanwhile)
                w.Answer(w.walk);
                std::set<std::vector<int>> seen;
                const UniValue& txs = pre["main"]["txs"];
                for (size_t k = 0; k < txs.size(); ++k) {
                    auto c = w.g->GetCluster(w.Ref(txs[k].getInt<int>()), TxGraph::Level::MAIN);
                    std::vector<int> ids; for (auto* x : c) ids.push_back(IdOf(x));
                    if (seen.insert(ids).second) w.Answer(w.ClusterAnswer("main", c));
                }
                for (size_t k = 0; k < txs.size(); ++k) for (size_t j = 0; j < txs.size(); ++j) {
                    auto c = w.g->CompareMainOrder(w.Ref(txs[k].getInt<int>()), w.Ref(txs[j].getInt<int>()));
                    w.Answer(Obj({{"q", "cmp"}, {"a", txs[k]}, {"b", txs[j]}, {"r", c < 0 ? -1 : c > 0 ? 1 : 0}}));
                }
                w.Flush(pre, i);
                w.bb.reset();
                R().Count("builder_walks");
            }
            else if (op == "trim") {
                auto removed = w.g->Trim();
                bool dup = false;
                UniValue have = SortedIds(removed, &dup);
                if (dup) return "Trim reports a transaction twice";
                if (!JsonDiff(r, have, "result").empty() || r.size() != have.size()) {
                    // another set than the specification picked: TLC checks the postcondition and the answers right after it
                    w.g->SanityCheck();
                    UniValue o(UniValue::VOBJ);
                    o.pushKV("kind", "trim"); o.pushKV("test", (uint64_t)test); o.pushKV("step", (uint64_t)i);
                    o.pushKV("state", pre); o.pushKV("R", have); o.pushKV("after", w.Struct(TxGraph::Level::TOP, false));
                    obs << o.write() << "\n";
                    w.g->SanityCheck();
                    R().Count("trim_other_choice");
                    return "";
                }
                R().Count(have.empty() ? "trim_noop" : "trim_same_choice");
            }
            else throw std::runtime_error("unknown action " + op);
        }
        w.g->SanityCheck();
    }
    // end of the behaviour: what is still buffered
    const UniValue& last = st.size() ? st[st.size() - 1]["exp"] : t["init"];
    if (w.bb) w.Answer(w.walk);
    w.Flush(last, st.size());
    return "";
}
} // namespace

int main(int argc, char** argv)
{
    if (argc < 3) { std::cerr << "usage: txgraph replay <tests.ndjson>\n"; return 2; }
    const std::string mode = argv[1], path = argv[2];
    if (mode != "replay") { std::cerr << "unknown mode\n"; return 2; }
    InstallAbortHandlers();
    std::ofstream obs(path + ".obs");
    // Every behaviour runs in a forked child: an assertion of the code under test (SanityCheck, or an assert inside TxGraph) ends that
    // behaviour with an "abort" line and the others still run. The child appends its observations to the shared .obs file.
    ForEachLine(path, [&](size_t n, const UniValue& t) {
        if (!ForkChild(n)) return;
        R().cur_test = n; R().cur_step = 0; R().cur_action = UniValue::VNULL;
        std::string why;
        try { why = RunTest(t, obs, n); }
        catch (const std::exception& e) { why = std::string("exception: ") + e.what(); }
        if (!why.empty()) R().Mismatch(R().cur_action, why);
        ++R().tests;
        obs.flush();
        R().Summary();
        ExitChild();
    });
    R().Summary();
    return 0;
}
