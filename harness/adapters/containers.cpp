// Adapter for specs/Containers (C61): replays model transitions on the real prevector, bitdeque, VecDeque and PoolResource.
//   containers prevector <tests.ndjson>          init.cfg = {n, ts}: prevector<n, uintK_t> with K = 8 * ts
//   containers bitdeque  <tests.ndjson>          init.cfg = {b}: bitdeque<b>
//   containers vecdeque  <tests.ndjson> int|tracked   VecDeque<int> (memcpy paths) / VecDeque<Tracked> (construct/destroy paths)
//   containers pool      <tests.ndjson>          init.cfg = {mb, al, req}: PoolResource<mb, al>(req)
// Element values travel as small integers (0 = T{}); they are encoded with distinct bytes so that a partial or misplaced
// move shows up as "garbled". Every projection reads the container through all its access paths and throws if they disagree.
#include <vfh.h>
#include <prevector.h>
#include <support/allocators/pool.h>
#include <test/util/poolresourcetester.h>
#include <util/bitdeque.h>
#include <util/vecdeque.h>

#include <compare>
#include <cstdlib>
#include <cstring>
#include <deque>
#include <new>
#include <stdexcept>

using namespace vfh;

// ---------------------------------------------------------------------------------------------------------------------
// Aligned operator new/delete of this binary: forward to the C library and, while tracking is on, record the call. This is
// how the pool world learns where the chunks PoolResource obtained really are (ground truth for "offset within chunk").
namespace {
struct NewRec { void* p; size_t size; size_t align; };
bool g_track_new{false};
std::vector<NewRec> g_new_log;
} // namespace
void* operator new(std::size_t sz, std::align_val_t al)
{
    const size_t a = std::max(static_cast<size_t>(al), sizeof(void*));
    void* p = nullptr;
    if (posix_memalign(&p, a, sz ? sz : 1) != 0 || !p) throw std::bad_alloc();
    if (g_track_new) { g_track_new = false; g_new_log.push_back({p, sz, static_cast<size_t>(al)}); g_track_new = true; }
    return p;
}
void operator delete(void* p, std::align_val_t) noexcept { std::free(p); }
void operator delete(void* p, std::size_t, std::align_val_t) noexcept { std::free(p); }

namespace {
struct IWorld {
    virtual ~IWorld() = default;
    virtual UniValue Apply(const UniValue& a) = 0;
    virtual UniValue Project() = 0;
};
[[noreturn]] void Fail(const std::string& s) { throw std::runtime_error(s); }
int Int(const UniValue& v) { return v.getInt<int>(); }
UniValue IntArr(const std::vector<int>& xs) { UniValue a(UniValue::VARR); for (int x : xs) a.push_back(x); return a; }
UniValue ObsOf(const std::vector<int>& xs) { return Obj({{"e", IntArr(xs)}}); }
std::vector<int> Ints(const UniValue& arr) { std::vector<int> r; for (size_t i = 0; i < arr.size(); ++i) r.push_back(Int(arr[i])); return r; }

// ---------------------------------------------------------------------------------------------------------------------
// element encodings
template <typename T> T Enc(int k);
template <> uint8_t Enc<uint8_t>(int k) { return k == 0 ? 0 : static_cast<uint8_t>(0xA0 + k); }
template <> uint16_t Enc<uint16_t>(int k) { return k == 0 ? 0 : static_cast<uint16_t>(0xA0B0 + 0x0101 * k); }
template <> uint32_t Enc<uint32_t>(int k) { return k == 0 ? 0 : static_cast<uint32_t>(0xA0B0C0D0u + 0x01010101u * k); }
template <> int Enc<int>(int k) { return k == 0 ? 0 : 0x0A0B0C00 + k; }
template <typename T> int Dec(const T& v) { for (int k = 0; k <= 4; ++k) if (v == Enc<T>(k)) return k; return -2; }

// ---------------------------------------------------------------------------------------------------------------------
// prevector
template <unsigned N, typename T>
struct PrevectorWorld : IWorld {
    using P = prevector<N, T>;
    P v;
    UniValue cfg;
    explicit PrevectorWorld(const UniValue& c) : cfg(c) {}
    static std::vector<T> Src(const UniValue& arr) { std::vector<T> r; for (size_t i = 0; i < arr.size(); ++i) r.push_back(Enc<T>(Int(arr[i]))); return r; }
    static std::vector<int> Read(const P& p)
    {
        const size_t n = p.size();
        std::vector<int> out;
        for (size_t i = 0; i < n; ++i) out.push_back(Dec(p[i]));
        if (p.empty() != (n == 0)) Fail("empty() disagrees with size()");
        if (static_cast<size_t>(p.end() - p.begin()) != n) Fail("end() - begin() != size()");
        size_t i = 0;
        for (auto it = p.begin(); it != p.end(); ++it, ++i) if (i >= n || Dec(*it) != out[i]) Fail("const iteration disagrees with operator[]");
        if (i != n) Fail("const iteration is shorter than size()");
        for (size_t k = 0; k < n; ++k) if (Dec(p.data()[k]) != out[k]) Fail("data() disagrees with operator[]");
        for (size_t k = 0; k < n; ++k) if (Dec(p.begin()[k]) != out[k] || Dec(*(p.begin() + k)) != out[k] || Dec(*(p.end() - (n - k))) != out[k]) Fail("iterator arithmetic disagrees with operator[]");
        if (n) { if (Dec(p.front()) != out.front()) Fail("front() disagrees"); if (Dec(p.back()) != out.back()) Fail("back() disagrees"); }
        return out;
    }
    static P MkTmp(const UniValue& t)
    {
        const std::string c = t["c"].get_str();
        const std::vector<T> e = Src(t["e"]);
        const unsigned r = Int(t["r"]);
        if (c == "range") { P p(e.begin(), e.end()); p.reserve(r); return p; }
        if (c == "fill") { P p(static_cast<typename P::size_type>(e.size()), e.empty() ? Enc<T>(1) : e[0]); p.reserve(r); return p; }
        if (c == "size") { P p(static_cast<typename P::size_type>(e.size())); p.reserve(r); return p; }
        Fail("unknown tmp constructor " + c);
    }
    UniValue Apply(const UniValue& a) override
    {
        const std::string op = a[0].get_str();
        UniValue res{"none"};
        if (op == "push_back") v.push_back(Enc<T>(Int(a[1])));
        else if (op == "emplace_back") v.emplace_back(Enc<T>(Int(a[1])));
        else if (op == "pop_back") v.pop_back();
        else if (op == "insert") { auto it = v.insert(v.begin() + Int(a[1]), Enc<T>(Int(a[2]))); res = static_cast<int>(it - v.begin()); }
        else if (op == "insert_n") v.insert(v.begin() + Int(a[1]), static_cast<typename P::size_type>(Int(a[2])), Enc<T>(Int(a[3])));
        else if (op == "insert_range") { const auto s = Src(a[2]); v.insert(v.begin() + Int(a[1]), s.begin(), s.end()); }
        else if (op == "erase") { auto it = v.erase(v.begin() + Int(a[1])); res = static_cast<int>(it - v.begin()); }
        else if (op == "erase_range") { auto it = v.erase(v.begin() + Int(a[1]), v.begin() + Int(a[2])); res = static_cast<int>(it - v.begin()); }
        else if (op == "resize") v.resize(Int(a[1]));
        else if (op == "resize_uninit") {
            const size_t old = v.size(); const size_t n = Int(a[1]);
            v.resize_uninitialized(n);
            for (size_t i = old; i < n; ++i) v[i] = Enc<T>(Int(a[2]));
        }
        else if (op == "assign_n") v.assign(static_cast<typename P::size_type>(Int(a[1])), Enc<T>(Int(a[2])));
        else if (op == "assign_range") { const auto s = Src(a[1]); v.assign(s.begin(), s.end()); }
        else if (op == "clear") v.clear();
        else if (op == "reserve") v.reserve(Int(a[1]));
        else if (op == "shrink_to_fit") v.shrink_to_fit();
        else if (op == "set") v[Int(a[1])] = Enc<T>(Int(a[2]));
        else if (op == "self_assign") { const P& r = v; v = r; }
        else if (op == "copy_assign_from") { const P t = MkTmp(a[1]); v = t; res = ObsOf(Read(t)); }
        else if (op == "move_assign_from") { P t = MkTmp(a[1]); v = std::move(t); res = ObsOf(Read(t)); }
        else if (op == "swap_with") { P t = MkTmp(a[1]); v.swap(t); res = ObsOf(Read(t)); }
        else if (op == "copy_to") { P t = MkTmp(a[1]); t = v; res = ObsOf(Read(t)); }
        else if (op == "move_to") { P t = MkTmp(a[1]); t = std::move(v); res = ObsOf(Read(t)); }
        else if (op == "copy_construct") { P t(v); res = ObsOf(Read(t)); }
        else if (op == "move_construct") { P t(std::move(v)); res = ObsOf(Read(t)); }
        else if (op == "eq") { const P t = MkTmp(a[1]); res = (v == t); }
        else if (op == "lt") { const P t = MkTmp(a[1]); res = (v < t); }
        else if (op == "gt") { const P t = MkTmp(a[1]); res = (t < v); }
        else Fail("unknown op " + op);
        return res;
    }
    UniValue Project() override
    {
        const std::vector<int> e = Read(v);
        const char* p = reinterpret_cast<const char*>(v.data());
        const bool inl = p >= reinterpret_cast<const char*>(&v) && p < reinterpret_cast<const char*>(&v + 1);
        if (!inl) R().Count("steps_indirect");
        return Obj({{"cfg", cfg}, {"elems", IntArr(e)}, {"size", static_cast<int>(v.size())}, {"empty", v.empty()},
                    {"cap", static_cast<int>(v.capacity())}, {"direct", inl}, {"alloc", static_cast<int>(v.allocated_memory())}});
    }
};
std::unique_ptr<IWorld> MakePrevector(const UniValue& init)
{
    const int n = Int(init["cfg"]["n"]), ts = Int(init["cfg"]["ts"]);
    if (n == 4 && ts == 1) return std::make_unique<PrevectorWorld<4, uint8_t>>(init["cfg"]);
    if (n == 3 && ts == 4) return std::make_unique<PrevectorWorld<3, uint32_t>>(init["cfg"]);
    if (n == 2 && ts == 2) return std::make_unique<PrevectorWorld<2, uint16_t>>(init["cfg"]);
    if (n == 5 && ts == 2) return std::make_unique<PrevectorWorld<5, uint16_t>>(init["cfg"]);
    Fail("prevector instantiation not compiled into the adapter");
}

// ---------------------------------------------------------------------------------------------------------------------
// bitdeque
template <typename F, size_t... I>
void WithIL(const std::vector<bool>& s, F&& f, std::index_sequence<I...>) { f(std::initializer_list<bool>{static_cast<bool>(s[I])...}); }
template <typename F>
void CallIL(const std::vector<bool>& s, F&& f)
{
    switch (s.size()) {
    case 0: f(std::initializer_list<bool>{}); break;
    case 1: WithIL(s, f, std::make_index_sequence<1>{}); break;
    case 2: WithIL(s, f, std::make_index_sequence<2>{}); break;
    case 3: WithIL(s, f, std::make_index_sequence<3>{}); break;
    case 4: WithIL(s, f, std::make_index_sequence<4>{}); break;
    case 5: WithIL(s, f, std::make_index_sequence<5>{}); break;
    case 6: WithIL(s, f, std::make_index_sequence<6>{}); break;
    case 7: WithIL(s, f, std::make_index_sequence<7>{}); break;
    case 8: WithIL(s, f, std::make_index_sequence<8>{}); break;
    default: Fail("initializer list too long for the adapter");
    }
}
template <int BW>
struct BitDequeWorld : IWorld {
    using Q = bitdeque<BW>;
    Q v;
    bool moved_from{false};
    UniValue cfg;
    explicit BitDequeWorld(const UniValue& c) : cfg(c) {}
    static std::vector<bool> Src(const UniValue& arr) { std::vector<bool> r; for (size_t i = 0; i < arr.size(); ++i) r.push_back(Int(arr[i]) != 0); return r; }
    static std::vector<int> Read(Q& q)
    {
        const Q& cq = q;
        const size_t n = q.size();
        if (n > 1000) Fail("size() is absurd: " + std::to_string(n));
        std::vector<int> out;
        for (size_t i = 0; i < n; ++i) out.push_back(cq[i] ? 1 : 0);
        if (q.empty() != (n == 0)) Fail("empty() disagrees with size()");
        if (static_cast<size_t>(q.end() - q.begin()) != n || static_cast<size_t>(cq.cend() - cq.cbegin()) != n) Fail("end() - begin() != size()");
        size_t i = 0;
        for (auto it = q.begin(); it != q.end(); ++it, ++i) if (i >= n || (*it ? 1 : 0) != out[i]) Fail("iteration disagrees with operator[]");
        if (i != n) Fail("iteration is shorter than size()");
        i = 0;
        for (auto it = cq.begin(); it != cq.end(); it++, ++i) if (i >= n || (*it ? 1 : 0) != out[i]) Fail("const iteration disagrees with operator[]");
        i = n;
        for (auto it = cq.rbegin(); it != cq.rend(); ++it) { if (i == 0 || (*it ? 1 : 0) != out[i - 1]) Fail("reverse iteration disagrees with operator[]"); --i; }
        if (i != 0) Fail("reverse iteration is shorter than size()");
        for (size_t k = 0; k < n; ++k) {
            const auto d = static_cast<std::ptrdiff_t>(k);
            if ((q[k] ? 1 : 0) != out[k] || (cq.at(k) ? 1 : 0) != out[k]) Fail("non-const operator[] / at() disagree with const operator[]");
            if ((*(cq.begin() + d) ? 1 : 0) != out[k] || (cq.begin()[d] ? 1 : 0) != out[k]) Fail("begin() + k disagrees with operator[]");
            if ((*(cq.end() - static_cast<std::ptrdiff_t>(n - k)) ? 1 : 0) != out[k]) Fail("end() - k disagrees with operator[]");
            auto it = cq.end(); it -= static_cast<std::ptrdiff_t>(n - k); if ((it - cq.begin()) != d) Fail("iterator difference is wrong");
            auto jt = cq.begin(); jt += d; if (!(jt == it) || (jt < it) || (it < jt)) Fail("iterator comparison is wrong");
        }
        if (n) { if ((cq.front() ? 1 : 0) != out.front() || (q.front() ? 1 : 0) != out.front()) Fail("front() disagrees"); if ((cq.back() ? 1 : 0) != out.back() || (q.back() ? 1 : 0) != out.back()) Fail("back() disagrees"); }
        return out;
    }
    // A moved-from container is "valid but unspecified": whatever it holds, size() == 0 <=> empty(), size() is the distance
    // between begin() and end(), and it can be reused. The first condition failing is the known defect of the defaulted move
    // operations (stale m_pad_begin / m_pad_end): reported as a `finding` line under one stable key, not as a mismatch.
    static void CheckMovedFrom(Q& x)
    {
        const size_t n = x.size();
        if (x.empty() != (n == 0)) {
            R().Count("movedfrom_size_inconsistent_with_empty");
            if (R().counters["movedfrom_size_inconsistent_with_empty"] <= 3) {
                UniValue o(UniValue::VOBJ);
                o.pushKV("kind", "finding"); o.pushKV("key", "bitdeque-movedfrom-inconsistent");
                o.pushKV("test", static_cast<uint64_t>(R().cur_test)); o.pushKV("step", static_cast<uint64_t>(R().cur_step)); o.pushKV("action", R().cur_action);
                o.pushKV("why", "moved-from bitdeque: empty() = " + std::string(x.empty() ? "true" : "false") + " but size() = " + std::to_string(n));
                R().Info(o);
            }
            return;   // iterating or reusing it would be undefined behaviour
        }
        if (static_cast<size_t>(x.end() - x.begin()) != n) Fail("moved-from bitdeque: size() != end() - begin()");
        x.clear(); x.push_back(true);
        if (x.size() != 1 || !x.front() || x.empty()) Fail("moved-from bitdeque is not reusable after clear()");
        x.clear();
    }
    static Q MkTmp(const UniValue& t)
    {
        const std::string c = t["c"].get_str();
        const std::vector<bool> e = Src(t["e"]);
        if (c == "range") { const std::deque<bool> d(e.begin(), e.end()); return Q(d.begin(), d.end()); }
        if (c == "ilist") { Q q; CallIL(e, [&](std::initializer_list<bool> il) { q = Q(il); }); return q; }
        if (c == "fill") return Q(e.size(), true);
        if (c == "size") return Q(e.size());
        Fail("unknown tmp constructor " + c);
    }
    UniValue Apply(const UniValue& a) override
    {
        const std::string op = a[0].get_str();
        UniValue res{"none"};
        bool now_moved_from = false;
        if (op == "push_back") v.push_back(Int(a[1]) != 0);
        else if (op == "emplace_back") { auto ref = v.emplace_back(Int(a[1]) != 0); res = ref ? 1 : 0; }
        else if (op == "push_front") v.push_front(Int(a[1]) != 0);
        else if (op == "emplace_front") { auto ref = v.emplace_front(Int(a[1]) != 0); res = ref ? 1 : 0; }
        else if (op == "pop_back") v.pop_back();
        else if (op == "pop_front") v.pop_front();
        else if (op == "insert") { auto it = v.insert(v.cbegin() + Int(a[1]), Int(a[2]) != 0); res = static_cast<int>(it - v.begin()); }
        else if (op == "emplace") { auto it = v.emplace(v.cbegin() + Int(a[1]), Int(a[2]) != 0); res = static_cast<int>(it - v.begin()); }
        else if (op == "insert_n") { auto it = v.insert(v.cbegin() + Int(a[1]), static_cast<size_t>(Int(a[2])), Int(a[3]) != 0); res = static_cast<int>(it - v.begin()); }
        else if (op == "insert_range") { const auto s = Src(a[2]); auto it = v.insert(v.cbegin() + Int(a[1]), s.begin(), s.end()); res = static_cast<int>(it - v.begin()); }
        else if (op == "erase") { auto it = v.erase(v.cbegin() + Int(a[1])); res = static_cast<int>(it - v.begin()); }
        else if (op == "erase_range") { auto it = v.erase(v.cbegin() + Int(a[1]), v.cbegin() + Int(a[2])); res = static_cast<int>(it - v.begin()); }
        else if (op == "resize") v.resize(Int(a[1]));
        else if (op == "shrink_to_fit") v.shrink_to_fit();
        else if (op == "set") v[Int(a[1])] = (Int(a[2]) != 0);
        else if (op == "at") { try { res = const_cast<const Q&>(v).at(Int(a[1])) ? 1 : 0; } catch (const std::out_of_range&) { res = "throw"; } }
        else if (op == "self_assign") { const Q& r = v; v = r; }
        else if (op == "clear") v.clear();
        else if (op == "assign_n") v.assign(static_cast<size_t>(Int(a[1])), Int(a[2]) != 0);
        else if (op == "assign_range") { const auto s = Src(a[1]); v.assign(s.begin(), s.end()); }
        else if (op == "assign_ilist") { CallIL(Src(a[1]), [&](std::initializer_list<bool> il) { v.assign(il); }); }
        else if (op == "copy_assign_from") { const Q t = MkTmp(a[1]); v = t; Q t2 = t; res = ObsOf(Read(t2)); }
        else if (op == "move_assign_from") { Q t = MkTmp(a[1]); v = std::move(t); CheckMovedFrom(t); }
        else if (op == "swap_with") { Q t = MkTmp(a[1]); if (R().steps % 2) v.swap(t); else swap(v, t); res = ObsOf(Read(t)); }
        else if (op == "copy_to") { Q t = MkTmp(a[1]); t = v; res = ObsOf(Read(t)); }
        else if (op == "copy_construct") { Q t(v); res = ObsOf(Read(t)); }
        else if (op == "move_to") { Q t = MkTmp(a[1]); t = std::move(v); res = ObsOf(Read(t)); now_moved_from = true; CheckMovedFrom(v); }
        else if (op == "move_construct") { Q t(std::move(v)); res = ObsOf(Read(t)); now_moved_from = true; CheckMovedFrom(v); }
        else Fail("unknown op " + op);
        moved_from = now_moved_from;
        return res;
    }
    UniValue Project() override
    {
        if (moved_from) {
            // unspecified content: nothing is compared, but note whether the object is at least self-consistent
            R().Count("movedfrom_states");
            return Obj({{"cfg", cfg}, {"elems", IntArr({})}, {"size", 0}, {"empty", true}, {"movedfrom", true}});
        }
        const std::vector<int> e = Read(v);
        return Obj({{"cfg", cfg}, {"elems", IntArr(e)}, {"size", static_cast<int>(v.size())}, {"empty", v.empty()}, {"movedfrom", false}});
    }
};
std::unique_ptr<IWorld> MakeBitDeque(const UniValue& init)
{
    const int b = Int(init["cfg"]["b"]);
    if (b == 4) return std::make_unique<BitDequeWorld<4>>(init["cfg"]);
    if (b == 3) return std::make_unique<BitDequeWorld<3>>(init["cfg"]);
    if (b == 5) return std::make_unique<BitDequeWorld<5>>(init["cfg"]);
    if (b == 16) return std::make_unique<BitDequeWorld<16>>(init["cfg"]);
    Fail("bitdeque instantiation not compiled into the adapter");
}

// ---------------------------------------------------------------------------------------------------------------------
// VecDeque
struct Tracked {
    static inline int64_t live{0};
    int v;
    Tracked() : v(0) { ++live; }
    Tracked(int x) : v(x) { ++live; }
    Tracked(const Tracked& o) : v(o.v) { ++live; }
    Tracked(Tracked&& o) noexcept : v(o.v) { o.v = -777; ++live; }
    Tracked& operator=(const Tracked& o) { v = o.v; return *this; }
    Tracked& operator=(Tracked&& o) noexcept { v = o.v; o.v = -777; return *this; }
    ~Tracked() { --live; v = -999; }
    friend bool operator==(const Tracked& a, const Tracked& b) { return a.v == b.v; }
    friend std::strong_ordering operator<=>(const Tracked& a, const Tracked& b) { return a.v <=> b.v; }
};
template <typename T> T VEnc(int k) { return T(Enc<int>(k)); }
int VDec(const int& x) { return Dec<int>(x); }
int VDec(const Tracked& x) { return Dec<int>(x.v); }
template <typename T> int64_t LiveCount(size_t size) { if constexpr (std::is_same_v<T, Tracked>) return Tracked::live; else return static_cast<int64_t>(size); }

template <typename T>
struct VecDequeWorld : IWorld {
    using D = VecDeque<T>;
    D v;
    static std::vector<int> Read(D& d)
    {
        const D& cd = d;
        const size_t n = d.size();
        std::vector<int> out;
        for (size_t i = 0; i < n; ++i) out.push_back(VDec(cd[i]));
        for (size_t i = 0; i < n; ++i) if (VDec(d[i]) != out[i]) Fail("non-const operator[] disagrees with const operator[]");
        if (d.empty() != (n == 0)) Fail("empty() disagrees with size()");
        if (n) { if (VDec(cd.front()) != out.front() || VDec(d.front()) != out.front()) Fail("front() disagrees"); if (VDec(cd.back()) != out.back() || VDec(d.back()) != out.back()) Fail("back() disagrees"); }
        if (!(cd == cd)) Fail("operator== is not reflexive");
        return out;
    }
    static D MkTmp(const UniValue& t)
    {
        D d;
        d.reserve(Int(t["r"]));
        for (size_t i = 0; i < t["b"].size(); ++i) { if (i % 2) d.push_back(VEnc<T>(Int(t["b"][i]))); else { const T x = VEnc<T>(Int(t["b"][i])); d.push_back(x); } }
        for (size_t i = 0; i < t["f"].size(); ++i) { if (i % 2) d.push_front(VEnc<T>(Int(t["f"][i]))); else { const T x = VEnc<T>(Int(t["f"][i])); d.push_front(x); } }
        return d;
    }
    UniValue Apply(const UniValue& a) override
    {
        const std::string op = a[0].get_str();
        UniValue res{"none"};
        if (op == "push_back") { const T x = VEnc<T>(Int(a[1])); v.push_back(x); }
        else if (op == "emplace_back") v.emplace_back(Enc<int>(Int(a[1])));
        else if (op == "push_front") { const T x = VEnc<T>(Int(a[1])); v.push_front(x); }
        else if (op == "emplace_front") v.emplace_front(Enc<int>(Int(a[1])));
        else if (op == "pop_back") v.pop_back();
        else if (op == "pop_front") v.pop_front();
        else if (op == "resize") v.resize(Int(a[1]));
        else if (op == "clear") v.clear();
        else if (op == "reserve") v.reserve(Int(a[1]));
        else if (op == "shrink_to_fit") v.shrink_to_fit();
        else if (op == "set") v[Int(a[1])] = VEnc<T>(Int(a[2]));
        else if (op == "self_assign") { const D& r = v; v = r; }
        else if (op == "copy_assign_from") { D t = MkTmp(a[1]); v = const_cast<const D&>(t); res = ObsOf(Read(t)); }
        else if (op == "move_assign_from") { D t = MkTmp(a[1]); v = std::move(t); res = ObsOf(Read(t)); }
        else if (op == "swap_with") { D t = MkTmp(a[1]); if (R().steps % 2) v.swap(t); else swap(v, t); res = ObsOf(Read(t)); }
        else if (op == "copy_to") { D t = MkTmp(a[1]); t = const_cast<const D&>(v); res = ObsOf(Read(t)); }
        else if (op == "copy_construct") { D t(const_cast<const D&>(v)); res = ObsOf(Read(t)); }
        else if (op == "move_construct") { D t(std::move(v)); res = ObsOf(Read(t)); }
        else if (op == "eq") { const D t = MkTmp(a[1]); res = (v == t); }
        else if (op == "cmp") { const D t = MkTmp(a[1]); const auto c = (v <=> t); res = c < 0 ? -1 : (c > 0 ? 1 : 0); }
        else Fail("unknown op " + op);
        return res;
    }
    UniValue Project() override
    {
        const std::vector<int> e = Read(v);
        const size_t n = v.size();
        const bool wrapped = n > 0 && &v[n - 1] < &v[0];
        if (wrapped) R().Count("steps_wrapped");
        return Obj({{"elems", IntArr(e)}, {"size", static_cast<int>(n)}, {"empty", v.empty()}, {"live", LiveCount<T>(n)},
                    {"cap", static_cast<int>(v.capacity())}, {"wrapped", wrapped}});
    }
};

// ---------------------------------------------------------------------------------------------------------------------
// PoolResource
template <size_t MB, size_t AL>
struct PoolWorld : IWorld {
    using Res = PoolResource<MB, AL>;
    struct Block { void* p{nullptr}; size_t sz{0}, al{0}; bool live{false}; };
    UniValue cfg;
    std::vector<std::byte*> chunks;      // bases in allocation order, learnt from the operator new hook
    size_t seen_new{0}, seen_chunks{0};
    std::unique_ptr<Res> res;
    std::vector<Block> blocks;           // index = id - 1
    explicit PoolWorld(const UniValue& c, size_t max_ids) : cfg(c)
    {
        g_new_log.clear();
        g_track_new = true;
        res = std::make_unique<Res>(static_cast<size_t>(Int(c["req"])));
        g_track_new = false;
        blocks.resize(max_ids);
        NoteChunks();
    }
    ~PoolWorld() override
    {
        for (auto& b : blocks) if (b.live) res->Deallocate(b.p, b.sz, b.al);
        res.reset();
    }
    void NoteChunks()
    {
        const size_t n = res->NumAllocatedChunks();
        const size_t cs = res->ChunkSizeBytes();
        while (seen_chunks < n) {
            // the next not yet attributed operator new call of chunk size is the new chunk
            bool found = false;
            for (; seen_new < g_new_log.size(); ++seen_new) {
                if (g_new_log[seen_new].size == cs) { chunks.push_back(static_cast<std::byte*>(g_new_log[seen_new].p)); ++seen_new; found = true; break; }
            }
            if (!found) Fail("NumAllocatedChunks() grew without an operator new call of ChunkSizeBytes()");
            ++seen_chunks;
        }
        seen_new = g_new_log.size();
    }
    UniValue Apply(const UniValue& a) override
    {
        const std::string op = a[0].get_str();
        if (op == "alloc") {
            Block& b = blocks.at(Int(a[1]) - 1);
            if (b.live) Fail("harness: id in use");
            b.sz = Int(a[2]); b.al = Int(a[3]);
            g_track_new = true;
            b.p = res->Allocate(b.sz, b.al);
            g_track_new = false;
            b.live = true;
            NoteChunks();
            if (b.p && b.sz) std::memset(b.p, 0x50 + Int(a[1]), b.sz);
        } else if (op == "dealloc") {
            Block& b = blocks.at(Int(a[1]) - 1);
            if (!b.live) Fail("harness: id not live");
            res->Deallocate(b.p, b.sz, b.al);
            b.live = false; b.p = nullptr;
        } else Fail("unknown op " + op);
        return UniValue{"none"};
    }
    UniValue Project() override
    {
        const size_t cs = res->ChunkSizeBytes();
        UniValue state(UniValue::VARR), addr(UniValue::VARR);
        bool any_pool_live = false;
        for (size_t i = 0; i < blocks.size(); ++i) {
            const Block& b = blocks[i];
            if (!b.live) { state.push_back("free"); addr.push_back(Obj({{"c", -1}, {"o", -1}, {"sz", -1}, {"al", -1}})); continue; }
            std::string st = "ok";
            if (!b.p) st = "null";
            else if (reinterpret_cast<uintptr_t>(b.p) % b.al) st = "misaligned";
            else for (size_t k = 0; k < b.sz; ++k) if (static_cast<unsigned char*>(b.p)[k] != 0x50 + i + 1) { st = "corrupt"; break; }
            state.push_back(st);
            int c = 0; int64_t o = 0;
            for (size_t k = 0; k < chunks.size(); ++k) {
                const auto* p = static_cast<std::byte*>(b.p);
                if (p >= chunks[k] && p < chunks[k] + cs) { c = static_cast<int>(k) + 1; o = p - chunks[k]; }
            }
            if (c > 0) any_pool_live = true;
            addr.push_back(Obj({{"c", c}, {"o", o}, {"sz", static_cast<int>(b.sz)}, {"al", static_cast<int>(b.al)}}));
        }
        UniValue fl(UniValue::VARR);
        for (size_t n : PoolResourceTester::FreeListSizes(*res)) fl.push_back(static_cast<int>(n));
        // the repository's own accounting check (asserts): applicable whenever no pool block is out
        if (!any_pool_live) { PoolResourceTester::CheckAllDataAccountedFor(*res); R().Count("repo_accounting_checks"); }
        return Obj({{"cfg", cfg}, {"chunk_size", static_cast<int>(cs)}, {"nchunks", static_cast<int>(res->NumAllocatedChunks())},
                    {"avail", static_cast<int>(PoolResourceTester::AvailableMemoryFromChunk(*res))}, {"fl", fl}, {"state", state}, {"addr", addr}});
    }
};
std::unique_ptr<IWorld> MakePool(const UniValue& init)
{
    const int mb = Int(init["cfg"]["mb"]), al = Int(init["cfg"]["al"]);
    const size_t ids = init["state"].size();
    if (mb == 16 && al == 8) return std::make_unique<PoolWorld<16, 8>>(init["cfg"], ids);
    if (mb == 32 && al == 8) return std::make_unique<PoolWorld<32, 8>>(init["cfg"], ids);
    if (mb == 32 && al == 16) return std::make_unique<PoolWorld<32, 16>>(init["cfg"], ids);
    if (mb == 8 && al == 8) return std::make_unique<PoolWorld<8, 8>>(init["cfg"], ids);
    if (mb == 24 && al == 4) return std::make_unique<PoolWorld<24, 4>>(init["cfg"], ids);
    Fail("PoolResource instantiation not compiled into the adapter");
}

int Run(const std::string& path, const std::function<std::unique_ptr<IWorld>(const UniValue&)>& make, const std::vector<std::string>& internal)
{
    return ReplayMain<IWorld>(path, make,
        [](IWorld& w, const UniValue& a) { return w.Apply(a); },
        [](IWorld& w) { return w.Project(); }, internal);
}
} // namespace

int main(int argc, char** argv)
{
    if (argc < 3) { std::cerr << "usage: containers prevector|bitdeque|vecdeque|pool <tests.ndjson> [int|tracked]\n"; return 2; }
    const std::string mode = argv[1];
    if (mode == "prevector") return Run(argv[2], MakePrevector, {"cap", "direct", "alloc"});
    if (mode == "bitdeque") return Run(argv[2], MakeBitDeque, {});
    if (mode == "vecdeque") {
        const std::string et = argc > 3 ? argv[3] : "int";
        if (et == "int") return Run(argv[2], [](const UniValue&) -> std::unique_ptr<IWorld> { return std::make_unique<VecDequeWorld<int>>(); }, {"cap", "wrapped"});
        if (et == "tracked") return Run(argv[2], [](const UniValue&) -> std::unique_ptr<IWorld> { return std::make_unique<VecDequeWorld<Tracked>>(); }, {"cap", "wrapped"});
        std::cerr << "unknown element type\n"; return 2;
    }
    if (mode == "pool") return Run(argv[2], MakePool, {"addr"});
    std::cerr << "unknown mode\n";
    return 2;
}
