// Adapter for specs/Linearize (C24). The adapter never judges: it builds the real DepGraph for a cluster, calls the real
// Linearize (several cost budgets from 0 to ample, with and without an input linearization, claimed topological or not),
// PostLinearize, ChunkLinearization, ChunkLinearizationInfo and CompareChunks, and logs what they returned, one JSON line
// per cluster. specs/Linearize/TraceLinearize.tla decides every clause of C24 on that log.
//
//   linearize rows  <rows.ndjson> <seed>                 clusters (and the input orders to try) enumerated by TLC
//                                                        -> <rows.ndjson>.trace
//   linearize drive <jobs.ndjson>                        per line {seed, count, nmin, nmax}: seeded random clusters of
//                                                        nmin..nmax transactions -> <jobs.ndjson>.trace
//
// Transactions are labelled 1..n as in the specification; `maps` place them at DepGraph positions (label order, reversed,
// with holes); the same cluster is also run scaled by (K, M) so that fees reach 2^62 and sizes 2^31 (the relations of the
// specification are invariant under positive scaling; chunk feerates are scaled back before logging).
#include <vfh.h>
#include <cluster_linearize.h>
#include <util/bitset.h>
#include <util/feefrac.h>

#include <map>
#include <set>
using namespace vfh;
using namespace cluster_linearize;
using SetT = BitSet<64>;
using Lin = std::vector<int>;   // transaction labels 1..n

namespace {

struct Cluster {
    int n{0};
    std::vector<std::vector<int>> par; // par[i-1] = parents (labels) of transaction i
    std::vector<int64_t> fee;
    std::vector<int32_t> size;
};

struct Variant {
    std::vector<int> pos; // pos[i-1] = DepGraph position (0-based) of transaction i
    int64_t K{1};
    int32_t M{1};
};

uint64_t Mix(uint64_t x)
{
    x += 0x9e3779b97f4a7c15ULL; x = (x ^ (x >> 30)) * 0xbf58476d1ce4e5b9ULL; x = (x ^ (x >> 27)) * 0x94d049bb133111ebULL;
    return x ^ (x >> 31);
}
struct Rng {
    uint64_t s;
    explicit Rng(uint64_t seed) : s(Mix(seed)) {}
    uint64_t next() { s = Mix(s); return s; }
    uint64_t below(uint64_t n) { return next() % n; }
};

std::string J(const Lin& l)
{
    std::string s = "[";
    for (size_t i = 0; i < l.size(); ++i) { if (i) s += ","; s += std::to_string(l[i]); }
    return s + "]";
}

/** What was observed for one cluster (deduplicated over placements, scalings, seeds and budgets). */
struct Log {
    std::map<Lin, int> index;      // distinct orders -> 1-based index into "L"
    std::vector<Lin> orders;
    std::set<std::string> lins, posts, chk, cmp;
    int Idx(const Lin& l)
    {
        if (l.empty()) return 0;
        auto [it, fresh] = index.emplace(l, (int)orders.size() + 1);
        if (fresh) orders.push_back(l);
        return it->second;
    }
    int64_t calls_linearize{0}, calls_post{0}, optimal_results{0}, not_optimal_results{0}, lin_changed{0}, post_changed{0};
};

struct Built {
    DepGraph<SetT> dg;
    std::vector<int> label_of; // position -> label (0 = hole)
};

Built Build(const Cluster& c, const Variant& v)
{
    Built b;
    int range = 0;
    for (int p : v.pos) range = std::max(range, p + 1);
    b.label_of.assign(range, 0);
    for (int i = 0; i < c.n; ++i) b.label_of[v.pos[i]] = i + 1;
    for (int q = 0; q < range; ++q) {
        const int lab = b.label_of[q];
        const auto got = lab ? b.dg.AddTransaction(FeeFrac{c.fee[lab - 1] * v.K, c.size[lab - 1] * v.M}) : b.dg.AddTransaction(FeeFrac{1, 1});
        if ((int)got != q) throw std::runtime_error("harness: unexpected DepGraph position");
    }
    for (int i = 0; i < c.n; ++i) {
        SetT parents;
        for (int p : c.par[i]) parents.Set(v.pos[p - 1]);
        if (parents.Any()) b.dg.AddDependencies(parents, v.pos[i]);
    }
    SetT holes;
    for (int q = 0; q < range; ++q) if (!b.label_of[q]) holes.Set(q);
    if (holes.Any()) b.dg.RemoveTransactions(holes);
    return b;
}

std::vector<DepGraphIndex> ToIdx(const Variant& v, const Lin& l)
{
    std::vector<DepGraphIndex> r;
    for (int x : l) r.push_back(v.pos[x - 1]);
    return r;
}
/** Positions back to labels; anything that is not a used position becomes label 0 (the specification rejects it). */
Lin ToLabels(const Built& b, std::span<const DepGraphIndex> l)
{
    Lin r;
    for (auto x : l) r.push_back(x < b.label_of.size() ? b.label_of[x] : 0);
    return r;
}
/** Only used to keep the harness from feeding garbage into further calls of the code under test. */
bool IsPermutation(const Cluster& c, const Lin& l)
{
    if ((int)l.size() != c.n) return false;
    std::vector<bool> seen(c.n + 1, false);
    for (int x : l) { if (x < 1 || x > c.n || seen[x]) return false; seen[x] = true; }
    return true;
}

const char* CmpName(std::partial_ordering o)
{
    if (o == std::partial_ordering::less) return "lt";
    if (o == std::partial_ordering::greater) return "gt";
    if (o == std::partial_ordering::equivalent) return "eq";
    return "un";
}

std::string FeeratesJson(const std::vector<FeeFrac>& fr, const Variant& v)
{
    std::string s = "[";
    for (size_t i = 0; i < fr.size(); ++i) {
        if (i) s += ",";
        if (fr[i].fee % v.K == 0 && fr[i].size % v.M == 0) s += "[" + std::to_string(fr[i].fee / v.K) + "," + std::to_string(fr[i].size / v.M) + "]";
        else s += "[-777777,-1]"; // not a sum of (scaled) transaction values
    }
    return s + "]";
}

/** One placement/scaling of the cluster, with what has already been logged for it. */
struct Run {
    const Cluster& c;
    const Variant& v;
    Built b;
    Log& log;
    std::set<Lin> chunked, posted;
    std::set<std::pair<Lin, Lin>> compared;

    Run(const Cluster& c_, const Variant& v_, Log& log_) : c(c_), v(v_), b(Build(c_, v_)), log(log_) {}

    void LogChunking(const Lin& l)
    {
        if (!IsPermutation(c, l) || !chunked.insert(l).second) return;
        const auto idx = ToIdx(v, l);
        const auto fr = ChunkLinearization(b.dg, idx);
        const auto info = ChunkLinearizationInfo(b.dg, idx);
        std::vector<FeeFrac> fr2;
        std::string sets = "[";
        for (size_t i = 0; i < info.size(); ++i) {
            fr2.push_back(info[i].feerate);
            Lin members;
            for (auto x : info[i].transactions) members.push_back(x < b.label_of.size() ? b.label_of[x] : 0);
            std::sort(members.begin(), members.end());
            if (i) sets += ",";
            sets += J(members);
        }
        sets += "]";
        log.chk.insert("[" + std::to_string(log.Idx(l)) + "," + FeeratesJson(fr, v) + "," + FeeratesJson(fr2, v) + "," + sets + "]");
    }

    void LogCompare(const Lin& x, const Lin& y)
    {
        if (x == y || !IsPermutation(c, x) || !IsPermutation(c, y)) return;
        if (!compared.insert({std::min(x, y), std::max(x, y)}).second) return;
        const Lin& a = std::min(x, y);
        const Lin& bb = std::max(x, y);
        const auto ca = ChunkLinearization(b.dg, ToIdx(v, a));
        const auto cb = ChunkLinearization(b.dg, ToIdx(v, bb));
        log.cmp.insert("[" + std::to_string(log.Idx(a)) + "," + std::to_string(log.Idx(bb)) + ",\"" + CmpName(CompareChunks(ca, cb)) + "\",\"" + CmpName(CompareChunks(cb, ca)) + "\"]");
    }

    void DoPost(const Lin& in)
    {
        if (!IsPermutation(c, in) || !posted.insert(in).second) return;
        auto idx = ToIdx(v, in);
        PostLinearize(b.dg, idx);
        ++log.calls_post;
        const Lin out = ToLabels(b, idx);
        log.posts.insert("[" + std::to_string(log.Idx(in)) + "," + std::to_string(log.Idx(out)) + "]");
        if (out != in) ++log.post_changed;
        LogChunking(out);
        LogCompare(out, in);
    }

    void DoLinearize(const Lin& in, bool claim, uint64_t rng_seed)
    {
        const auto in_idx = ToIdx(v, in);
        auto once = [&](uint64_t max_cost) -> uint64_t {
            auto [lin, optimal, cost] = Linearize(b.dg, max_cost, rng_seed, IndexTxOrder{}, in_idx, claim);
            ++log.calls_linearize;
            ++(optimal ? log.optimal_results : log.not_optimal_results);
            const Lin out = ToLabels(b, lin);
            log.lins.insert("[" + std::to_string(log.Idx(in)) + "," + (claim ? "1" : "0") + "," + std::to_string(out.empty() ? -1 : log.Idx(out)) + "," + (optimal ? "1" : "0") + "]");
            if (!in.empty() && out != in) ++log.lin_changed;
            LogChunking(out);
            if (!in.empty()) LogCompare(out, in);
            // the order the node uses: TxGraph post-processes every result of Linearize
            DoPost(out);
            return cost;
        };
        // ample budget first; then budgets from nothing to just enough, so that the same run is also cut short in every phase
        const uint64_t full = once(100'000'000);
        std::set<uint64_t> budgets{0, full > 0 ? full - 1 : 0, full, full + 1};
        for (uint64_t k = 1; k < 6; ++k) budgets.insert(full * k / 6);
        for (uint64_t bud : budgets) once(bud);
    }
};

void RunVariant(const Cluster& c, const Variant& v, const std::vector<Lin>& topo_inputs, const std::vector<Lin>& other_inputs,
                uint64_t seed, int nseeds, Log& log)
{
    Run run(c, v, log);
    Rng rng(seed);
    for (int s = 0; s < nseeds; ++s) run.DoLinearize({}, true, rng.next());
    for (const Lin& in : topo_inputs) {
        for (int s = 0; s < nseeds; ++s) run.DoLinearize(in, true, rng.next());
        run.LogChunking(in);
        run.DoPost(in);
    }
    // inputs not claimed topological (some are, some are not: the specification decides which clauses apply)
    for (const Lin& in : other_inputs) {
        if (!IsPermutation(c, in)) continue;
        for (int s = 0; s < nseeds; ++s) run.DoLinearize(in, false, rng.next());
    }
}

std::string Dump(const std::set<std::string>& m)
{
    std::string s = "[";
    bool first = true;
    for (const auto& k : m) { if (!first) s += ","; first = false; s += k; }
    return s + "]";
}

std::string ClusterJson(const Cluster& c)
{
    std::string s = "\"n\":" + std::to_string(c.n) + ",\"par\":[";
    for (int i = 0; i < c.n; ++i) { if (i) s += ","; s += J(c.par[i]); }
    s += "],\"fee\":[";
    for (int i = 0; i < c.n; ++i) { if (i) s += ","; s += std::to_string(c.fee[i]); }
    s += "],\"size\":[";
    for (int i = 0; i < c.n; ++i) { if (i) s += ","; s += std::to_string(c.size[i]); }
    return s + "]";
}

/** The (K, M) that brings the sum of |fee| to about 2^62 and the sum of sizes to about 2^31 - 1. */
Variant BigScale(const Cluster& c, std::vector<int> pos)
{
    int64_t sf = 0, ss = 0;
    for (int i = 0; i < c.n; ++i) { sf += std::abs(c.fee[i]); ss += c.size[i]; }
    Variant v; v.pos = std::move(pos);
    v.K = (int64_t{1} << 62) / std::max<int64_t>(sf, 1);
    v.M = (int32_t)(((int64_t{1} << 31) - 1) / std::max<int64_t>(ss, 1));
    return v;
}

void Process(const Cluster& c, const std::vector<std::vector<int>>& maps, const std::vector<Lin>& topo_inputs,
             const std::vector<Lin>& other_inputs, uint64_t seed, int nseeds, const std::string& src, std::ostream& out)
{
    Log log;
    size_t k = 0;
    for (const auto& pos : maps) {
        Variant v; v.pos = pos;
        // alternate plain and extreme values over the placements; the first placement gets both
        if (k == 0) { RunVariant(c, v, topo_inputs, other_inputs, Mix(seed + 1000 * k), nseeds, log); RunVariant(c, BigScale(c, pos), topo_inputs, other_inputs, Mix(seed + 1000 * k + 1), nseeds, log); }
        else if (k % 2 == 1) RunVariant(c, BigScale(c, pos), topo_inputs, other_inputs, Mix(seed + 1000 * k), nseeds, log);
        else RunVariant(c, v, topo_inputs, other_inputs, Mix(seed + 1000 * k), nseeds, log);
        ++k;
    }
    std::string orders = "[";
    for (size_t i = 0; i < log.orders.size(); ++i) { if (i) orders += ","; orders += J(log.orders[i]); }
    orders += "]";
    out << "{" << ClusterJson(c) << ",\"L\":" << orders << ",\"lins\":" << Dump(log.lins) << ",\"posts\":" << Dump(log.posts)
        << ",\"chk\":" << Dump(log.chk) << ",\"cmp\":" << Dump(log.cmp) << "}\n";
    R().Count("linearize_changed_input", log.lin_changed);
    R().Count("postlinearize_changed_input", log.post_changed);
    R().Count("linearize_calls", log.calls_linearize);
    R().Count("postlinearize_calls", log.calls_post);
    R().Count("optimal_results", log.optimal_results);
    R().Count("not_optimal_results", log.not_optimal_results);
    R().Count("distinct_linearize_results", (int64_t)log.lins.size());
    R().Count("distinct_postlinearize_results", (int64_t)log.posts.size());
    R().Count("chunkings", (int64_t)log.chk.size());
    R().Count("comparisons", (int64_t)log.cmp.size());
}

Lin LinFromJson(const UniValue& a)
{
    Lin l;
    for (size_t i = 0; i < a.size(); ++i) l.push_back(a[i].getInt<int>());
    return l;
}

int RowsMain(const std::string& path, uint64_t seed)
{
    InstallAbortHandlers();
    std::ofstream out(path + ".trace");
    ForEachLine(path, [&](size_t nline, const UniValue& row) {
        R().cur_test = nline; R().cur_step = 0; R().cur_action = row;
        Cluster c;
        c.n = row["n"].getInt<int>();
        for (int i = 0; i < c.n; ++i) {
            c.par.push_back(LinFromJson(row["par"][i]));
            c.fee.push_back(row["fee"][i].getInt<int64_t>());
            c.size.push_back(row["size"][i].getInt<int>());
        }
        std::vector<std::vector<int>> maps;
        for (size_t k = 0; k < row["maps"].size(); ++k) {
            auto m = LinFromJson(row["maps"][k]);
            for (int& x : m) --x;
            maps.push_back(m);
        }
        std::vector<Lin> topo_inputs, other_inputs;
        for (size_t k = 0; k < row["orders"].size(); ++k) topo_inputs.push_back(LinFromJson(row["orders"][k]));
        // not claimed topological: every permutation of up to 4 transactions (some are topological, most are not: the
        // specification decides which clauses apply); for larger clusters the first and last listed order, their
        // reversals and seeded shuffles
        // all randomness of a row derives from the seed and the row's content (not from its position in a shard)
        uint64_t h = 1469598103934665603ULL;
        for (unsigned char ch : row.write()) h = (h ^ ch) * 1099511628211ULL;
        Rng rng(Mix(seed) ^ Mix(h));
        if (c.n <= 4) {
            Lin p; for (int i = 1; i <= c.n; ++i) p.push_back(i);
            do { other_inputs.push_back(p); } while (std::next_permutation(p.begin(), p.end()));
        } else if (!topo_inputs.empty()) {
            other_inputs.push_back(topo_inputs.front());
            other_inputs.push_back(Lin(topo_inputs.front().rbegin(), topo_inputs.front().rend()));
            other_inputs.push_back(Lin(topo_inputs.back().rbegin(), topo_inputs.back().rend()));
            for (int k = 0; k < 6; ++k) {
                Lin sh = topo_inputs[rng.below(topo_inputs.size())];
                for (size_t i = sh.size(); i > 1; --i) std::swap(sh[i - 1], sh[rng.below(i)]);
                other_inputs.push_back(sh);
            }
        }
        Process(c, maps, topo_inputs, other_inputs, Mix(seed * 1000003 + h), 2, "row", out);
        ++R().tests; ++R().steps;
    });
    out.close();
    R().Summary();
    return 0;
}

/** A random topological order: repeatedly pick a random transaction whose parents have all been placed. */
Lin RandomTopo(const Cluster& c, Rng& rng)
{
    Lin l; std::vector<bool> placed(c.n + 1, false);
    while ((int)l.size() < c.n) {
        std::vector<int> ready;
        for (int i = 1; i <= c.n; ++i) {
            if (placed[i]) continue;
            bool ok = true;
            for (int p : c.par[i - 1]) ok = ok && placed[p];
            if (ok) ready.push_back(i);
        }
        const int x = ready[rng.below(ready.size())];
        placed[x] = true; l.push_back(x);
    }
    return l;
}

void DriveJob(uint64_t seed, int count, int nmin, int nmax, std::ostream& out)
{
    Rng rng(seed * 7919 + nmin * 131 + nmax);
    for (int t = 0; t < count; ++t) {
        Cluster c;
        c.n = nmin + (int)rng.below(nmax - nmin + 1);
        // shape: 0 random sparse DAG, 1 tree (one parent each), 2 reverse tree-ish (few roots, many join), 3 chain with shortcuts, 4 layered/bipartite
        const int shape = (int)rng.below(5);
        for (int i = 1; i <= c.n; ++i) {
            std::set<int> ps;
            if (i > 1) {
                if (shape == 0) { const int k = 1 + (int)rng.below(3); for (int j = 0; j < k; ++j) ps.insert(1 + (int)rng.below(i - 1)); if (c.n > 8 && rng.below(6) == 0) ps.clear(); }
                else if (shape == 1) ps.insert(1 + (int)rng.below(i - 1));
                else if (shape == 2) { ps.insert(i - 1); if (i > 2 && rng.below(2)) ps.insert(1 + (int)rng.below(i - 2)); if (rng.below(4) == 0 && i < c.n) { ps.clear(); ps.insert(1 + (int)rng.below(i - 1)); } }
                else if (shape == 3) { ps.insert(i - 1); if (i > 2 && rng.below(3) == 0) ps.insert(1 + (int)rng.below(i - 2)); }
                else { const int half = std::max(1, c.n / 2); if (i > half) { const int k = 1 + (int)rng.below(3); for (int j = 0; j < k; ++j) ps.insert(1 + (int)rng.below(half)); } else if (c.n <= 8 && i > 1 && rng.below(2)) ps.insert(1 + (int)rng.below(i - 1)); }
            }
            c.par.emplace_back(ps.begin(), ps.end());
        }
        // values: 0 small mixed, 1 all the same feerate (different sizes), 2 many zero fees, 3 with negative fees, 4 wide range,
        // 5 paying leaves over (mostly) zero-fee ancestors (chunks that need several splits; half of the small clusters)
        const bool small = c.n <= 8;
        const int vals = small ? (rng.below(2) ? 5 : (int)rng.below(5)) : (int)rng.below(6);
        const int maxsize = c.n > 8 ? 50 : 6;
        const int maxfee = c.n > 8 ? 500 : 12;
        for (int i = 0; i < c.n; ++i) {
            int32_t sz = 1 + (int32_t)rng.below(vals == 4 ? maxsize : std::min(maxsize, 4));
            int64_t fee;
            if (vals == 0) fee = (int64_t)rng.below(8);
            else if (vals == 1) fee = 3 * sz;
            else if (vals == 2) fee = rng.below(3) ? 0 : (int64_t)rng.below(6);
            else if (vals == 3) fee = (int64_t)rng.below(9) - 3;
            else if (vals == 5) { bool leaf = true; for (int j = i + 1; j < c.n; ++j) for (int p : c.par[j]) leaf = leaf && p != i + 1; fee = leaf ? 1 + (int64_t)rng.below(9) : (rng.below(10) < 7 ? 0 : (int64_t)rng.below(3)); }
            else fee = (int64_t)rng.below(maxfee + 1);
            c.fee.push_back(fee); c.size.push_back(sz);
        }
        std::vector<std::vector<int>> maps;
        { std::vector<int> id, rev, holes;
          for (int i = 0; i < c.n; ++i) { id.push_back(i); rev.push_back(c.n - 1 - i); holes.push_back(2 * i + 1); }
          maps.push_back(id); maps.push_back(rev); if (2 * c.n <= 64) maps.push_back(holes); }
        std::vector<Lin> topo_inputs, other_inputs;
        Lin ident; for (int i = 1; i <= c.n; ++i) ident.push_back(i);
        topo_inputs.push_back(ident);
        for (int k = 0; k < 3; ++k) topo_inputs.push_back(RandomTopo(c, rng));
        other_inputs.push_back(topo_inputs[1]);
        other_inputs.push_back(Lin(ident.rbegin(), ident.rend()));
        { Lin sh = ident; for (size_t i = sh.size(); i > 1; --i) std::swap(sh[i - 1], sh[rng.below(i)]); other_inputs.push_back(sh); }
        Process(c, maps, topo_inputs, other_inputs, rng.next(), 2, "rand", out);
    }
}

int DriveMain(const std::string& path)
{
    InstallAbortHandlers();
    std::ofstream out(path + ".trace");
    ForEachLine(path, [&](size_t nline, const UniValue& job) {
        R().cur_test = nline; R().cur_step = 0; R().cur_action = job;
        DriveJob(job["seed"].getInt<uint64_t>(), job["count"].getInt<int>(), job["nmin"].getInt<int>(), job["nmax"].getInt<int>(), out);
        ++R().tests; R().steps += job["count"].getInt<int>();
    });
    out.close();
    R().Summary();
    return 0;
}

} // namespace

int main(int argc, char** argv)
{
    if (argc >= 4 && std::string(argv[1]) == "rows") return RowsMain(argv[2], std::stoull(argv[3]));
    if (argc >= 3 && std::string(argv[1]) == "drive") return DriveMain(argv[2]);
    std::cerr << "usage: linearize rows <rows.ndjson> <seed> | linearize drive <jobs.ndjson>\n";
    return 2;
}
