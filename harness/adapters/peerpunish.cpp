// Adapter for specs/PeerPunish (C36): replays the decision table / message sequences of the specification on a real PeerManager.
//   peerpunish replay <tests.ndjson>
// A test: {"mode":"normal"|"blocksonly", "peer":{"conn":..,"noban":b,"relay":b,"local":b,"fRelay":b,"cmpct":b}, "msgs":[class,...],
//          "exp":[outcome after each message]}   outcome in {"none","disconnect","discourage"}
// Every test runs on a fresh node (netsim.h); the peer is created and handshaken like the repository's tests do, each message class is
// realised as real serialized bytes pushed through the peer's transport, the message handler is run until idle, and the projection
// is CNode::fDisconnect and BanMan::IsDiscouraged(peer address) - nothing else is compared.
//   peerpunish probe <tests.ndjson>    prints the observed outcomes instead of comparing (development aid)
#include "netsim.h"
#include <random.h>
using namespace vfh;
using namespace netsim;

namespace {

struct PeerCtx {
    std::optional<CMutableTransaction> pending_parent;   // parent of the last orphan this peer sent
    std::shared_ptr<CBlock> partial;                      // compact block the peer announced with a transaction the node lacks
    CTransactionRef partial_missing;
    std::shared_ptr<CBlock> waiting_parent;               // block A whose child the peer delivered first (the child is stored, unvalidated)
    std::shared_ptr<CBlock> side_block;                   // side-branch block the peer delivered (stored, unvalidated)
};

std::vector<unsigned char> CorruptWitnessSig(CMutableTransaction& m)
{
    auto& st = m.vin.at(0).scriptWitness.stack;
    if (st.empty() || st[0].size() < 10) throw std::runtime_error("no witness signature to corrupt");
    st[0][st[0].size() / 2] ^= 0x01;
    return {};
}

template <typename T>
std::vector<unsigned char> SerAny(const T& x) { DataStream ds; ds << x; return {UCharCast(ds.data()), UCharCast(ds.data()) + ds.size()}; }

CBlockHeader Hdr(const std::shared_ptr<CBlock>& b) { return static_cast<const CBlockHeader&>(*b); }

// the test suite's way of forging compact blocks: a subclass exposing the protected vectors
struct ForgedCmpct : public CBlockHeaderAndShortTxIDs {
    using CBlockHeaderAndShortTxIDs::CBlockHeaderAndShortTxIDs;
    std::vector<uint64_t>& Ids() { return shorttxids; }
    std::vector<PrefilledTransaction>& Pre() { return prefilledtxn; }
};

// what validation said about the blocks it looked at (diagnostics: shows that a content class is what its name says)
struct BlockVerdicts : public CValidationInterface {
    std::vector<std::string> log;
    void BlockChecked(const std::shared_ptr<const CBlock>& block, const BlockValidationState& st) override { log.push_back(st.IsValid() ? "valid" : st.GetRejectReason()); }
};

struct World {
    std::unique_ptr<NetSim> sim;
    std::shared_ptr<BlockVerdicts> verdicts{std::make_shared<BlockVerdicts>()};
    std::vector<std::string> diag;             // per message: what validation says about the content (not compared)
    bool blocksonly{false};
    std::shared_ptr<CBlock> known_invalid;     // a block the node has validated and marked invalid (bad-cb-amount on the then tip)

    explicit World(const std::string& mode)
    {
        NetOptions o;
        blocksonly = mode == "blocksonly";
        if (blocksonly) o.args.push_back("-blocksonly=1");
        o.fund_coins = 100;
        sim = std::make_unique<NetSim>(o);
        sim->m_node.validation_signals->RegisterSharedValidationInterface(verdicts);
    }
    ~World() { sim->m_node.validation_signals->UnregisterSharedValidationInterface(verdicts); }
    NetSim& s() { return *sim; }

    // precondition used by the *_invalid_prev / *_cached_invalid classes: the node itself has seen and rejected block X
    void EnsureKnownInvalid()
    {
        // (on a node shared by many tests the chain grows: a block that was marked invalid long ago ends up so far below the tip
        //  that headers building on it fall under the anti-DoS work threshold and are ignored; keep it close to the tip)
        if (known_invalid) {
            CBlockIndex* old = s().Lookup(known_invalid->GetHash());
            if (old && s().Tip()->nHeight - old->nHeight < 40) return;
        }
        auto spec = s().OnTip(); spec.cb_value = GetBlockSubsidy(spec.height, s().consensus()) + 1;
        known_invalid = s().BuildBlock(spec);
        s().SubmitOwn(known_invalid);
        CBlockIndex* pi = s().Lookup(known_invalid->GetHash());
        LOCK(cs_main);
        if (!pi || !(pi->nStatus & BLOCK_FAILED_VALID)) throw std::runtime_error("precondition: invalid block not marked failed");
    }

    CMutableTransaction ValidTx() { return s().Spend({s().TakeCoin()}); }

    void SendTx(CNode& n, const CMutableTransaction& m, bool with_witness = true) EXCLUSIVE_LOCKS_REQUIRED(NetEventsInterface::g_msgproc_mutex)
    {
        CMutableTransaction sent(m);
        if (!with_witness) for (auto& in : sent.vin) in.scriptWitness.SetNull();
        {   // diagnostics only: the mempool's verdict on exactly these bytes (test-accept, nothing is added)
            LOCK(cs_main);
            const auto r = s().cm().ProcessTransaction(MakeTransactionRef(sent), /*test_accept=*/true);
            diag.push_back(r.m_result_type == MempoolAcceptResult::ResultType::VALID ? "tx:ok" : "tx:" + r.m_state.GetRejectReason());
        }
        s().DeliverRaw(n, NetMsgType::TX, NetSim::Ser(CTransaction(m), with_witness));
    }
    void SendBlock(CNode& n, const CBlock& b) EXCLUSIVE_LOCKS_REQUIRED(NetEventsInterface::g_msgproc_mutex) { s().DeliverRaw(n, NetMsgType::BLOCK, NetSim::Ser(b)); }
    void SendCmpct(CNode& n, const CBlockHeaderAndShortTxIDs& c) EXCLUSIVE_LOCKS_REQUIRED(NetEventsInterface::g_msgproc_mutex) { s().Deliver(n, NetMsgType::CMPCTBLOCK, c); }
    void SendHeaders(CNode& n, const std::vector<CBlockHeader>& hs) EXCLUSIVE_LOCKS_REQUIRED(NetEventsInterface::g_msgproc_mutex) { s().DeliverRaw(n, NetMsgType::HEADERS, NetSim::SerHeaders(hs)); }

    // all transactions prefilled: the node can reconstruct without its mempool
    static ForgedCmpct AllPrefilled(const CBlock& b, uint64_t nonce)
    {
        ForgedCmpct c{b, nonce};
        c.Ids().clear();
        c.Pre().clear();
        for (size_t i = 0; i < b.vtx.size(); ++i) c.Pre().push_back({(uint16_t)0, b.vtx[i]});   // differential indexes: all 0
        return c;
    }

    void Send(CNode& n, PeerCtx& pc, const std::string& cls) EXCLUSIVE_LOCKS_REQUIRED(NetEventsInterface::g_msgproc_mutex)
    {
        NetSim& S = s();
        S.Advance(std::chrono::seconds{1});
        verdicts->log.clear();
        // ---------------------------------------------------------------- transactions
        if (cls == "tx_valid") { SendTx(n, ValidTx()); return; }
        if (cls == "tx_belowout") {                       // outputs exceed inputs: TX_CONSENSUS (bad-txns-in-belowout)
            const SimCoin c = S.TakeCoin();
            CMutableTransaction m = S.Spend({c}, 1, 20000, false);
            m.vout[0].nValue = c.out.nValue + 1000;
            S.SignWpkh(m, 0, c.out);
            SendTx(n, m); return;
        }
        if (cls == "tx_dupinputs") {                      // CheckTransaction: bad-txns-inputs-duplicate (TX_CONSENSUS)
            const SimCoin c = S.TakeCoin();
            CMutableTransaction m = S.Spend({c, c}, 1, 20000, false);
            SendTx(n, m); return;
        }
        if (cls == "tx_coinbase") {                       // a coinbase as a loose transaction (TX_CONSENSUS)
            CMutableTransaction m; m.version = 2; m.vin.resize(1); m.vin[0].prevout.SetNull(); m.vin[0].scriptSig = CScript() << 1 << 2 << CScriptNum(S.nonce++);
            m.vout.emplace_back(1000, S.wpkh);
            SendTx(n, m); return;
        }
        if (cls == "tx_badsig") {                         // invalid witness signature (script failure)
            CMutableTransaction m = ValidTx(); CorruptWitnessSig(m); SendTx(n, m); return;
        }
        if (cls == "tx_nonstd") {                         // non-standard version
            const SimCoin c = S.TakeCoin();
            CMutableTransaction m = S.Spend({c}, 1, 20000, false); m.version = 7; S.SignWpkh(m, 0, c.out);
            SendTx(n, m); return;
        }
        if (cls == "tx_dust") {                           // dust output (non-standard)
            const SimCoin c = S.TakeCoin();
            CMutableTransaction m = S.Spend({c}, 2, 20000, false); m.vout[1].nValue = 1; S.SignWpkh(m, 0, c.out);
            SendTx(n, m); return;
        }
        if (cls == "tx_lowfee") {                         // zero fee: below the relay minimum
            SendTx(n, S.Spend({S.TakeCoin()}, 1, 0)); return;
        }
        if (cls == "tx_orphan" || cls == "tx_orphan_bad") {
            CMutableTransaction parent = ValidTx();
            CMutableTransaction child = S.Spend({NetSim::OutputOf(parent, 0)});
            if (cls == "tx_orphan_bad") CorruptWitnessSig(child);
            pc.pending_parent = parent;
            SendTx(n, child); return;
        }
        if (cls == "tx_orphan_resolved" || cls == "tx_orphan_bad_resolved") {   // the orphan, then its parent: the orphan is reconsidered (and, if bad, rejected then)
            CMutableTransaction parent = ValidTx();
            CMutableTransaction child = S.Spend({NetSim::OutputOf(parent, 0)});
            if (cls == "tx_orphan_bad_resolved") CorruptWitnessSig(child);
            SendTx(n, child); SendTx(n, parent);
            { LOCK(cs_main); diag.push_back(std::string("child-in-pool:") + (S.pool().exists(child.GetHash()) ? "yes" : "no")); }
            return;
        }
        if (cls == "tx_parent") {                         // the parent of the orphan sent before (a plain valid transaction otherwise)
            CMutableTransaction m = pc.pending_parent ? *pc.pending_parent : ValidTx();
            pc.pending_parent.reset();
            SendTx(n, m); return;
        }
        if (cls == "tx_conflict") {                       // double spend of a pool transaction that does not pay for the replacement
            const SimCoin c = S.TakeCoin();
            const CMutableTransaction first = S.Spend({c}, 1, 30000);
            { LOCK(cs_main); const auto r = S.cm().ProcessTransaction(MakeTransactionRef(first)); if (r.m_result_type != MempoolAcceptResult::ResultType::VALID) throw std::runtime_error("precondition: pool transaction rejected: " + r.m_state.ToString()); }
            SendTx(n, S.Spend({c}, 2, 30000)); return;
        }
        if (cls == "tx_stripped") { SendTx(n, ValidTx(), /*with_witness=*/false); return; }
        if (cls == "tx_premature") {                      // spends an immature coinbase
            CBlock tipb; if (!S.cm().m_blockman.ReadBlock(tipb, *S.Tip())) throw std::runtime_error("cannot read tip");
            const CTransactionRef cb = tipb.vtx[0];
            CMutableTransaction m; m.version = 2; m.vin.emplace_back(COutPoint(cb->GetHash(), 0), CScript(), MAX_BIP125_RBF_SEQUENCE);
            m.vout.emplace_back(cb->vout[0].nValue - 20000, S.wpkh);
            S.SignWpkh(m, 0, cb->vout[0]);
            SendTx(n, m); return;
        }
        if (cls == "tx_confirmed") { SendTx(n, CMutableTransaction(*S.funding.at(0))); return; }      // already in the chain
        if (cls == "tx_twice") { const CMutableTransaction m = ValidTx(); SendTx(n, m); SendTx(n, m); return; }
        if (cls == "tx_truncated") { auto b = NetSim::Ser(CTransaction(ValidTx())); b.resize(b.size() / 2); S.DeliverRaw(n, NetMsgType::TX, b); return; }
        if (cls == "tx_empty") { S.DeliverRaw(n, NetMsgType::TX, {}); return; }
        if (cls == "tx_garbage") { S.DeliverRaw(n, NetMsgType::TX, std::vector<unsigned char>(300, 0xff)); return; }
        if (cls == "tx_trailing") { auto b = NetSim::Ser(CTransaction(ValidTx())); b.insert(b.end(), 50, 0x00); S.DeliverRaw(n, NetMsgType::TX, b); return; }
        if (cls == "inv_tx") {
            std::vector<CInv> v{CInv(n.GetId() >= 0 ? MSG_WTX : MSG_TX, GetRandHash())};
            S.Deliver(n, NetMsgType::INV, v); return;
        }
        // ---------------------------------------------------------------- headers
        if (cls == "hdr_valid") { SendHeaders(n, {Hdr(S.BuildBlock(S.OnTip()))}); return; }
        if (cls == "hdr_badpow") { auto sp = S.OnTip(); sp.solve = false; SendHeaders(n, {Hdr(S.BuildBlock(sp))}); return; }
        if (cls == "hdr_badpow_second") {                 // a valid header followed by a connected one whose proof of work is invalid
            auto b1 = S.BuildBlock(S.OnTip());
            NetSim::BlockSpec sp; sp.prev = b1->GetHash(); sp.height = S.Tip()->nHeight + 2; sp.time = b1->nTime + 1; sp.solve = false;
            SendHeaders(n, {Hdr(b1), Hdr(S.BuildBlock(sp))}); return;
        }
        if (cls == "hdr_noncont") { SendHeaders(n, {Hdr(S.BuildBlock(S.OnTip())), Hdr(S.BuildBlock(S.OnTip()))}); return; }
        if (cls == "hdr_oversize") { DataStream ds; WriteCompactSize(ds, 2001); S.DeliverRaw(n, NetMsgType::HEADERS, {UCharCast(ds.data()), UCharCast(ds.data()) + ds.size()}); return; }
        if (cls == "hdr_empty") { SendHeaders(n, {}); return; }
        if (cls == "hdr_unconnecting") { auto sp = S.OnTip(); sp.prev = GetRandHash(); SendHeaders(n, {Hdr(S.BuildBlock(sp))}); return; }
        if (cls == "hdr_badbits") { auto sp = S.OnTip(); sp.bits = 0x207ffffe; SendHeaders(n, {Hdr(S.BuildBlock(sp))}); return; }
        if (cls == "hdr_time_old") { auto sp = S.OnTip(); sp.time = S.Tip()->GetMedianTimePast(); SendHeaders(n, {Hdr(S.BuildBlock(sp))}); return; }
        if (cls == "hdr_time_future") { auto sp = S.OnTip(); sp.time = GetTime() + 2 * 60 * 60 + 600; SendHeaders(n, {Hdr(S.BuildBlock(sp))}); return; }
        if (cls == "hdr_invalid_prev") {
            EnsureKnownInvalid();
            NetSim::BlockSpec sp; sp.prev = known_invalid->GetHash(); sp.height = S.Lookup(sp.prev)->nHeight + 1; sp.time = known_invalid->nTime + 1;
            SendHeaders(n, {Hdr(S.BuildBlock(sp))}); return;
        }
        if (cls == "hdr_cached_invalid") { EnsureKnownInvalid(); SendHeaders(n, {Hdr(known_invalid)}); return; }
        if (cls == "hdr_lowwork") { SendHeaders(n, {Hdr(S.BuildBlock(S.OnBlock(S.AtHeight(5))))}); return; }
        if (cls == "hdr_truncated") { auto b = NetSim::SerHeaders({Hdr(S.BuildBlock(S.OnTip()))}); b.resize(40); S.DeliverRaw(n, NetMsgType::HEADERS, b); return; }
        // ---------------------------------------------------------------- full blocks
        if (cls == "blk_valid") { SendBlock(n, *S.BuildBlock(S.OnTip())); return; }
        if (cls == "blk_valid_tx") { auto sp = S.OnTip(); sp.txs = {MakeTransactionRef(ValidTx())}; SendBlock(n, *S.BuildBlock(sp)); return; }
        if (cls == "blk_mutated_merkle") { auto b = S.BuildBlock(S.OnTip()); b->hashMerkleRoot = GetRandHash(); S.Grind(*b, true); SendBlock(n, *b); return; }
        if (cls == "blk_mutated_dup") {                   // CVE-2012-2459: the last transaction duplicated, same merkle root
            auto sp = S.OnTip(); sp.txs = {MakeTransactionRef(S.Spend({S.TakeCoin()}, 1, 20000)), MakeTransactionRef(S.Spend({S.TakeCoin()}, 1, 20000))};
            auto b = S.BuildBlock(sp);
            b->vtx.push_back(b->vtx.back());
            SendBlock(n, *b); return;
        }
        if (cls == "blk_mutated_witness") {               // witness data changed after the commitment was computed
            auto sp = S.OnTip(); sp.txs = {MakeTransactionRef(ValidTx())};
            auto b = S.BuildBlock(sp);
            CMutableTransaction t(*b->vtx[1]); t.vin[0].scriptWitness.stack[0][5] ^= 1; b->vtx[1] = MakeTransactionRef(t);
            SendBlock(n, *b); return;
        }
        if (cls == "blk_badpow") { auto sp = S.OnTip(); sp.solve = false; SendBlock(n, *S.BuildBlock(sp)); return; }
        if (cls == "blk_cb_multiple") { auto sp = S.OnTip(); sp.second_coinbase = true; SendBlock(n, *S.BuildBlock(sp)); return; }
        if (cls == "blk_cb_amount") { auto sp = S.OnTip(); sp.cb_value = GetBlockSubsidy(sp.height, S.consensus()) + 1; SendBlock(n, *S.BuildBlock(sp)); return; }
        if (cls == "blk_missing_inputs") {
            CMutableTransaction parent = ValidTx();
            auto sp = S.OnTip(); sp.txs = {MakeTransactionRef(S.Spend({NetSim::OutputOf(parent, 0)}))};
            SendBlock(n, *S.BuildBlock(sp)); return;
        }
        if (cls == "blk_badsig") { CMutableTransaction m = ValidTx(); CorruptWitnessSig(m); auto sp = S.OnTip(); sp.txs = {MakeTransactionRef(m)}; SendBlock(n, *S.BuildBlock(sp)); return; }
        if (cls == "blk_cb_height") { auto sp = S.OnTip(); sp.cb_height = sp.height + 1; SendBlock(n, *S.BuildBlock(sp)); return; }
        if (cls == "blk_time_old") { auto sp = S.OnTip(); sp.time = S.Tip()->GetMedianTimePast(); SendBlock(n, *S.BuildBlock(sp)); return; }
        if (cls == "blk_time_future") { auto sp = S.OnTip(); sp.time = GetTime() + 2 * 60 * 60 + 600; SendBlock(n, *S.BuildBlock(sp)); return; }
        if (cls == "blk_unknown_prev") { auto sp = S.OnTip(); sp.prev = GetRandHash(); SendBlock(n, *S.BuildBlock(sp)); return; }
        if (cls == "blk_invalid_prev") {
            EnsureKnownInvalid();
            NetSim::BlockSpec sp; sp.prev = known_invalid->GetHash(); sp.height = S.Lookup(sp.prev)->nHeight + 1; sp.time = known_invalid->nTime + 1;
            SendBlock(n, *S.BuildBlock(sp)); return;
        }
        if (cls == "blk_cached_invalid") { EnsureKnownInvalid(); SendBlock(n, *known_invalid); return; }
        if (cls == "blk_lowwork") { SendBlock(n, *S.BuildBlock(S.OnBlock(S.AtHeight(5)))); return; }
        if (cls == "blk_sibling_invalid") {               // invalid, but competing with the tip at equal work: stored, never validated
            auto sp = S.OnBlock(S.Tip()->pprev); sp.cb_value = GetBlockSubsidy(sp.height, S.consensus()) + 1;
            SendBlock(n, *S.BuildBlock(sp)); return;
        }
        if (cls == "blk_dup_tip") {
            CBlock b; if (!S.cm().m_blockman.ReadBlock(b, *S.Tip())) throw std::runtime_error("cannot read tip");
            SendBlock(n, b); return;
        }
        // ---------------------------------------------------------------- full blocks validated later than received
        if (cls == "blk_child_first_bad" || cls == "blk_child_first_ok") {
            // headers A, B, then the full block B: stored (its parent's data is missing), validated only when A arrives
            auto a = S.BuildBlock(S.OnTip());
            NetSim::BlockSpec sp; sp.prev = a->GetHash(); sp.height = S.Tip()->nHeight + 2; sp.time = a->nTime + 1;
            if (cls == "blk_child_first_bad") sp.cb_value = GetBlockSubsidy(sp.height, S.consensus()) + 1;
            auto b = S.BuildBlock(sp);
            SendHeaders(n, {Hdr(a), Hdr(b)});
            SendBlock(n, *b);
            if (!n.fDisconnect) {
                CBlockIndex* bi = S.Lookup(b->GetHash());
                LOCK(cs_main);
                if (!bi || !(bi->nStatus & BLOCK_HAVE_DATA) || (bi->nStatus & BLOCK_FAILED_VALID) || S.cm().ActiveChain().Contains(*bi)) throw std::runtime_error("precondition: child block not stored unvalidated");
                diag.push_back("stored:child");
            }
            pc.waiting_parent = a; pc.side_block.reset();
            return;
        }
        if (cls == "blk_parent_arrives" || cls == "blk_parent_from_elsewhere") {
            if (!pc.waiting_parent) { SendBlock(n, *S.BuildBlock(S.OnTip())); return; }          // no stored child: a plain valid block
            auto a = pc.waiting_parent; pc.waiting_parent.reset();
            if (cls == "blk_parent_arrives") SendBlock(n, *a);
            else { S.SubmitOwn(a); S.Pump(n); }                                                   // the parent reaches the node some other way
            return;
        }
        if (cls == "blk_side_first_bad" || cls == "blk_side_first_ok") {
            // a block competing with the tip at equal work: stored, validated only if its branch gets more work
            auto sp = S.OnBlock(S.Tip()->pprev);
            if (cls == "blk_side_first_bad") sp.cb_value = GetBlockSubsidy(sp.height, S.consensus()) + 1;
            auto b = S.BuildBlock(sp);
            SendBlock(n, *b);
            if (!n.fDisconnect) {
                CBlockIndex* bi = S.Lookup(b->GetHash());
                LOCK(cs_main);
                if (!bi || !(bi->nStatus & BLOCK_HAVE_DATA) || (bi->nStatus & BLOCK_FAILED_VALID) || S.cm().ActiveChain().Contains(*bi)) throw std::runtime_error("precondition: side block not stored unvalidated");
                diag.push_back("stored:side");
            }
            pc.side_block = b; pc.waiting_parent.reset();
            return;
        }
        if (cls == "blk_side_extended") {
            if (!pc.side_block) { SendBlock(n, *S.BuildBlock(S.OnTip())); return; }
            auto s1 = pc.side_block; pc.side_block.reset();
            NetSim::BlockSpec sp; sp.prev = s1->GetHash(); sp.height = S.Lookup(s1->GetHash())->nHeight + 1; sp.time = std::max<int64_t>(s1->nTime + 1, GetTime());
            SendBlock(n, *S.BuildBlock(sp));
            return;
        }
        if (cls == "blk_truncated") { auto b = NetSim::Ser(*S.BuildBlock(S.OnTip())); b.resize(90); S.DeliverRaw(n, NetMsgType::BLOCK, b); return; }
        // ---------------------------------------------------------------- compact blocks
        if (cls == "cmpct_valid") { auto b = S.BuildBlock(S.OnTip()); SendCmpct(n, AllPrefilled(*b, 7)); return; }
        if (cls == "cmpct_badpow") { auto sp = S.OnTip(); sp.solve = false; auto b = S.BuildBlock(sp); SendCmpct(n, AllPrefilled(*b, 7)); return; }
        if (cls == "cmpct_invalid_block") {               // reconstructs completely, fails validation (bad-cb-amount)
            auto sp = S.OnTip(); sp.cb_value = GetBlockSubsidy(sp.height, S.consensus()) + 1;
            auto b = S.BuildBlock(sp); SendCmpct(n, AllPrefilled(*b, 7)); return;
        }
        if (cls == "cmpct_bad_prefilled") {               // prefilled index beyond the block: READ_STATUS_INVALID
            auto b = S.BuildBlock(S.OnTip());
            ForgedCmpct c = AllPrefilled(*b, 7);
            c.Pre()[0].index = 5;
            SendCmpct(n, c); return;
        }
        if (cls == "cmpct_missing_tx" || cls == "cmpct_then_wrong_blocktxn" || cls == "cmpct_then_short_blocktxn") {
            // a transaction the node does not have: it asks with getblocktxn
            auto sp = S.OnTip(); const CTransactionRef t = MakeTransactionRef(ValidTx()); sp.txs = {t};
            auto b = S.BuildBlock(sp);
            CBlockHeaderAndShortTxIDs c{*b, 11};
            S.Deliver(n, NetMsgType::CMPCTBLOCK, c);
            pc.partial = b; pc.partial_missing = t;
            if (cls == "cmpct_then_wrong_blocktxn") {     // answers with a different transaction: merkle mismatch -> READ_STATUS_FAILED, full block requested
                BlockTransactions bt; bt.blockhash = b->GetHash(); bt.txn = {MakeTransactionRef(ValidTx())};
                S.Deliver(n, NetMsgType::BLOCKTXN, bt);
            } else if (cls == "cmpct_then_short_blocktxn") {   // answers with too many transactions: READ_STATUS_INVALID
                BlockTransactions bt; bt.blockhash = b->GetHash(); bt.txn = {t, t};
                S.Deliver(n, NetMsgType::BLOCKTXN, bt);
            }
            return;
        }
        if (cls == "blocktxn_unsolicited") { BlockTransactions bt; bt.blockhash = GetRandHash(); bt.txn = {MakeTransactionRef(ValidTx())}; S.Deliver(n, NetMsgType::BLOCKTXN, bt); return; }
        if (cls == "getblocktxn_oob") {                   // index beyond the block's transactions
            BlockTransactionsRequest req; req.blockhash = S.Tip()->GetBlockHash(); req.indexes = {0, 200};
            S.Deliver(n, NetMsgType::GETBLOCKTXN, req); return;
        }
        if (cls == "sendcmpct_badflag") { S.Deliver(n, NetMsgType::SENDCMPCT, uint8_t{2}, uint64_t{CMPCTBLOCKS_VERSION}); return; }
        // ---------------------------------------------------------------- other message kinds named by the property
        if (cls == "inv_oversize") { std::vector<CInv> v(50001, CInv(MSG_BLOCK, uint256::ONE)); S.Deliver(n, NetMsgType::INV, v); return; }
        if (cls == "getdata_oversize") { std::vector<CInv> v(50001, CInv(MSG_BLOCK, uint256::ONE)); S.Deliver(n, NetMsgType::GETDATA, v); return; }
        if (cls == "getdata_unknown") { std::vector<CInv> v{CInv(MSG_WTX, GetRandHash()), CInv(MSG_BLOCK, GetRandHash())}; S.Deliver(n, NetMsgType::GETDATA, v); return; }
        if (cls == "addr_oversize") {
            std::vector<CAddress> v(1001, CAddress(CService(CNetAddr(in_addr{htonl(0x08080808)}), 8333), NODE_NETWORK));
            S.Deliver(n, NetMsgType::ADDR, CAddress::V1_NETWORK(v)); return;
        }
        if (cls == "filterload_any") { S.DeliverRaw(n, NetMsgType::FILTERLOAD, std::vector<unsigned char>{0x01, 0xff, 0x01, 0, 0, 0, 0, 0, 0, 0, 0}); return; }
        if (cls == "ping") { S.Deliver(n, NetMsgType::PING, uint64_t{42}); return; }
        if (cls == "unknown_msg") { S.DeliverRaw(n, "foobar", {1, 2, 3}); return; }
        throw std::runtime_error("unknown message class " + cls);
    }
};

PeerSpec SpecOf(const UniValue& p)
{
    PeerSpec s;
    s.conn = ConnFromString(p["conn"].get_str());
    NetPermissionFlags f = NetPermissionFlags::None;
    if (p["noban"].get_bool()) f = f | NetPermissionFlags::NoBan;
    if (p["relay"].get_bool()) f = f | NetPermissionFlags::Relay;
    s.perms = f;
    s.local = p["local"].get_bool();
    s.relay_txs = p["fRelay"].get_bool();
    s.sendcmpct = p["cmpct"].get_bool();
    return s;
}

std::string Outcome(NetSim& S, CNode& n)
{
    const bool disc = S.Discouraged(n);
    if (disc) return n.fDisconnect ? "discourage" : "discourage-without-disconnect";
    return n.fDisconnect ? "disconnect" : "none";
}

} // namespace

// Runs one test on world `w`; returns "" or the description of the first difference. `step_out` = step of the difference.
std::string RunTest(World& w, size_t tn, const UniValue& t, bool probe, UniValue& seen, bool emit_diag) EXCLUSIVE_LOCKS_REQUIRED(NetEventsInterface::g_msgproc_mutex)
{
    PeerCtx pc;
    std::string why;
    try {
        if (w.s().coins.size() < 30) w.s().Fund(100);      // never in the middle of a test: funding mines a block
        CNode& n = w.s().AddPeer(SpecOf(t["peer"]));
        const UniValue& msgs = t["msgs"];
        // step 0 of the expectation is the state right after the handshake
        for (size_t i = 0; i <= msgs.size(); ++i) {
            R().cur_step = i;
            if (i > 0) {
                UniValue act(UniValue::VARR); act.push_back(msgs[i - 1].get_str()); act.push_back(t["peer"]); act.push_back(t["mode"]);
                R().cur_action = act;
                w.diag.clear();
                w.Send(n, pc, msgs[i - 1].get_str());
                for (const auto& v : w.verdicts->log) w.diag.push_back("blk:" + v);
                if (emit_diag) {
                    ++R().steps;
                    UniValue d(UniValue::VOBJ); d.pushKV("kind", "diag"); d.pushKV("cls", msgs[i - 1].get_str()); d.pushKV("hb", (bool)n.m_bip152_highbandwidth_to);
                    UniValue dv(UniValue::VARR); for (const auto& x : w.diag) dv.push_back(x); d.pushKV("diag", dv);
                    d.pushKV("test", (uint64_t)tn); d.pushKV("step", (uint64_t)i);
                    Emit(d);
                }
            }
            const std::string got = Outcome(w.s(), n);
            seen.push_back(got);
            if (!probe && got != t["exp"][i].get_str()) {
                why = "after " + (i == 0 ? std::string("handshake") : "message " + std::to_string(i) + " (" + msgs[i - 1].get_str() + ")") +
                      ": specification says " + t["exp"][i].get_str() + ", node: " + got;
                break;
            }
        }
    } catch (const std::exception& e) { why = std::string("exception: ") + e.what(); }
    w.s().DropPeers();
    return why;
}

int main(int argc, char** argv)
{
    if (argc < 3) { std::cerr << "usage: peerpunish replay|probe <tests.ndjson> [fresh]\n"; return 2; }
    const std::string mode = argv[1];
    const bool probe = mode == "probe";
    if (mode != "replay" && !probe) return 2;
    // default: consecutive tests of the same node mode share one node (each test brings its own peer, addresses, transactions and
    // blocks); a difference seen on a shared node is re-run on a fresh node and only reported if it repeats there.
    const bool fresh_only = argc > 3 && std::string(argv[3]) == "fresh";
    InstallAbortHandlers();
    std::unique_ptr<World> shared;
    std::string shared_mode;
    ForEachLine(argv[2], [&](size_t tn, const UniValue& t) {
        R().cur_test = tn; R().cur_step = 0; R().cur_action = UniValue::VNULL;
        LOCK(NetEventsInterface::g_msgproc_mutex);
        const std::string nm = t["mode"].get_str();
        std::string why;
        UniValue seen(UniValue::VARR);
        bool confirmed_fresh = fresh_only;
        if (!fresh_only) {
            if (!shared || shared_mode != nm) { shared.reset(); shared = std::make_unique<World>(nm); shared_mode = nm; }
            why = RunTest(*shared, tn, t, probe, seen, true);
        }
        if (fresh_only || !why.empty()) {
            shared.reset();
            World w(nm);
            UniValue seen2(UniValue::VARR);
            const size_t step_shared = R().cur_step;
            const std::string why2 = RunTest(w, tn, t, probe, seen2, fresh_only);
            if (!fresh_only && why2.empty()) {
                UniValue o(UniValue::VOBJ); o.pushKV("kind", "sharedonly"); o.pushKV("test", (uint64_t)tn); o.pushKV("step", (uint64_t)step_shared); o.pushKV("why", why);
                Emit(o);
                R().Count("shared_only");
            }
            if (fresh_only) seen = seen2;
            why = why2;
            confirmed_fresh = true;
        }
        if (probe) { UniValue o(UniValue::VOBJ); o.pushKV("kind", "probe"); o.pushKV("test", (uint64_t)tn); o.pushKV("msgs", t["msgs"]); o.pushKV("peer", t["peer"]); o.pushKV("mode", t["mode"]); o.pushKV("seen", seen); o.pushKV("err", why); Emit(o); }
        else if (!why.empty()) R().Mismatch(R().cur_action, why);
        ++R().tests;
    });
    shared.reset();
    R().Summary();
    return 0;
}
