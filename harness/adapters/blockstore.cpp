// Adapter for specs/BlockStore (C17): replays model paths on a real node::BlockManager (fast_prune: 64 KiB block files,
// 16 KiB pre-allocation chunks) in a temp directory, corrupts the stored records on disk (single bit flips per region,
// truncations at region boundaries) and reads everything back after every step.
//   blockstore measure <out.json>          real serialized sizes of the block / undo classes (constants of the model)
//   blockstore replay  <tests.ndjson> seed paths of the BlockStore state graph
//   blockstore connect <rows.ndjson> seed  rows of BlockConnect: corrupt a stored, not yet connected block of an in-process
//                                          regtest node (chainsim) and trigger its connection
#include <chainsim.h>
#include <node/blockstorage.h>
#include <node/kernel_notifications.h>
#include <undo.h>
#include <streams.h>
#include <crypto/common.h>
#include <crypto/sha256.h>
#include <consensus/consensus.h>
#include <hash.h>
#include <util/fs.h>
#include <cstdio>
#include <filesystem>

using namespace vfh;
using node::BlockManager;
using node::KernelNotifications;
using kernel::CBlockFileInfo;

namespace {
// ---- the only private member the adapter needs: an explicit flush of the current block file (what FlushStateToDisk does)
template <typename Tag, typename Tag::type M> struct Rob { friend typename Tag::type Get(Tag) { return M; } };
struct FlushTag { using type = bool (BlockManager::*)(int); friend type Get(FlushTag); };
template struct Rob<FlushTag, &BlockManager::FlushChainstateBlockFile>;

constexpr uint32_t HDR = node::STORAGE_HEADER_BYTES;
constexpr int NBLK = 6;   // universe b1..b6

uint64_t Mix(uint64_t seed, const std::string& s, uint64_t extra)
{
    uint64_t h = 1469598103934665603ULL ^ (seed * 0x9E3779B97F4A7C15ULL) ^ (extra << 17);
    for (unsigned char c : s) { h ^= c; h *= 1099511628211ULL; }
    h ^= h >> 29; h *= 0xBF58476D1CE4E5B9ULL; h ^= h >> 32;
    return h;
}

// class name -> size of the whole record (8-byte storage header + serialized block); 0 = natural size
std::map<std::string, uint32_t> RecordTargets()
{
    return {{"S", 0}, {"A", 0x8000}, {"B", 0x7fff}, {"C", 0x8001}, {"F", 0xffff}, {"X", 0x10000}, {"Y", 0x10400}};
}

int BlkNum(const std::string& b) { return std::stoi(b.substr(1)); }
uint256 ParentHash(int id) { return uint256{static_cast<uint8_t>(0xA0 + id)}; }

std::vector<unsigned char> SerBlock(const CBlock& b) { DataStream s; s << TX_WITH_WITNESS(b); auto sp = MakeUCharSpan(s); return {sp.begin(), sp.end()}; }
std::vector<unsigned char> SerUndo(const CBlockUndo& u) { DataStream s; s << u; auto sp = MakeUCharSpan(s); return {sp.begin(), sp.end()}; }

struct BlkData { CBlock block; std::vector<unsigned char> bytes; uint256 hash; };

// Block `id` of class `cls`: a coinbase whose output script is padded to the exact record size of the class, plus one payment.
const BlkData& GetBlock(int id, const std::string& cls)
{
    static std::map<std::pair<int, std::string>, BlkData> cache;
    auto key = std::make_pair(id, cls);
    auto it = cache.find(key);
    if (it != cache.end()) return it->second;
    const uint32_t target = RecordTargets().at(cls);
    CBlock b;
    b.nVersion = 0x20000000; b.hashPrevBlock = ParentHash(id); b.nTime = Params().GenesisBlock().nTime + id; b.nBits = Params().GenesisBlock().nBits;
    CMutableTransaction cb;
    cb.vin.resize(1); cb.vin[0].prevout.SetNull(); cb.vin[0].scriptSig = CScript() << id << OP_0;
    cb.vout.resize(1); cb.vout[0].nValue = 50 * COIN + id; cb.vout[0].scriptPubKey = CScript() << OP_RETURN;
    CMutableTransaction pay;
    pay.vin.resize(1); pay.vin[0].prevout = COutPoint(Txid::FromUint256(uint256{static_cast<uint8_t>(id)}), id);
    pay.vin[0].scriptSig = CScript() << std::vector<unsigned char>(71, 0x30) << std::vector<unsigned char>(33, 0x02);
    pay.vout.resize(2); pay.vout[0].nValue = 1000 + id; pay.vout[0].scriptPubKey = CScript() << OP_DUP << OP_HASH160 << std::vector<unsigned char>(20, id) << OP_EQUALVERIFY << OP_CHECKSIG;
    pay.vout[1].nValue = 7; pay.vout[1].scriptPubKey = CScript() << OP_TRUE;
    // real segwit blocks: the payment carries a witness, the coinbase the reserved value and the BIP141 commitment output, so that
    // the stored (witness) serialization is longer than the stripped one
    pay.vin[0].scriptWitness.stack = {std::vector<unsigned char>(72, 0x30), std::vector<unsigned char>(33, 0x03)};
    cb.vin[0].scriptWitness.stack = {std::vector<unsigned char>(32, 0x00)};
    cb.vout.resize(2); cb.vout[1].nValue = 0; cb.vout[1].scriptPubKey.resize(38);
    auto assemble = [&] {
        b.vtx.clear(); b.vtx.push_back(MakeTransactionRef(cb)); b.vtx.push_back(MakeTransactionRef(pay));
        uint256 commit = BlockWitnessMerkleRoot(b);
        CHash256().Write(commit).Write(cb.vin[0].scriptWitness.stack[0]).Finalize(commit);
        CScript& c = cb.vout[1].scriptPubKey;
        c[0] = OP_RETURN; c[1] = 0x24; c[2] = 0xaa; c[3] = 0x21; c[4] = 0xa9; c[5] = 0xed; memcpy(&c[6], commit.begin(), 32);
        b.vtx[0] = MakeTransactionRef(cb);
    };
    assemble();
    if (target) {
        for (int iter = 0; iter < 5; ++iter) {
            const int64_t cur = (int64_t)SerBlock(b).size() + HDR;
            if (cur == target) break;
            CScript& sc = cb.vout[0].scriptPubKey;
            const int64_t delta = (int64_t)target - cur;
            if (delta > 0) sc.insert(sc.end(), (size_t)delta, 0x42 + id); else sc.resize(sc.size() + delta);
            assemble();
        }
        if (SerBlock(b).size() + HDR != target) throw std::runtime_error("cannot realise block class " + cls);
    }
    b.hashMerkleRoot = BlockMerkleRoot(b);
    while (!CheckProofOfWork(b.GetHash(), b.nBits, Params().GetConsensus())) ++b.nNonce;
    { DataStream stripped; stripped << TX_NO_WITNESS(b); if (stripped.size() >= SerBlock(b).size()) throw std::runtime_error("block carries no witness data"); }
    BlkData d{b, SerBlock(b), b.GetHash()};
    return cache.emplace(key, std::move(d)).first->second;
}

struct UndoData { CBlockUndo undo; std::vector<unsigned char> bytes; };
const UndoData& GetUndo(int id)
{
    static std::map<int, UndoData> cache;
    auto it = cache.find(id);
    if (it != cache.end()) return it->second;
    CBlockUndo u;
    for (int t = 0; t < id; ++t) {
        CTxUndo tu;
        for (int k = 0; k <= t % 2; ++k) {
            CScript spk = CScript() << OP_1 << std::vector<unsigned char>(20 + 3 * id + k, (unsigned char)(id * 16 + t));
            tu.vprevout.emplace_back(CTxOut(100000 * id + t * 10 + k, spk), 100 * id + t, (t + k) % 2 == 0);
        }
        u.vtxundo.push_back(std::move(tu));
    }
    UndoData d{u, SerUndo(u)};
    return cache.emplace(id, std::move(d)).first->second;
}

std::unique_ptr<BasicTestingSetup> g_setup;
uint64_t g_seed = 1;
int g_world_counter = 0;

struct RawFile {
    static int64_t Len(const fs::path& p) { std::error_code ec; auto n = std::filesystem::file_size(p, ec); return ec ? -1 : (int64_t)n; }
    static void XorByte(const fs::path& p, int64_t off, unsigned char mask)
    {
        FILE* f = fsbridge::fopen(p, "rb+");
        if (!f) throw std::runtime_error("corrupt: cannot open " + fs::PathToString(p));
        unsigned char c;
        if (fseek(f, off, SEEK_SET) || fread(&c, 1, 1, f) != 1) { fclose(f); throw std::runtime_error("corrupt: cannot read byte " + std::to_string(off)); }
        c ^= mask;
        if (fseek(f, off, SEEK_SET) || fwrite(&c, 1, 1, f) != 1) { fclose(f); throw std::runtime_error("corrupt: cannot write byte"); }
        fclose(f);
    }
    static std::vector<unsigned char> ReadTail(const fs::path& p, int64_t from)
    {
        std::vector<unsigned char> out;
        FILE* f = fsbridge::fopen(p, "rb");
        if (!f) throw std::runtime_error("tail: cannot open");
        fseek(f, 0, SEEK_END); const long end = ftell(f);
        if (end > from) { out.resize(end - from); fseek(f, from, SEEK_SET); if (fread(out.data(), 1, out.size(), f) != out.size()) { fclose(f); throw std::runtime_error("tail: short read"); } }
        fclose(f);
        return out;
    }
    static void Append(const fs::path& p, int64_t at, const std::vector<unsigned char>& bytes)
    {
        FILE* f = fsbridge::fopen(p, "rb+");
        if (!f) throw std::runtime_error("restore: cannot open");
        fseek(f, at, SEEK_SET);
        if (!bytes.empty() && fwrite(bytes.data(), 1, bytes.size(), f) != bytes.size()) { fclose(f); throw std::runtime_error("restore: short write"); }
        fclose(f);
    }
};

// Offset (relative to the start of the payload) and xor mask of the byte a fault of `region` damages; the concrete byte and
// bit inside the region are drawn from the seed. `size` is the payload size stored in the record's size field.
struct Hit { int64_t off; unsigned char mask; };
Hit BlkRegionHit(const std::string& region, uint32_t size, uint64_t rnd)
{
    const unsigned char anybit = 1u << (rnd % 8);
    if (region == "magic") return {-8 + (int64_t)((rnd >> 8) % 4), anybit};
    if (region == "size_hi") return {-1, 0x80};
    if (region == "size_shrink") {
        // a set bit among the two low bytes: the stored size becomes smaller
        std::vector<int> bits; for (int i = 0; i < 16; ++i) if (size >> i & 1) bits.push_back(i);
        if (bits.empty()) throw std::runtime_error("size_shrink: no set bit in the low half of the size");
        const int bit = bits[(rnd >> 8) % bits.size()];
        return {-4 + bit / 8, (unsigned char)(1u << (bit % 8))};
    }
    if (region == "size_grow") {
        int bit = 0; while (size >> bit & 1) ++bit;   // lowest clear bit: the stored size grows by 2^bit
        return {-4 + bit / 8, (unsigned char)(1u << (bit % 8))};
    }
    if (region == "hdr") return {(int64_t)((rnd >> 8) % 80), anybit};
    if (region == "tx") return {80 + (int64_t)((rnd >> 8) % (size - 80)), anybit};
    throw std::runtime_error("unknown block region " + region);
}
Hit UndoRegionHit(const std::string& region, uint32_t size, uint64_t rnd)
{
    const unsigned char anybit = 1u << (rnd % 8);
    if (region == "magic") return {-8 + (int64_t)((rnd >> 8) % 4), anybit};
    if (region == "size") return {-4 + (int64_t)((rnd >> 8) % 4), anybit};
    if (region == "body") return {(int64_t)((rnd >> 8) % size), anybit};
    if (region == "chk") return {(int64_t)size + (int64_t)((rnd >> 8) % 32), anybit};
    throw std::runtime_error("unknown undo region " + region);
}
int64_t BlkBoundary(const std::string& bd, uint32_t size)
{
    if (bd == "start") return -8; if (bd == "size") return -4; if (bd == "hdr") return 0; if (bd == "tx") return 80;
    if (bd == "last") return (int64_t)size - 1; if (bd == "end") return size;
    throw std::runtime_error("unknown block boundary " + bd);
}
int64_t UndoBoundary(const std::string& bd, uint32_t size)
{
    if (bd == "start") return -8; if (bd == "size") return -4; if (bd == "body") return 0; if (bd == "chk") return size;
    if (bd == "last") return (int64_t)size + 31; if (bd == "end") return (int64_t)size + 32;
    throw std::runtime_error("unknown undo boundary " + bd);
}

struct World {
    fs::path dir;
    std::unique_ptr<KernelNotifications> notifications;
    std::unique_ptr<BlockManager> bm;
    std::map<std::string, std::string> cls;       // block -> class
    std::map<std::string, int> height;
    std::map<std::string, CBlockIndex*> index;
    std::vector<std::string> blocks;
    // pending fault (for "restore")
    struct Saved { fs::path path; bool flip{false}; int64_t off{0}; unsigned char mask{0}; int64_t newlen{0}; std::vector<unsigned char> tail; };
    std::optional<Saved> saved;

    explicit World(const UniValue& init)
    {
        dir = g_setup->m_args.GetDataDirNet() / "bs" / fs::u8path(std::to_string(++g_world_counter));
        fs::create_directories(dir);
        notifications = std::make_unique<KernelNotifications>(Assert(g_setup->m_node.shutdown_request), g_setup->m_node.exit_status, *Assert(g_setup->m_node.warnings));
        notifications->m_shutdown_on_fatal_error = false;
        const UniValue& conf = init["conf"];
        for (const auto& b : conf["cls"].getKeys()) {
            blocks.push_back(b);
            cls[b] = conf["cls"][b].get_str();
            height[b] = conf["h"][b].getInt<int>();
        }
        NewManager();
    }
    // a BlockManager with an empty block tree on the (possibly non-empty) blocks directory, and header-only index entries
    void NewManager()
    {
        bm.reset();
        BlockManager::Options opts{
            .chainparams = Params(),
            .fast_prune = true,
            .blocks_dir = dir,
            .notifications = *notifications,
            .block_tree_db_params = DBParams{.path = dir / "index", .cache_bytes = 0, .memory_only = true},
        };
        bm = std::make_unique<BlockManager>(*Assert(g_setup->m_node.shutdown_signal), opts);
        LOCK(::cs_main);
        for (const auto& b : blocks) {
            const int id = BlkNum(b);
            const BlkData& d = GetBlock(id, cls[b]);
            CBlockIndex* parent = bm->InsertBlockIndex(ParentHash(id));
            parent->nHeight = height[b] - 1;
            CBlockIndex* pi = bm->InsertBlockIndex(d.hash);
            pi->pprev = parent; pi->nHeight = height[b];
            pi->nVersion = d.block.nVersion; pi->hashMerkleRoot = d.block.hashMerkleRoot; pi->nTime = d.block.nTime; pi->nBits = d.block.nBits; pi->nNonce = d.block.nNonce;
            index[b] = pi;
        }
    }
    // -reindex as ImportBlocks / LoadExternalBlockFile do it: files blk00000.dat, blk00001.dat, ... until one is missing; inside a
    // file search the message start byte by byte, read the size, deserialize the block, record it with UpdateBlockInfo (instead
    // of WriteBlock) at the position found and continue behind it. Returns the number of blocks found.
    int Reindex(bool deferred)
    {
        NewManager();
        struct Found { std::string name; CBlock blk; FlatFilePos pos; };
        std::vector<Found> found;
        const auto magic = Params().MessageStart();
        for (int n = 0; fs::exists(BlkPath(n)); ++n) {
            const int64_t len = RawFile::Len(BlkPath(n));
            std::vector<unsigned char> buf(len);
            {
                AutoFile f{bm->OpenBlockFile(FlatFilePos(n, 0), /*fReadOnly=*/true)};
                if (f.IsNull()) break;
                if (len > 0) f.read(MakeWritableByteSpan(buf));
                (void)f.fclose();
            }
            int64_t o = 0;
            while (o + 8 <= len) {
                if (memcmp(&buf[o], magic.data(), 4) != 0) { ++o; continue; }
                const uint32_t size = ReadLE32(&buf[o + 4]);
                if (size < 80 || size > MAX_BLOCK_SERIALIZED_SIZE || o + 8 + (int64_t)size > len) { ++o; continue; }
                CBlock blk;
                try { SpanReader{std::span{buf}.subspan(o + 8, size)} >> TX_WITH_WITNESS(blk); } catch (const std::exception&) { ++o; continue; }
                const uint256 hash = blk.GetHash();
                std::string name;
                for (const auto& b : blocks) if (Blk(b).hash == hash) name = b;
                if (name.empty()) { ++o; continue; }
                found.push_back({name, blk, FlatFilePos(n, (uint32_t)(o + 8))});
                if (!deferred) Record(found.back().name, found.back().blk, found.back().pos);
                o += 8 + size;
            }
        }
        // out-of-order blocks: LoadExternalBlockFile keeps the position of a block whose parent is unknown and accepts it (from
        // that position) once the parent has been seen; here: every block waits, the last one found is recorded first
        if (deferred) for (auto it = found.rbegin(); it != found.rend(); ++it) Record(it->name, it->blk, it->pos);
        return found.size();
    }
    void Record(const std::string& name, const CBlock& blk, const FlatFilePos& pos)
    {
        LOCK(::cs_main);
        bm->UpdateBlockInfo(blk, height.at(name), pos);
        CBlockIndex* pi = index.at(name);
        pi->nFile = pos.nFile; pi->nDataPos = pos.nPos; pi->nUndoPos = 0; pi->nStatus |= BLOCK_HAVE_DATA;
    }
    ~World() { bm.reset(); std::error_code ec; std::filesystem::remove_all(dir, ec); }

    const BlkData& Blk(const std::string& b) { return GetBlock(BlkNum(b), cls.at(b)); }
    fs::path BlkPath(int n) { return bm->GetBlockPosFilename(FlatFilePos(n, 0)); }
    fs::path RevPath(int n) { return dir / fs::u8path(strprintf("rev%05u.dat", n)); }

    UniValue Apply(const UniValue& a, size_t step)
    {
        const std::string op = a[0].get_str();
        if (op == "wblk") {
            const std::string b = a[1].get_str();
            LOCK(::cs_main);
            const FlatFilePos pos = bm->WriteBlock(Blk(b).block, height.at(b));
            if (!pos.IsNull()) {
                // what ChainstateManager::ReceivedBlockTransactions records in the block index
                CBlockIndex* pi = index.at(b);
                pi->nFile = pos.nFile; pi->nDataPos = pos.nPos; pi->nUndoPos = 0; pi->nStatus |= BLOCK_HAVE_DATA;
            }
            return Arr({pos.nFile, (int64_t)pos.nPos});
        }
        if (op == "wundo") {
            const std::string b = a[1].get_str();
            LOCK(::cs_main);
            BlockValidationState st;
            const bool ok = bm->WriteBlockUndo(GetUndo(BlkNum(b)).undo, st, *index.at(b));
            return UniValue{ok && st.IsValid() ? "true" : "false"};
        }
        if (op == "flush") {
            LOCK(::cs_main);
            const bool ok = ((*bm).*Get(FlushTag{}))(0);
            return UniValue{ok ? "true" : "false"};
        }
        if (op == "reindex") {
            if (saved) throw std::runtime_error("reindex with an outstanding fault");
            return UniValue{Reindex(a[1].get_str() == "deferred")};
        }
        if (op == "prune") {
            const int n = a[1].getInt<int>();
            { LOCK(::cs_main); bm->PruneOneBlockFile(n); }
            bm->UnlinkPrunedFiles({n});
            return UniValue{"none"};
        }
        if (op == "flip" || op == "trunc") {
            if (saved) throw std::runtime_error("second fault without restore");
            const std::string kind = a[1].get_str(), b = a[2].get_str(), reg = a[3].get_str();
            const CBlockIndex* pi = index.at(b);
            const uint64_t rnd = Mix(g_seed, a.write(), step);
            Saved s;
            int64_t base; uint32_t size;
            if (kind == "blk") { s.path = BlkPath(pi->nFile); base = pi->nDataPos; size = Blk(b).bytes.size(); }
            else { s.path = RevPath(pi->nFile); base = pi->nUndoPos; size = GetUndo(BlkNum(b)).bytes.size(); }
            if (op == "flip") {
                const Hit h = kind == "blk" ? BlkRegionHit(reg, size, rnd) : UndoRegionHit(reg, size, rnd);
                s.flip = true; s.off = base + h.off; s.mask = h.mask;
                RawFile::XorByte(s.path, s.off, s.mask);
            } else {
                s.newlen = base + (kind == "blk" ? BlkBoundary(reg, size) : UndoBoundary(reg, size));
                s.tail = RawFile::ReadTail(s.path, s.newlen);
                std::filesystem::resize_file(s.path, s.newlen);
            }
            saved = std::move(s);
            return UniValue{"none"};
        }
        if (op == "restore") {
            if (!saved) throw std::runtime_error("restore without fault");
            if (saved->flip) RawFile::XorByte(saved->path, saved->off, saved->mask);
            else RawFile::Append(saved->path, saved->newlen, saved->tail);
            saved.reset();
            return UniValue{"none"};
        }
        throw std::runtime_error("unknown op " + op);
    }

    std::string NameBlock(const std::vector<unsigned char>& bytes)
    {
        for (const auto& b : blocks) if (Blk(b).bytes == bytes) return b;
        return "damaged";
    }
    std::string NameBlock(const CBlock& blk) { return NameBlock(SerBlock(blk)); }

    UniValue Project()
    {
        UniValue info(UniValue::VARR), blk(UniValue::VARR), rev(UniValue::VARR);
        {
            LOCK(::cs_main);
            for (size_t n = 0;; ++n) {
                CBlockFileInfo* fi;
                try { fi = bm->GetBlockFileInfo(n); } catch (const std::out_of_range&) { break; }
                info.push_back(Obj({{"nb", (int64_t)fi->nBlocks}, {"sz", (int64_t)fi->nSize}, {"usz", (int64_t)fi->nUndoSize}, {"hf", (int64_t)fi->nHeightFirst},
                                    {"hl", (int64_t)fi->nHeightLast}, {"tf", (int64_t)fi->nTimeFirst}, {"tl", (int64_t)fi->nTimeLast}}));
                blk.push_back(RawFile::Len(BlkPath(n)));
                rev.push_back(RawFile::Len(RevPath(n)));
            }
        }
        UniValue idx(UniValue::VOBJ), reads(UniValue::VOBJ);
        for (const auto& b : blocks) {
            const CBlockIndex* pi = index.at(b);
            FlatFilePos pos;
            {
                LOCK(::cs_main);
                idx.pushKV(b, Obj({{"file", pi->nFile}, {"dpos", (int64_t)pi->nDataPos}, {"upos", (int64_t)pi->nUndoPos},
                                   {"data", bool(pi->nStatus & BLOCK_HAVE_DATA)}, {"undo", bool(pi->nStatus & BLOCK_HAVE_UNDO)}}));
                pos = pi->GetBlockPos();
            }
            UniValue r(UniValue::VOBJ);
            { CBlock out; r.pushKV("rb", bm->ReadBlock(out, *pi) ? NameBlock(out) : "fail"); }
            { CBlock out; r.pushKV("rn", bm->ReadBlock(out, pos, std::nullopt) ? NameBlock(out) : "fail"); }
            {
                auto raw = bm->ReadRawBlock(pos);
                if (raw) { std::vector<unsigned char> v(raw->size()); if (!v.empty()) memcpy(v.data(), raw->data(), v.size()); r.pushKV("rr", NameBlock(v)); }
                else r.pushKV("rr", "fail");
            }
            {
                // the transaction part: everything after the 80-byte header
                const auto& ref = Blk(b).bytes;
                auto part = bm->ReadRawBlock(pos, std::pair<size_t, size_t>{80, ref.size() - 80});
                if (part) r.pushKV("rp", (part->size() == ref.size() - 80 && memcmp(part->data(), ref.data() + 80, part->size()) == 0) ? b : "damaged");
                else r.pushKV("rp", "fail");
            }
            {
                CBlockUndo u;
                if (bm->ReadBlockUndo(u, *pi)) {
                    const auto bytes = SerUndo(u);
                    std::string name = "damaged";
                    for (const auto& o : blocks) if (GetUndo(BlkNum(o)).bytes == bytes) name = o;
                    r.pushKV("ru", name);
                } else r.pushKV("ru", "fail");
            }
            reads.pushKV(b, r);
        }
        return Obj({{"info", info}, {"idx", idx}, {"reads", reads}, {"disk", Obj({{"blk", blk}, {"rev", rev}})}});
    }
};

// SAFE-mode comparison of the read-back table: where the model says "damaged" (the property is silent on what such a read
// returns) a failed read is the conservative answer and accepted; everything else must be equal.
std::string CompareReads(const UniValue& exp, const UniValue& have)
{
    for (const auto& b : exp.getKeys()) {
        for (const auto& k : exp[b].getKeys()) {
            const std::string e = exp[b][k].get_str(), h = have[b][k].get_str();
            if (e == h) continue;
            if (e == "damaged" && h == "fail") { R().Count("conservative_reads"); continue; }
            return "state.reads." + b + "." + k + ": expected \"" + e + "\" have \"" + h + "\"";
        }
    }
    return "";
}

int Replay(const std::string& path)
{
    InstallAbortHandlers();
    ForEachLine(path, [&](size_t n, const UniValue& t) {
        R().cur_test = n; R().cur_step = 0; R().cur_action = UniValue::VNULL;
        std::unique_ptr<World> w;
        try { w = std::make_unique<World>(t["init"]); } catch (const std::exception& e) { R().Mismatch(UniValue::VNULL, std::string("exception building the world: ") + e.what()); ++R().tests; return; }
        const UniValue& st = t["steps"];
        for (size_t i = 0; i < st.size(); ++i) {
            R().cur_step = i; R().cur_action = st[i]["a"];
            std::string why, dev;
            UniValue res, have;
            try { res = w->Apply(st[i]["a"], i); } catch (const std::exception& e) { why = std::string("exception: ") + e.what(); }
            ++R().steps;
            R().Count("act_" + st[i]["a"][0].get_str());
            if (why.empty() && !st[i]["r"].isNull()) why = JsonDiff(st[i]["r"], res, "result");
            if (why.empty()) {
                try { have = w->Project(); } catch (const std::exception& e) { why = std::string("exception in projection: ") + e.what(); }
            }
            if (why.empty()) {
                const UniValue& exp = st[i]["exp"];
                why = JsonDiff(exp["info"], have["info"], "state.info");
                if (why.empty()) why = JsonDiff(exp["idx"], have["idx"], "state.idx");
                if (why.empty()) why = CompareReads(exp["reads"], have["reads"]);
                if (why.empty()) dev = JsonDiff(exp["disk"], have["disk"], "state.disk");
            }
            if (!why.empty()) { R().Mismatch(st[i]["a"], why); break; }
            if (!dev.empty()) { have.pushKV("@result", res); R().Deviation(st[i]["a"], dev, have); break; }
        }
        ++R().tests;
    });
    R().Summary();
    return 0;
}

int Measure(const std::string& out)
{
    UniValue blk(UniValue::VOBJ), undo(UniValue::VOBJ), time(UniValue::VOBJ);
    for (const auto& [c, target] : RecordTargets()) blk.pushKV(c, (int64_t)GetBlock(1, c).bytes.size());
    for (int id = 1; id <= NBLK; ++id) {
        // the size of a class must not depend on the block id
        for (const auto& [c, target] : RecordTargets()) if (GetBlock(id, c).bytes.size() != GetBlock(1, c).bytes.size()) throw std::runtime_error("class size depends on the block id");
        undo.pushKV("b" + std::to_string(id), (int64_t)GetUndo(id).bytes.size());
        time.pushKV("b" + std::to_string(id), (int64_t)GetBlock(id, "S").block.nTime);
    }
    UniValue o = Obj({{"blk", blk}, {"undo", undo}, {"time", time}, {"hdr", (int64_t)HDR}, {"chk", (int64_t)uint256::size()},
                      {"undo_overhead", (int64_t)node::UNDO_DATA_DISK_OVERHEAD}});
    std::ofstream f(out); f << o.write() << "\n";
    std::cout << o.write() << std::endl;
    return 0;
}
} // namespace


// ---------------------------------------------------------------------------------------------------------------------
// Third clause: a block whose stored bytes were corrupted is never connected. One row of specs/BlockStore/BlockConnect per
// fault; the block is stored by a real regtest node while it cannot be connected yet, damaged on disk, then its connection
// is triggered (ConnectTip reads it back from disk).
namespace {
std::vector<unsigned char> Ser(const CTransaction& tx) { DataStream s; s << TX_WITH_WITNESS(tx); auto sp = MakeUCharSpan(s); return {sp.begin(), sp.end()}; }
int64_t FindSub(const std::vector<unsigned char>& hay, const std::vector<unsigned char>& needle, int64_t from = 0)
{
    auto it = std::search(hay.begin() + from, hay.end(), needle.begin(), needle.end());
    if (it == hay.end()) throw std::runtime_error("pattern not found in the serialized block");
    return it - hay.begin();
}

std::string ConnectRow(const UniValue& row)
{
    const std::string scenario = row["scenario"].get_str();
    const std::string ft = row["fault"]["t"].get_str(), reg = row["fault"]["r"].get_str(), spot = row["spot"].get_str();
    auto sim = MakeSim();
    sim->m_node.notifications->m_shutdown_on_fatal_error = false;
    sim->MineBase(2);
    CBlockIndex* base = sim->Tip();
    auto mk = [&](const uint256& prev, int h, uint32_t t, int nonce) {
        ChainSim::BlockSpec s; s.prev = prev; s.height = h; s.time = t; s.extra_nonce = nonce; s.cb_value = 0; s.witness_commitment = true;
        return sim->BuildBlock(s);
    };
    std::shared_ptr<CBlock> target, parent;
    if (scenario == "child_first") {
        parent = mk(base->GetBlockHash(), base->nHeight + 1, base->GetBlockTime() + 1, 1);
        target = mk(parent->GetHash(), base->nHeight + 2, base->GetBlockTime() + 2, 2);
        BlockValidationState st;
        if (!sim->SubmitHeader(static_cast<const CBlockHeader&>(*parent), st)) return "harness: parent header refused";
        sim->SubmitBlock(target, true);
        if (sim->Tip() != base) return "harness: tip moved before the parent was delivered";
    } else if (scenario == "reconsider") {
        target = mk(base->GetBlockHash(), base->nHeight + 1, base->GetBlockTime() + 1, 3);
        sim->SubmitBlock(target, true);
        if (sim->Tip()->GetBlockHash() != target->GetHash()) return "harness: block not connected in the first place";
        sim->Invalidate(target->GetHash());
        if (sim->Tip() != base) return "harness: invalidate did not disconnect";
    } else return "unknown scenario";
    CBlockIndex* ti = sim->Lookup(target->GetHash());
    if (!ti) return "harness: target has no index entry";
    const FlatFilePos pos = WITH_LOCK(::cs_main, return ti->GetBlockPos());
    if (pos.IsNull()) return "harness: target block was not stored";
    auto& bm = sim->cm().m_blockman;
    const fs::path file = bm.GetBlockPosFilename(pos);
    const auto bytes = SerBlock(*target);
    const uint32_t size = bytes.size();
    const uint64_t rnd = Mix(g_seed, row.write(), 0);
    if (ft == "flip") {
        Hit h;
        if (reg == "tx") {
            // a semantically chosen place inside the transaction bytes
            const auto cbser = Ser(*target->vtx[0]);
            const int64_t cb0 = FindSub(bytes, cbser, 80);
            const CTransaction& cb = *target->vtx[0];
            int64_t off; int64_t len;
            if (spot == "count") { off = 80; len = 1; }
            else if (spot == "version") { off = cb0; len = 4; }
            else if (spot == "scriptsig") { std::vector<unsigned char> v(cb.vin[0].scriptSig.begin(), cb.vin[0].scriptSig.end()); off = FindSub(bytes, v, cb0); len = v.size(); }
            else if (spot == "value") { off = FindSub(bytes, std::vector<unsigned char>(cb.vout[0].scriptPubKey.begin(), cb.vout[0].scriptPubKey.end()), cb0) - 9; len = 8; }
            else if (spot == "spk") { std::vector<unsigned char> v(cb.vout[0].scriptPubKey.begin(), cb.vout[0].scriptPubKey.end()); off = FindSub(bytes, v, cb0); len = v.size(); }
            else if (spot == "commitment") { std::vector<unsigned char> v(cb.vout[1].scriptPubKey.begin() + 6, cb.vout[1].scriptPubKey.end()); off = FindSub(bytes, v, cb0); len = v.size(); }
            else if (spot == "witness") { std::vector<unsigned char> v(33, 0); v[0] = 32; off = FindSub(bytes, v, cb0) + 1; len = 32; }
            else if (spot == "locktime") { off = cb0 + cbser.size() - 4; len = 4; }
            else if (spot == "any") { off = 80; len = size - 80; }
            else return "unknown spot";
            h = {off + (int64_t)((rnd >> 8) % len), (unsigned char)(1u << (rnd % 8))};
            if (spot == "any") {
                // anywhere in the transaction bytes except the witness section (stack count, item length, reserved value), which has its own row
                std::vector<unsigned char> w(34, 0); w[0] = 1; w[1] = 32;
                const int64_t w0 = FindSub(bytes, w, cb0);
                for (uint64_t r = rnd >> 8; h.off >= w0 && h.off < w0 + 34; r = r * 6364136223846793005ULL + 1442695040888963407ULL) h.off = 80 + (int64_t)((r >> 11) % len);
            }
        } else h = BlkRegionHit(reg, size, rnd);
        RawFile::XorByte(file, pos.nPos + h.off, h.mask);
    } else if (ft == "trunc") {
        std::filesystem::resize_file(file, pos.nPos + BlkBoundary(reg, size));
    } else if (ft != "none") return "unknown fault";

    // trigger the connection
    if (scenario == "child_first") sim->SubmitBlock(parent, true);
    else sim->Reconsider(target->GetHash());
    bool connected;
    { LOCK(::cs_main); connected = sim->cm().ActiveChain().Contains(*ti); }
    const bool fatal = sim->m_node.exit_status.load() != EXIT_SUCCESS;
    const bool failed = WITH_LOCK(::cs_main, return bool(ti->nStatus & BLOCK_FAILED_VALID));
    R().Count(connected ? "connected" : "not_connected");
    if (fatal) R().Count("fatal_errors");
    const bool want = row["connects"].get_bool();
    if (connected != want) return std::string("block with fault ") + row["fault"].write() + " spot " + spot + (connected ? " WAS connected" : " was not connected") + ", specification says connects=" + (want ? "true" : "false");
    if (!connected && !fatal && !failed) return "corrupted block was silently skipped (no fatal error notification, not marked invalid)";
    if (connected && fatal) return "fatal error although the block connected";
    if (scenario == "child_first" && !connected) {
        // the chain below the damaged block is unaffected
        if (sim->Tip()->GetBlockHash() != parent->GetHash()) return "parent of the damaged block is not the tip";
    }
    return "";
}

int ConnectMain(const std::string& path) { return TableMain(path, ConnectRow); }
} // namespace

int main(int argc, char** argv)
{
    if (argc < 3) { std::cerr << "usage: blockstore measure|replay|connect <file> [seed]\n"; return 2; }
    const std::string mode = argv[1];
    if (argc > 3) g_seed = std::stoull(argv[3]);
    if (mode == "connect") return ConnectMain(argv[2]);
    g_setup = MakeNoLogFileContext<BasicTestingSetup>(ChainType::REGTEST);
    int rc = 2;
    if (mode == "measure") rc = Measure(argv[2]);
    else if (mode == "replay") rc = Replay(argv[2]);
    else std::cerr << "unknown mode\n";
    g_setup.reset();
    return rc;
}
