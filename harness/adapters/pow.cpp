// Adapter for specs/Pow (C07): replays the TLC-enumerated oracle tables on the real proof-of-work code.
//   compact  arith_uint256::SetCompact / GetCompact                                  (EXACT)
//   pow      DeriveTarget, CheckProofOfWorkImpl, CheckProofOfWork                    (SAFE: must not accept what the spec rejects)
//   next     GetNextWorkRequired / CalculateNextWorkRequired on synthetic CBlockIndex chains (EXACT), and
//            PermittedDifficultyTransition(required) must hold on the built-in chains
//   permit   PermittedDifficultyTransition on arbitrary pairs                        (informational: counted, never a mismatch)
//   header   CheckBlockHeader + ContextualCheckBlockHeader through ChainstateManager::ProcessNewBlockHeaders of an
//            in-process regtest node under mock time                                 (SAFE)
// Wide numbers arrive as little-endian base-256 digit arrays (= the byte layout of uint256), times as Amount limb records,
// nBits as {e, m}.
#include <vfh.h>
#include <arith_uint256.h>
#include <chain.h>
#include <chainparams.h>
#include <common/args.h>
#include <consensus/params.h>
#include <consensus/validation.h>
#include <hash.h>
#include <pow.h>
#include <primitives/block.h>
#include <test/util/setup_common.h>
#include <uint256.h>
#include <util/chaintype.h>
#include <util/time.h>
#include <validation.h>
using namespace vfh;

static uint32_t Bits(const UniValue& c) { return ((uint32_t)c["e"].getInt<int>() << 24) | (uint32_t)c["m"].getInt<int>(); }
static std::string BitsStr(uint32_t b) { char buf[16]; snprintf(buf, sizeof buf, "0x%08x", b); return buf; }
static uint256 U256(const UniValue& d)
{
    uint256 u;
    for (size_t i = 0; i < 32; ++i) u.data()[i] = (unsigned char)d[i].getInt<int>();
    return u;
}
static arith_uint256 A256(const UniValue& d) { return UintToArith256(U256(d)); }
static std::string Hex(const arith_uint256& a) { return a.GetHex(); }

// ---- consensus parameters: the built-in objects for the built-in names (and they must carry the constants the
// specification assumed), a modified copy of mainnet's for the synthetic ones
static const Consensus::Params* GetParams(const UniValue& p, std::string& err)
{
    static std::map<std::string, Consensus::Params> cache;
    static std::vector<std::unique_ptr<const CChainParams>> keep;
    const std::string name = p["name"].get_str();
    auto it = cache.find(name);
    if (it != cache.end()) return &it->second;
    static ArgsManager args;
    Consensus::Params cp;
    if (p["builtin"].get_bool()) {
        const ChainType ct = name == "main" ? ChainType::MAIN : name == "test3" ? ChainType::TESTNET : name == "test4" ? ChainType::TESTNET4 :
                             name == "signet" ? ChainType::SIGNET : ChainType::REGTEST;
        keep.push_back(CreateChainParams(args, ct));
        cp = keep.back()->GetConsensus();
        const bool same = UintToArith256(cp.powLimit) == A256(p["limit"]) && cp.nPowTargetTimespan == I(p["T"]) &&
                          cp.nPowTargetSpacing == I(p["spacing"]) && cp.fPowAllowMinDifficultyBlocks == B(p["minDiff"]) &&
                          cp.enforce_BIP94 == B(p["bip94"]) && cp.fPowNoRetargeting == B(p["noRetarget"]);
        if (!same) { err = "built-in consensus parameters of " + name + " differ from the specification's constants"; return nullptr; }
    } else {
        keep.push_back(CreateChainParams(args, ChainType::MAIN));
        cp = keep.back()->GetConsensus();
        cp.powLimit = U256(p["limit"]);
        cp.nPowTargetTimespan = I(p["T"]);
        cp.nPowTargetSpacing = I(p["spacing"]);
        cp.fPowAllowMinDifficultyBlocks = B(p["minDiff"]);
        cp.enforce_BIP94 = B(p["bip94"]);
        cp.fPowNoRetargeting = B(p["noRetarget"]);
    }
    return &(cache[name] = cp);
}

// ---- described chains (see Chain / BitsAt / TimeAt in Pow.tla)
struct Desc {
    int n; uint32_t bits; int64_t t0, dt; int run_from, run_to; uint32_t run_bits;
    std::map<int, std::pair<uint32_t, int64_t>> ov;
    explicit Desc(const UniValue& d)
    {
        n = d["n"].getInt<int>(); bits = Bits(d["bits"]); t0 = AmountFromLimbs(d["t0"]); dt = I(d["dt"]);
        run_from = d["run"]["from"].getInt<int>(); run_to = d["run"]["to"].getInt<int>(); run_bits = Bits(d["run"]["bits"]);
        const UniValue& o = d["ov"];
        if (o.isArray()) for (size_t i = 0; i < o.size(); ++i) {
            const int h = o[i]["h"].getInt<int>();
            if (!ov.count(h)) ov[h] = {Bits(o[i]["bits"]), AmountFromLimbs(o[i]["t"])};
        }
    }
    uint32_t BitsAt(int h) const { auto it = ov.find(h); return it != ov.end() ? it->second.first : (h >= run_from && h <= run_to) ? run_bits : bits; }
    int64_t TimeAt(int h) const { auto it = ov.find(h); return it != ov.end() ? it->second.second : t0 + (int64_t)h * dt; }
};

static std::string CheckCompact(const UniValue& in, const UniValue& out)
{
    const uint32_t nbits = Bits(in["c"]);
    arith_uint256 t; bool neg = false, ovf = false;
    t.SetCompact(nbits, &neg, &ovf);
    arith_uint256 t2; t2.SetCompact(nbits);
    if (t2 != t) return "SetCompact with and without flag pointers disagree";
    if (t != A256(out["target"])) return "SetCompact(" + BitsStr(nbits) + ") = " + Hex(t) + ", specification says " + Hex(A256(out["target"]));
    if (neg != B(out["neg"])) return "SetCompact(" + BitsStr(nbits) + ") negative=" + (neg ? "true" : "false") + ", specification says the opposite";
    if (ovf != B(out["ovf"])) return "SetCompact(" + BitsStr(nbits) + ") overflow=" + (ovf ? "true" : "false") + ", specification says the opposite";
    auto enc = [&](const arith_uint256& v, bool fneg, const char* key) -> std::string {
        const uint32_t have = v.GetCompact(fneg), want = Bits(out[key]);
        return have == want ? "" : "GetCompact(" + Hex(v) + (fneg ? ", negative" : "") + ") = " + BitsStr(have) + ", specification says " + BitsStr(want);
    };
    std::string e;
    if (!(e = enc(t, false, "enc")).empty()) return e;
    if (!(e = enc(t, true, "encN")).empty()) return e;
    arith_uint256 m1 = t; --m1;
    arith_uint256 p1 = t; ++p1;
    if (!(e = enc(m1, false, "encM1")).empty()) return e;
    if (!(e = enc(p1, false, "encP1")).empty()) return e;
    return "";
}

static std::string CheckPow(const UniValue& in, const UniValue& out)
{
    std::string err;
    const Consensus::Params* cp = GetParams(in["p"], err);
    if (!cp) return err;
    const uint32_t nbits = Bits(in["c"]);
    const uint256 hash = U256(in["hash"]);
    const auto target = DeriveTarget(nbits, cp->powLimit);
    const bool spec_valid = B(out["valid"]);
    if (target && !spec_valid) return "DeriveTarget(" + BitsStr(nbits) + ") yields " + Hex(*target) + " although the encoded target is not a valid one (negative, zero, overflowing or above the limit)";
    if (target && *target != A256(out["target"])) return "DeriveTarget(" + BitsStr(nbits) + ") = " + Hex(*target) + ", specification says " + Hex(A256(out["target"]));
    if (!target && spec_valid) R().Count("conservative_derive");
    const bool ok = CheckProofOfWorkImpl(hash, nbits, *cp);
    if (CheckProofOfWork(hash, nbits, *cp) != ok) return "CheckProofOfWork and CheckProofOfWorkImpl disagree";
    if (ok && !B(out["ok"])) return "CheckProofOfWork accepts hash " + hash.GetHex() + " for nBits " + BitsStr(nbits) + " (" + in["hk"].get_str() + "); the property forbids it";
    if (!ok && B(out["ok"])) R().Count("conservative_pow");
    if (ok) R().Count("pow_accepted");
    return "";
}

static std::string CheckNext(const UniValue& in, const UniValue& out)
{
    std::string err;
    const Consensus::Params* cp = GetParams(in["p"], err);
    if (!cp) return err;
    const Desc d(in["d"]);
    std::vector<CBlockIndex> blocks(d.n);
    for (int h = 0; h < d.n; ++h) {
        const int64_t t = d.TimeAt(h);
        if (t < 0 || t > 0xffffffffLL) return "harness cannot realise block time " + std::to_string(t);
        blocks[h].pprev = h ? &blocks[h - 1] : nullptr;
        blocks[h].nHeight = h;
        blocks[h].nTime = (uint32_t)t;
        blocks[h].nBits = d.BitsAt(h);
        blocks[h].BuildSkip();
    }
    const int64_t nt = AmountFromLimbs(in["newTime"]);
    if (nt < 0 || nt > 0xffffffffLL) return "harness cannot realise header time";
    CBlockHeader hdr; hdr.nTime = (uint32_t)nt;
    const CBlockIndex* last = &blocks.back();
    const uint32_t req = GetNextWorkRequired(last, &hdr, *cp);
    const uint32_t want = Bits(out["req"]);
    if (req != want) return "GetNextWorkRequired (" + in["p"]["name"].get_str() + ", height " + std::to_string(d.n) + ") = " + BitsStr(req) + ", specification says " + BitsStr(want);
    if (B(out["boundary"])) {
        const uint32_t calc = CalculateNextWorkRequired(last, AmountFromLimbs(in["firstTime"]), *cp);
        if (calc != Bits(out["calc"])) return "CalculateNextWorkRequired (" + in["p"]["name"].get_str() + ") = " + BitsStr(calc) + ", specification says " + BitsStr(Bits(out["calc"]));
        R().Count("retarget_rows");
    }
    if (last->nBits != Bits(out["lastBits"])) return "harness built a different chain than the specification describes";
    const bool permitted = PermittedDifficultyTransition(*cp, d.n, last->nBits, req);
    if (B(in["p"]["builtin"])) {
        if (!permitted) return "PermittedDifficultyTransition rejects the required difficulty " + BitsStr(req) + " after " + BitsStr(last->nBits) + " at height " + std::to_string(d.n) + " on " + in["p"]["name"].get_str();
    } else if (permitted != B(out["permitted"])) R().Count("permit_differs");
    return "";
}

static std::string CheckPermit(const UniValue& in, const UniValue& out)
{
    std::string err;
    const Consensus::Params* cp = GetParams(in["p"], err);
    if (!cp) return err;
    const bool ok = PermittedDifficultyTransition(*cp, I(in["height"]), Bits(in["old"]), Bits(in["new"]));
    if (ok != B(out["ok"])) {
        R().Count("permit_differs");
        if (R().counters["permit_differs"] <= 3)
            R().Info(Obj({{"kind", "info"}, {"what", "PermittedDifficultyTransition differs from the model (informational)"}, {"row", in}, {"have", ok}}));
    }
    if (ok) R().Count("permit_true");
    return "";
}

// ---- header acceptance through a regtest node
struct Node {
    std::unique_ptr<TestingSetup> setup;
    std::map<std::string, uint256> tips;     // chain description -> hash of its last block ("" = unbuildable)
    uint64_t salt{0};
    Node()
    {
        TestOpts opts; opts.setup_net = false;
        setup = MakeNoLogFileContext<TestingSetup>(ChainType::REGTEST, opts);
    }
    ChainstateManager& cm() { return *setup->m_node.chainman; }
};
static std::unique_ptr<Node> g_node;
static Node& TheNode() { if (!g_node) g_node = std::make_unique<Node>(); return *g_node; }

// find a nonce whose hash is <= target (want_le) or > target; false if none within the budget
static bool Grind(CBlockHeader& h, const arith_uint256& target, bool want_le)
{
    if (want_le && target == arith_uint256{0}) return false;
    for (uint32_t i = 0; i < 1000000; ++i) {
        h.nNonce = i;
        if ((UintToArith256(h.GetHash()) <= target) == want_le) return true;
    }
    return false;
}

static std::string CheckHeader(const UniValue& in, const UniValue& out)
{
    Node& node = TheNode();
    const Consensus::Params& cp = Params().GetConsensus();
    std::string err;
    const Consensus::Params* rp = GetParams(in["p"], err);          // also checks the specification's regtest constants
    if (!rp) return err;
    const Desc d(in["d"]);
    const std::string key = in["d"].write();
    const CBlock& genesis = Params().GenesisBlock();
    if ((int64_t)genesis.nTime != d.TimeAt(0) || genesis.nBits != d.BitsAt(0)) return "regtest genesis differs from the specification's";
    if (!node.tips.count(key)) {
        uint256 prev = genesis.GetHash();
        bool built = true;
        for (int h = 1; h < d.n && built; ++h) {
            CBlockHeader b;
            b.nVersion = 0x20000000; b.hashPrevBlock = prev; b.nTime = (uint32_t)d.TimeAt(h); b.nBits = d.BitsAt(h);
            b.hashMerkleRoot = (HashWriter{} << key << h).GetHash();
            arith_uint256 t; t.SetCompact(b.nBits);
            if (!Grind(b, t, true)) return "harness could not mine a chain block";
            SetMockTime(d.TimeAt(h));
            BlockValidationState st;
            std::vector<CBlockHeader> v{b};
            if (!node.cm().ProcessNewBlockHeaders(v, /*min_pow_checked=*/true, st)) { built = false; break; }
            prev = b.GetHash();
        }
        node.tips[key] = built ? prev : uint256{};
    }
    const uint256 tip = node.tips[key];
    if (tip.IsNull()) { R().Count("conservative_chain"); return ""; }   // the node refused a chain the specification considers acceptable
    {
        LOCK(cs_main);
        const CBlockIndex* pi = node.cm().m_blockman.LookupBlockIndex(tip);
        if (!pi || pi->nHeight != d.n - 1) return "harness lost the chain tip";
        const int64_t mtp = pi->GetMedianTimePast(), want = AmountFromLimbs(in["mtp"]);
        if (mtp < want) return "GetMedianTimePast = " + std::to_string(mtp) + " is earlier than the median of the previous 11 block times " + std::to_string(want);
        if (mtp > want) R().Count("conservative_mtp");
    }
    const UniValue& hd = in["hdr"];
    CBlockHeader b;
    b.nVersion = 0x20000000; b.hashPrevBlock = tip; b.nTime = (uint32_t)AmountFromLimbs(hd["time"]); b.nBits = Bits(hd["bits"]);
    b.hashMerkleRoot = (HashWriter{} << in.write() << ++node.salt).GetHash();
    const bool want_le = hd["pow"].get_str() == "le";
    arith_uint256 t; t.SetCompact(b.nBits);       // the encoded value, flags ignored: realises "hash <= / > encoded target"
    const bool realised = Grind(b, t, want_le);
    const std::string res = out["res"].get_str();
    if (!realised && res == "ok") return "harness could not realise the proof-of-work class of an acceptable header";
    SetMockTime(AmountFromLimbs(in["now"]));
    BlockValidationState st;
    std::vector<CBlockHeader> v{b};
    // the context-free pre-check the p2p layer applies to headers messages
    if (HasValidProofOfWork(v, cp) && res == "high-hash") return "HasValidProofOfWork accepts a header (nBits " + BitsStr(b.nBits) + ", hash " + (want_le ? "<=" : ">") + " encoded target) whose proof of work the property forbids";
    const bool accepted = node.cm().ProcessNewBlockHeaders(v, /*min_pow_checked=*/true, st);
    const std::string have = accepted ? "ok" : st.GetRejectReason();
    if (accepted && res != "ok")
        return "header accepted (time " + std::to_string(b.nTime) + ", median-time-past " + std::to_string(AmountFromLimbs(in["mtp"])) + ", now " +
               std::to_string(AmountFromLimbs(in["now"])) + ", nBits " + BitsStr(b.nBits) + ", hash " + (want_le ? "<=" : ">") + " target); the property forbids it: " + res;
    if (!accepted && res == "ok") R().Count("conservative_header");
    else if (have != res) R().Count("reason_differs");
    if (accepted) R().Count("headers_accepted");
    return "";
}

static std::string CheckRow(const UniValue& row)
{
    const UniValue& in = row["in"];
    const UniValue& out = row["out"];
    const std::string kind = in["kind"].get_str();
    R().Count("rows_" + kind);
    if (kind == "compact") return CheckCompact(in, out);
    if (kind == "pow") return CheckPow(in, out);
    if (kind == "next") return CheckNext(in, out);
    if (kind == "permit") return CheckPermit(in, out);
    if (kind == "header") return CheckHeader(in, out);
    return "unknown row kind " + kind;
}

int main(int argc, char** argv)
{
    if (argc < 3) return 2;
    if (std::string(argv[1]) == "table") {
        const int rc = TableMain(argv[2], CheckRow);
        g_node.reset();              // tears the node down (and removes its datadir) before static destruction
        return rc;
    }
    return 2;
}
