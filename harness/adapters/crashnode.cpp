// Adapter for C16 (crash recovery): runs a UtxoChain behaviour on a node with on-disk databases (to be traced with strace),
// and restarts a node on a crash image of that run.
//   crashnode workload <behaviour.json> <universe.json> [coins_batch_bytes]
//        prints {"kind":"workload","datadir":...,"steps":[{"a":..,"r":..,"obs":..}...]}; writes VF:<phase> markers into the
//        syscall stream (write(-1, ...)), which have no effect but show up in strace.
//   crashnode recover <behaviour.json> <universe.json> <image_dir>
//        prints {"kind":"recovered","load":"ok"|"<error>","pre":obs,"post":obs} (pre: right after loading; post: after
//        ActivateBestChain has reconnected whatever stored blocks it can).
#include <utxoworld.h>
#include <kernel/coinstats.h>
#include <unistd.h>
using namespace vfh;

static void Mark(const std::string& s) { (void)!write(-1, s.data(), s.size()); }

static UniValue ReadJson(const char* path)
{
    std::ifstream f(path); std::stringstream ss; ss << f.rdbuf();
    UniValue v; if (!v.read(ss.str())) { std::cerr << "bad json " << path << "\n"; std::exit(2); }
    return v;
}

int main(int argc, char** argv)
{
    if (argc < 4) { std::cerr << "usage: crashnode workload|recover <behaviour.json> <universe.json> ...\n"; return 2; }
    const std::string mode = argv[1];
    const UniValue beh = ReadJson(argv[2]);
    g_uni = ReadJson(argv[3]);
    g_simopts.coins_db_in_memory = false;
    g_simopts.block_tree_db_in_memory = false;
    if (mode == "workload") {
        if (argc > 4) g_simopts.coins_batch_bytes = std::stoull(argv[4]);
        Mark("VF:base:begin");
        World w;
        w.sim->cm().ActiveChainstate().ForceFlushStateToDisk();
        Mark("VF:base:end");
        UniValue steps(UniValue::VARR);
        const UniValue& st = beh["steps"];
        for (size_t i = 0; i < st.size(); ++i) {
            Mark("VF:step:" + std::to_string(i) + ":begin:" + st[i]["a"][0].get_str());
            UniValue r = w.Apply(st[i]["a"]);
            Mark("VF:step:" + std::to_string(i) + ":end");
            steps.push_back(Obj({{"a", st[i]["a"]}, {"r", r}, {"obs", w.Project()["obs"]}}));
        }
        Mark("VF:end");
        Emit(Obj({{"kind", "workload"}, {"datadir", fs::PathToString(w.sim->m_args.GetDataDirNet())}, {"steps", steps}}));
        // no clean shutdown flush: the images are taken from the syscall stream, the process just ends
        std::cout.flush();
        _exit(0);
    }
    if (mode == "recover") {
        if (argc < 5) return 2;
        g_simopts.preload_dir = argv[4];
        g_simopts.defer_load = true;
        g_simopts.coins_batch_bytes = argc > 5 ? std::stoull(argv[5]) : 64;   // the recovery's own flush is split into partial batches too
        auto sim = MakeSim(g_simopts);
        const std::string datadir = fs::PathToString(sim->m_args.GetDataDirNet());
        Mark("VF:preload:end");     // everything before this point only set up the data directory from the image
        World w(std::move(sim), /*dry_run=*/true);
        const UniValue& st = beh["steps"];
        for (size_t i = 0; i < st.size(); ++i) w.Apply(st[i]["a"]);    // learn the block ids of the crashed run
        InstallAbortHandlers();
        const std::string err = w.sim->TryLoad();
        if (!err.empty()) { Emit(Obj({{"kind", "recovered"}, {"load", err}, {"datadir", datadir}})); std::cout.flush(); _exit(0); }
        UniValue pre;
        if (!w.sim->Tip()) {
            // an empty coins database: the node starts from nothing and re-connects its stored blocks
            pre = Obj({{"tip", -9998}, {"stored", UniValue(UniValue::VARR)}, {"failed", UniValue(UniValue::VARR)}, {"utxo", UniValue(UniValue::VARR)}});
            pre.pushKV("db_coins", 0); pre.pushKV("height", -1);
        } else {
            pre = w.Project()["obs"];
            // count of the whole coins database, from the database itself
            { LOCK(cs_main); w.sim->cm().ActiveChainstate().ForceFlushStateToDisk(); }
            std::optional<kernel::CCoinsStats> stats = kernel::ComputeUTXOStats(kernel::CoinStatsHashType::NONE, w.sim->cm().ActiveChainstate().CoinsDB(), w.sim->cm().m_blockman);
            pre.pushKV("db_coins", stats ? (int64_t)stats->nTransactionOutputs : -1);
            pre.pushKV("height", WITH_LOCK(cs_main, return w.sim->cm().ActiveChain().Height()));
        }
        BlockValidationState vs;
        const bool act = w.sim->cm().ActiveChainstate().ActivateBestChain(vs);
        UniValue post = w.Project()["obs"];
        post.pushKV("height", WITH_LOCK(cs_main, return w.sim->cm().ActiveChain().Height()));
        Emit(Obj({{"kind", "recovered"}, {"load", "ok"}, {"activate", act}, {"pre", pre}, {"post", post}, {"datadir", datadir}}));
        std::cout.flush();
        _exit(0);
    }
    return 2;
}
