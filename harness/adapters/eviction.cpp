// Adapter for specs/Eviction (C59): hands candidate sets to the real inbound-eviction code and LOGS what it chose.
// The adapter decides nothing: the log (candidate set as read back from the real structures, chosen NodeId or -1) is
// judged by TLC with the relation Allowed of specs/Eviction/Eviction.tla (module EvictionJudge).
//   eviction select  <rows.ndjson> <nperm>     rows {cands:[...]} printed by the specification's generator; each vector is
//                                               passed to SelectNodeToEvict in <nperm> element orders
//   eviction connman <rows.ndjson>             the same sets realised as CNodes of a ConnmanTestMsg; eviction is triggered through
//                                               CConnman::EvictTxPeerIfFull and through the accept path (CreateNodeFromAcceptedSocket),
//                                               both of which call CConnman::AttemptToEvictConnection
//   eviction drive   <seed> <n> <maxsize>        seeded random candidate sets over tiny domains (many ties)
// The specification works with small abstract rank values; HOW they become real field values is a parameter of the replay (MAPPINGS below):
// every candidate set is run under a coarse mapping (1 us / 1 s steps, netgroup keys spread over 64 bits) and under mappings at the finest
// resolution of each stored type (pings 1 ns and 100 ns apart inside one microsecond and one millisecond, connection times 1 ns apart,
// last-block / last-tx times 1 s apart, netgroup keys differing only in the low bits or only in the high bits), and under a wide one (1 ms / 1 h).
// The candidate set is logged in abstract units as read back from the real structures through the exact inverse of the mapping.
// The log goes to <rows.ndjson>.log (select / connman) or stdout (drive); one line per case:
//   {"src":..,"row":i,"cands":[{id,conn,ping,blk,tx,svc,relay,bloom,grp,prefer,local,net,noban,ctype}],"choices":[id|-1,...],"labels":["mapping/order",...]}
#include <vfh.h>
#include <net.h>
#include <netaddress.h>
#include <netbase.h>
#include <node/eviction.h>
#include <random.h>
#include <streams.h>
#include <test/util/net.h>
#include <test/util/setup_common.h>
#include <util/time.h>
using namespace vfh;

namespace {
constexpr int64_t BASE_TIME = 1'700'000'000;

// How abstract rank values become real field values. All maps are strictly increasing, so the order (and every tie) of the
// abstract values is the order of the real ones; Inverse() is exact and refuses values outside the encoding.
struct Mapping {
    std::string name;
    int64_t ping_base_ns, ping_step_ns;   // m_min_ping_time (NodeClock::duration, nanoseconds)
    int64_t conn_step_ns;                 // m_connected (NodeClock::time_point, nanoseconds)
    int64_t sec_step;                     // m_last_block_time / m_last_tx_time (std::chrono::seconds)
    int grp_mode;                         // 0: (g << 50) | g   1: constant high bits, g in the low bits   2: g << 50 (high bits only)
};
const std::vector<Mapping> MAPPINGS{
    {"coarse", 0, 1000, 1'000'000'000, 1, 0},                 // whole microseconds, whole seconds
    {"finest", 20'000'000, 1, 1, 1, 1},                       // 1 ns apart: all within 2 us of 20 ms; connection times 1 ns apart; keys differ in the low bits
    {"sub_us", 20'000'000, 100, 1'000'000'000, 1, 2},         // 100 ns apart: neighbours share a microsecond; keys differ in the high bits only
    {"wide", 0, 1'000'000, 3600LL * 1'000'000'000, 3600, 0},  // whole milliseconds, whole hours
};
// mappings a CNode can realise: m_connected comes from the (mock) clock in whole seconds
const std::vector<Mapping> CONNMAN_MAPPINGS{
    {"coarse", 0, 1000, 1'000'000'000, 1, 0},
    {"finest_s", 20'000'000, 1, 1'000'000'000, 1, 1},
    {"sub_us", 20'000'000, 100, 1'000'000'000, 1, 2},
};
constexpr uint64_t GRP_HIGH = 0x5A5A000000000000ULL;
uint64_t GroupKey(const Mapping& m, int64_t g)
{
    if (g < 0 || g >= (1 << 13)) throw std::runtime_error("abstract netgroup out of range");
    return m.grp_mode == 0 ? (uint64_t(g) << 50) | uint64_t(g) : m.grp_mode == 1 ? GRP_HIGH | uint64_t(g) : uint64_t(g) << 50;
}
int64_t GroupInverse(const Mapping& m, uint64_t k)
{
    const int64_t g = m.grp_mode == 0 ? int64_t(k >> 50) : m.grp_mode == 1 ? int64_t(k & 0xFFFF) : int64_t(k >> 50);
    if (g < 0 || g >= (1 << 13) || GroupKey(m, g) != k) throw std::runtime_error("netgroup key outside the harness encoding");
    return g;
}
int64_t ExactDiv(int64_t v, int64_t step, const char* what)
{
    if (v % step != 0) throw std::runtime_error(std::string(what) + " outside the harness encoding");
    return v / step;
}

const std::vector<std::pair<std::string, Network>> NETS{{"ipv4", NET_IPV4}, {"ipv6", NET_IPV6}, {"onion", NET_ONION}, {"i2p", NET_I2P},
                                                        {"cjdns", NET_CJDNS}, {"internal", NET_INTERNAL}, {"unroutable", NET_UNROUTABLE}};
Network NetFromName(const std::string& s)
{
    for (const auto& [n, v] : NETS) if (n == s) return v;
    throw std::runtime_error("unknown network " + s);
}
std::string NetName(Network n)
{
    for (const auto& [s, v] : NETS) if (v == n) return s;
    return "net" + std::to_string(int(n));
}
const std::vector<ConnectionType> CTYPES{ConnectionType::INBOUND, ConnectionType::OUTBOUND_FULL_RELAY, ConnectionType::MANUAL, ConnectionType::FEELER,
                                         ConnectionType::BLOCK_RELAY, ConnectionType::ADDR_FETCH, ConnectionType::PRIVATE_BROADCAST};
ConnectionType CTypeFromName(const std::string& s)
{
    for (ConnectionType c : CTYPES) if (ConnectionTypeAsString(c) == s) return c;
    throw std::runtime_error("unknown connection type " + s);
}

NodeEvictionCandidate FromJson(const UniValue& c, const Mapping& m)
{
    return NodeEvictionCandidate{
        .id = I(c["id"]),
        .m_connected = NodeClock::time_point{std::chrono::seconds{BASE_TIME}} + std::chrono::nanoseconds{I(c["conn"]) * m.conn_step_ns},
        .m_min_ping_time = std::chrono::nanoseconds{m.ping_base_ns + I(c["ping"]) * m.ping_step_ns},
        .m_last_block_time = std::chrono::seconds{I(c["blk"]) * m.sec_step},
        .m_last_tx_time = std::chrono::seconds{I(c["tx"]) * m.sec_step},
        .fRelevantServices = B(c["svc"]),
        .m_relay_txs = B(c["relay"]),
        .fBloomFilter = B(c["bloom"]),
        .nKeyedNetGroup = GroupKey(m, I(c["grp"])),
        .prefer_evict = B(c["prefer"]),
        .m_is_local = B(c["local"]),
        .m_network = NetFromName(S(c["net"])),
        .m_noban = B(c["noban"]),
        .m_conn_type = CTypeFromName(S(c["ctype"])),
    };
}

// what the real structure holds, in the specification's units (exact inverse of the mapping)
UniValue ToJson(const NodeEvictionCandidate& c, const Mapping& m)
{
    using ns = std::chrono::nanoseconds;
    UniValue o(UniValue::VOBJ);
    o.pushKV("id", (int64_t)c.id);
    o.pushKV("conn", ExactDiv(std::chrono::duration_cast<ns>(c.m_connected - NodeClock::time_point{std::chrono::seconds{BASE_TIME}}).count(), m.conn_step_ns, "connection time"));
    o.pushKV("ping", ExactDiv(std::chrono::duration_cast<ns>(c.m_min_ping_time).count() - m.ping_base_ns, m.ping_step_ns, "ping time"));
    o.pushKV("blk", ExactDiv(c.m_last_block_time.count(), m.sec_step, "last block time"));
    o.pushKV("tx", ExactDiv(c.m_last_tx_time.count(), m.sec_step, "last tx time"));
    o.pushKV("svc", c.fRelevantServices);
    o.pushKV("relay", c.m_relay_txs);
    o.pushKV("bloom", c.fBloomFilter);
    o.pushKV("grp", GroupInverse(m, c.nKeyedNetGroup));
    o.pushKV("prefer", c.prefer_evict);
    o.pushKV("local", c.m_is_local);
    o.pushKV("net", NetName(c.m_network));
    o.pushKV("noban", c.m_noban);
    o.pushKV("ctype", ConnectionTypeAsString(c.m_conn_type));
    return o;
}

UniValue CandsJson(const std::vector<NodeEvictionCandidate>& v, const Mapping& m)
{
    UniValue a(UniValue::VARR);
    for (const auto& c : v) a.push_back(ToJson(c, m));
    return a;
}

struct Decisions {
    std::vector<int64_t> choices;
    std::vector<std::string> labels;   // "mapping/order" of each decision
    void Add(int64_t c, const std::string& l) { choices.push_back(c); labels.push_back(l); R().Count(c == -1 ? "none" : "evictions"); R().Count("decisions_" + l.substr(0, l.find('/'))); }
};

void LogCase(std::ostream& out, const std::string& src, size_t row, const UniValue& cands, const Decisions& d)
{
    UniValue o(UniValue::VOBJ);
    o.pushKV("src", src);
    o.pushKV("row", (int64_t)row);
    o.pushKV("cands", cands);
    UniValue ch(UniValue::VARR), lb(UniValue::VARR);
    for (int64_t c : d.choices) ch.push_back(c);
    for (const std::string& l : d.labels) lb.push_back(l);
    o.pushKV("choices", ch);
    o.pushKV("labels", lb);
    out << o.write() << "\n";
}

// SelectNodeToEvict on the abstract candidate vector under every value mapping and in several element orders (std::sort leaves the
// order of ties to the input order). Returns the candidate set in abstract units as read back from the real structures.
UniValue SelectAllWays(const UniValue& abs_cands, int nperm, uint64_t seed, Decisions& d)
{
    UniValue logged;
    for (size_t mi = 0; mi < MAPPINGS.size(); ++mi) {
        const Mapping& m = MAPPINGS[mi];
        std::vector<NodeEvictionCandidate> base;
        for (size_t i = 0; i < abs_cands.size(); ++i) base.push_back(FromJson(abs_cands[i], m));
        const UniValue back = CandsJson(base, m);
        if (mi == 0) logged = back;
        else if (back.write() != logged.write()) throw std::runtime_error("mapping " + m.name + " does not read back to the same abstract candidate set");
        for (int p = 0; p < nperm; ++p) {
            std::vector<NodeEvictionCandidate> v = base;
            if (p == 1) std::reverse(v.begin(), v.end());
            if (p >= 2) {
                FastRandomContext rng{uint256{(uint8_t)(1 + (seed + 31 * p + 7 * mi) % 250)}};
                for (size_t k = 0; k < (seed % 7); ++k) rng.rand64();
                std::shuffle(v.begin(), v.end(), rng);
            }
            const std::optional<NodeId> r = SelectNodeToEvict(std::move(v));
            d.Add(r ? *r : -1, m.name + "/" + std::to_string(p));
        }
    }
    return logged;
}

int SelectMain(const std::string& path, int nperm)
{
    InstallAbortHandlers();
    std::ofstream out(path + ".log");
    ForEachLine(path, [&](size_t n, const UniValue& row) {
        R().cur_test = n;
        Decisions d;
        const UniValue cands = SelectAllWays(row["cands"], nperm, n, d);
        LogCase(out, "select", row.exists("row") ? I(row["row"]) : n, cands, d);
        ++R().tests; R().steps += d.choices.size();
    });
    out.close();
    R().Summary();
    return 0;
}

// ---------------------------------------------------------------------------------------------------------------- connman
struct NullEvents final : NetEventsInterface {
    void InitializeNode(const CNode&, ServiceFlags) override {}
    void FinalizeNode(const CNode&) override {}
    bool HasAllDesirableServiceFlags(ServiceFlags) const override { return true; }
    bool ProcessMessages(CNode&, std::atomic<bool>&) override { return false; }
    bool SendMessages(CNode&) override { return false; }
};

CNetAddr AddrV2(uint8_t net_id, const std::vector<uint8_t>& bytes)
{
    DataStream s{};
    s << net_id << bytes;
    CNetAddr a;
    s >> CNetAddr::V2(a);
    return a;
}

// An address that makes CNode report (network, is_local) as requested, as far as a real connection can.
CNetAddr AddrFor(Network net, bool local, bool inbound, int64_t id, bool& inbound_onion)
{
    inbound_onion = false;
    const uint8_t a = uint8_t(id & 0xff), b = uint8_t((id >> 8) & 0xff);
    auto v4 = [&](bool loc) { return AddrV2(1, loc ? std::vector<uint8_t>{127, 0, b, uint8_t(a | 1)} : std::vector<uint8_t>{8, 1, b, a}); };
    switch (net) {
    case NET_IPV4: return v4(local);
    case NET_IPV6: {
        std::vector<uint8_t> x(16, 0);
        if (local) { x[15] = 1; return AddrV2(2, x); }
        x[0] = 0x2a; x[1] = 0x01; x[14] = b; x[15] = a; return AddrV2(2, x);
    }
    case NET_ONION: {
        if (inbound) { inbound_onion = true; return v4(local); }    // inbound Tor connections are recognised by the bind address
        std::vector<uint8_t> x(32, 0x11); x[0] = a; x[1] = b; return AddrV2(4, x);
    }
    case NET_I2P: { std::vector<uint8_t> x(32, 0x22); x[0] = a; x[1] = b; return AddrV2(5, x); }
    case NET_CJDNS: { std::vector<uint8_t> x(16, 0x33); x[0] = 0xfc; x[1] = a; x[2] = b; return AddrV2(6, x); }
    default: return v4(local);
    }
}

int ConnmanMain(const std::string& path)
{
    InstallAbortHandlers();
    auto setup = MakeNoLogFileContext<const TestingSetup>();
    std::ofstream out(path + ".log");
    NullEvents events;
    ForEachLine(path, [&](size_t n, const UniValue& row) {
        R().cur_test = n;
        Decisions d_quota, d_accept;
        UniValue view_quota, view_accept;
        bool have_quota = false;
        for (size_t mi = 0; mi < CONNMAN_MAPPINGS.size(); ++mi) {
        const Mapping& m = CONNMAN_MAPPINGS[mi];
        ConnmanTestMsg connman{0x1337, 0x1337, *setup->m_node.addrman, *setup->m_node.netgroupman, Params()};
        CConnman::Options opts;
        opts.m_max_automatic_connections = 0;      // no inbound slot is ever free: every accepted connection needs an eviction
        opts.m_full_relay_inbound_percent = 0;     // and every tx-relaying inbound peer is over the full-relay quota
        opts.m_msgproc = &events;
        connman.Init(opts);
        const UniValue& cs = row["cands"];
        std::vector<CNode*> nodes;
        for (size_t i = 0; i < cs.size(); ++i) {
            const UniValue& c = cs[i];
            const NodeEvictionCandidate want = FromJson(c, m);     // the field values of this mapping
            const ConnectionType ct = want.m_conn_type;
            bool inbound_onion = false;
            const CNetAddr na = AddrFor(want.m_network, want.m_is_local, ct == ConnectionType::INBOUND, want.id, inbound_onion);
            SetMockTime(TicksSinceEpoch<std::chrono::seconds>(want.m_connected));     // CNode takes m_connected from the clock (whole seconds)
            CNode* node = new CNode(want.id, /*sock=*/nullptr, CAddress{CService{na, 8333}, NODE_NONE}, want.nKeyedNetGroup,
                                    /*nLocalHostNonceIn=*/0, CService{}, /*addrNameIn=*/"", ct, inbound_onion, /*network_key=*/0,
                                    CNodeOptions{.permission_flags = want.m_noban ? NetPermissionFlags::NoBan : NetPermissionFlags::None,
                                                 .prefer_evict = want.prefer_evict});
            node->m_min_ping_time = want.m_min_ping_time;
            node->m_last_block_time = want.m_last_block_time;
            node->m_last_tx_time = want.m_last_tx_time;
            node->m_has_all_wanted_services = want.fRelevantServices;
            node->m_relays_txs = want.m_relay_txs;
            node->m_bloom_filter_loaded = want.fBloomFilter;
            node->fSuccessfullyConnected = true;
            connman.AddTestNode(*node);
            nodes.push_back(node);
        }
        SetMockTime(BASE_TIME + 100000000);
        // the candidate AttemptToEvictConnection builds for a node, from the node's own public state
        auto cand_of = [](const CNode& nd) {
            return NodeEvictionCandidate{
                .id = nd.GetId(), .m_connected = nd.m_connected, .m_min_ping_time = nd.m_min_ping_time.load(),
                .m_last_block_time = nd.m_last_block_time.load(), .m_last_tx_time = nd.m_last_tx_time.load(),
                .fRelevantServices = nd.m_has_all_wanted_services.load(), .m_relay_txs = nd.m_relays_txs.load(),
                .fBloomFilter = nd.m_bloom_filter_loaded.load(), .nKeyedNetGroup = nd.nKeyedNetGroup, .prefer_evict = nd.m_prefer_evict,
                .m_is_local = nd.addr.IsLocal(), .m_network = nd.ConnectedThroughNetwork(), .m_noban = nd.HasPermission(NetPermissionFlags::NoBan),
                .m_conn_type = nd.m_conn_type};
        };
        auto evicted = [&]() -> std::vector<int64_t> {
            std::vector<int64_t> ids;
            for (CNode* nd : nodes) if (nd->fDisconnect) ids.push_back(nd->GetId());
            return ids;
        };
        auto same_view = [&](UniValue& kept, const UniValue& now_view) {
            if (mi == 0) kept = now_view;
            else if (kept.write() != now_view.write()) throw std::runtime_error("mapping " + m.name + " does not read back to the same abstract candidate set");
        };
        // (a) the full-relay quota path: only tx-relaying peers are candidates
        {
            std::vector<NodeEvictionCandidate> view;
            bool any_tx_inbound = false;
            for (CNode* nd : nodes) {
                if (nd->m_relays_txs) view.push_back(cand_of(*nd));
                if (nd->IsInboundConn() && nd->m_relays_txs) any_tx_inbound = true;
            }
            const bool ok = connman.EvictTxPeerIfFull();
            std::vector<int64_t> ids = evicted();
            if (ids.size() > 1) R().Mismatch(UniValue("EvictTxPeerIfFull"), "more than one peer marked for disconnection");
            if (any_tx_inbound) {
                if (ok != !ids.empty()) R().Mismatch(UniValue("EvictTxPeerIfFull"), "return value and disconnect flag disagree");
                same_view(view_quota, CandsJson(view, m));
                have_quota = true;
                d_quota.Add(ids.empty() ? -1 : ids[0], m.name + "/0"); ++R().steps;
            }
            for (CNode* nd : nodes) nd->fDisconnect = false;
        }
        // (b) the accept path: no free inbound slot, every connected node is a candidate
        {
            std::vector<NodeEvictionCandidate> view;
            for (CNode* nd : nodes) view.push_back(cand_of(*nd));
            const size_t before = connman.TestNodes().size();
            bool dummy = false;
            const CNetAddr peer = AddrFor(NET_IPV4, false, true, 60000 + (int64_t)n, dummy);
            connman.CreateNodeFromAcceptedSocketPublic(std::make_unique<StaticContentsSock>(""), NetPermissionFlags::None,
                                                       CAddress{CService{peer, 1}, NODE_NONE}, CAddress{CService{peer, 2}, NODE_NONE});
            std::vector<int64_t> ids = evicted();
            const bool accepted = connman.TestNodes().size() == before + 1;
            if (ids.size() > 1) R().Mismatch(UniValue("accept"), "more than one peer marked for disconnection");
            if (accepted != !ids.empty()) R().Mismatch(UniValue("accept"), "connection accepted without an eviction, or evicted without accepting");
            same_view(view_accept, CandsJson(view, m));
            d_accept.Add(ids.empty() ? -1 : ids[0], m.name + "/0"); ++R().steps;
        }
        connman.ClearTestNodes();
        }
        if (have_quota) LogCase(out, "connman-txquota", n, view_quota, d_quota);
        LogCase(out, "connman-accept", n, view_accept, d_accept);
        ++R().tests;
    });
    SetMockTime(0);
    out.close();
    R().Summary();
    return 0;
}

// ---------------------------------------------------------------------------------------------------------------- random driver
int DriveMain(uint64_t seed, int ncases, int maxsize)
{
    InstallAbortHandlers();
    FastRandomContext rng{uint256{(uint8_t)(seed % 251 + 1)}};
    for (uint64_t k = 0; k < seed; ++k) rng.rand32();
    for (int t = 0; t < ncases; ++t) {
        // mostly small and mid sizes, a few large; value ranges 1..span: small spans give many ties
        const int r = rng.randrange(10);
        const int n = r == 0 ? rng.randrange(8) : r < 8 ? rng.randrange(std::min(maxsize, 45) + 1) : rng.randrange(maxsize + 1);
        const int span = 1 + (int)rng.randrange(rng.randbool() ? 4 : 40);
        const int noban_pct = rng.randrange(3) == 0 ? 20 : 0;
        const int out_pct = rng.randrange(3) == 0 ? 20 : 0;
        UniValue abs_cands(UniValue::VARR);
        for (int i = 0; i < n; ++i) {
            UniValue c(UniValue::VOBJ);
            c.pushKV("id", i + 1);
            c.pushKV("conn", (int64_t)rng.randrange(span * 2));
            c.pushKV("ping", (int64_t)rng.randrange(span));
            c.pushKV("blk", (int64_t)rng.randrange(span));
            c.pushKV("tx", (int64_t)rng.randrange(span));
            c.pushKV("svc", rng.randbool()); c.pushKV("relay", rng.randbool()); c.pushKV("bloom", rng.randbool());
            c.pushKV("grp", (int64_t)rng.randrange(span));
            c.pushKV("prefer", rng.randbool()); c.pushKV("local", rng.randrange(6) == 0);
            c.pushKV("net", NETS[rng.randrange(5)].first);
            c.pushKV("noban", (int)rng.randrange(100) < noban_pct);
            c.pushKV("ctype", ConnectionTypeAsString((int)rng.randrange(100) < out_pct ? CTYPES[1 + rng.randrange(CTYPES.size() - 1)] : ConnectionType::INBOUND));
            abs_cands.push_back(c);
        }
        Decisions d;
        const UniValue cands = SelectAllWays(abs_cands, 2, seed * 1000003 + t, d);
        LogCase(std::cout, "random", t, cands, d);
    }
    return 0;
}
} // namespace

int main(int argc, char** argv)
{
    if (argc < 3) { std::cerr << "usage: eviction select|connman|drive ...\n"; return 2; }
    const std::string mode = argv[1];
    try {
        if (mode == "select") return SelectMain(argv[2], argc > 3 ? atoi(argv[3]) : 4);
        if (mode == "connman") return ConnmanMain(argv[2]);
        if (mode == "drive") return DriveMain(strtoull(argv[2], nullptr, 10), argc > 3 ? atoi(argv[3]) : 100, argc > 4 ? atoi(argv[4]) : 40);
    } catch (const std::exception& e) {
        std::cerr << "eviction adapter: " << e.what() << "\n";
        return 2;
    }
    return 2;
}
