// Adapter for specs/WaitNext (C65): the real interfaces::BlockTemplate::waitNext on an in-process regtest node, called from a
// waiter thread while a driver thread performs a schedule of operations; mock time everywhere.
//   waitnext run <cases.ndjson>
// case: {addfee, runs: [{to, th, age, pf, sched: [{k, d}...], startk, dseed}...]}
//   pf: total fees of the previous template as a wide value {q, r} = q * 10^9 + r satoshi (amounts travel wide in both directions:
//   TLC's integers are 32 bit). Totals of 10^6 satoshi and more are paid out of 50 BTC coinbases; 22 BTC is paid by two transactions
//   of 11 BTC each (every single fee below 2^31, their sum above).
//   to: timeout in seconds (1000000 = none), th: fee threshold (999999999 = MAX_MONEY), age: seconds between the tip's block time
//   and the moment the previous template is made; sched: "tip" (an empty block built on the tip, block time = mock clock, delivered with
//   ProcessNewBlock), "add" (a transaction paying addfee through ProcessTransaction), "int" (BlockTemplate::interruptWait), "tick"
//   (mock clock += d seconds, then a notify_all on the tip-block condition variable = a spurious wake-up, so that the waiter looks at
//   the mock clock at once instead of after up to one real second); startk: the waiter starts after that many operations completed;
//   dseed: seed of the random real-time delays; calls: 1, or 2 = after the return the caller calls again on the same template
//   object with the same options (the schedule then ends with two interrupts, the second issued after the first return).
// Per run one "trace" line: the harness log = call start "S", completion of every driver operation, return "R" (a = 1 template / 0
// nothing, b = parent as number of blocks connected since the previous template, c = total fees), in the order of a global mutex.
#include <chainsim.h>
#include <interfaces/mining.h>
#include <node/miner.h>
#include <random.h>
#include <atomic>
#include <chrono>
#include <future>
#include <mutex>
#include <thread>
using namespace vfh;

namespace {
constexpr int64_t INF_TIMEOUT = 1000000;
constexpr int64_t MAX_THRESHOLD = 999999999;

struct Event { std::string e; int64_t a{0}, b{0}, c{0}; };

constexpr int64_t WB = 1000000000;
UniValue W(int64_t v)
{
    int64_t q = v / WB, r = v % WB;
    if (r < 0) { r += WB; q -= 1; }
    return Obj({{"q", q}, {"r", r}});
}
int64_t FromW(const UniValue& w) { return w["q"].getInt<int64_t>() * WB + w["r"].getInt<int64_t>(); }

struct World {
    std::unique_ptr<ChainSim> sim;
    std::unique_ptr<interfaces::Mining> mining;
    int64_t mock;
    std::vector<std::pair<COutPoint, CAmount>> avail, unconf;   // anyone-can-spend outputs: confirmed / created by mempool transactions
    uint64_t counter{0};
    std::vector<CTransactionRef> cbs;   // coinbases of the base chain (index = height - 1), 50 BTC each to coinbaseKey
    size_t next_big{1};                 // next unspent one (0 is fanned out at the start)

    World()
    {
        SimOptions o; o.args = {"-acceptnonstdtxn=1"};
        sim = MakeSim(o);
        if (!Params().GetConsensus().fPowAllowMinDifficultyBlocks) throw std::runtime_error("regtest is expected to allow min-difficulty blocks");
        mock = Params().GenesisBlock().nTime + 1000000;
        SetMockTime(mock);
        cbs = sim->MineBase(149);   // 50 BTC coinbases; those of heights <= tip - 99 are spendable
        mining = interfaces::MakeMining(sim->m_node, /*wait_loaded=*/false);
        // fan out one mature coinbase into anyone-can-spend outputs
        CMutableTransaction m;
        m.vin.emplace_back(COutPoint(cbs[0]->GetHash(), 0));
        const int n = 40; const CAmount each = 100000000;
        for (int i = 0; i < n; ++i) m.vout.emplace_back(each, CScript() << OP_TRUE);
        m.vout.emplace_back(cbs[0]->vout[0].nValue - n * each - 100000, CScript() << OP_TRUE);
        sim->SignP2PK(m, 0, cbs[0]->vout[0]);
        auto tx = MakeTransactionRef(m);
        Submit(tx);
        for (int i = 0; i < n; ++i) unconf.emplace_back(COutPoint(tx->GetHash(), i), each);
        Cleanup();
    }
    CTxMemPool& mp() { return *sim->m_node.mempool; }
    void Submit(const CTransactionRef& tx)
    {
        const MempoolAcceptResult res = WITH_LOCK(cs_main, return sim->cm().ProcessTransaction(tx, false));
        if (res.m_result_type != MempoolAcceptResult::ResultType::VALID) throw std::runtime_error("transaction rejected: " + res.m_state.ToString());
    }
    CTransactionRef MakeTx(CAmount fee)
    {
        if (avail.empty()) throw std::runtime_error("out of spendable outputs");
        auto [op, v] = avail.back(); avail.pop_back();
        CMutableTransaction m;
        m.vin.emplace_back(op);
        m.vout.emplace_back(v - fee, CScript() << OP_TRUE);
        std::vector<unsigned char> tag(30, 0x55); ++counter; memcpy(tag.data(), &counter, sizeof(counter));
        m.vout.emplace_back(0, CScript() << OP_RETURN << tag);
        auto tx = MakeTransactionRef(m);
        unconf.emplace_back(COutPoint(tx->GetHash(), 0), v - fee);
        return tx;
    }
    // a transaction paying a large fee out of a mature 50 BTC coinbase; the change becomes an ordinary anyone-can-spend output
    CTransactionRef MakeBigTx(CAmount fee)
    {
        const int tip = sim->Tip()->nHeight;
        if (next_big >= cbs.size() || (int)next_big + 1 + 100 > tip + 1) throw std::runtime_error("out of mature 50 BTC coinbases");
        const CTransactionRef& cb = cbs[next_big++];
        CMutableTransaction m;
        m.vin.emplace_back(COutPoint(cb->GetHash(), 0));
        m.vout.emplace_back(cb->vout[0].nValue - fee, CScript() << OP_TRUE);
        std::vector<unsigned char> tag(30, 0x66); ++counter; memcpy(tag.data(), &counter, sizeof(counter));
        m.vout.emplace_back(0, CScript() << OP_RETURN << tag);
        sim->SignP2PK(m, 0, cb->vout[0]);
        auto tx = MakeTransactionRef(m);
        unconf.emplace_back(COutPoint(tx->GetHash(), 0), cb->vout[0].nValue - fee);
        return tx;
    }
    // mines everything the mempool holds (a template of the node, solved), so that a run starts from an empty mempool
    void Cleanup()
    {
        auto t = mining->createNewBlock({}, /*cooldown=*/false);
        if (!t) throw std::runtime_error("cleanup: no template");
        CBlock b = t->getBlock();
        b.hashMerkleRoot = BlockMerkleRoot(b);
        sim->Solve(b);
        auto pb = std::make_shared<const CBlock>(b);
        sim->SubmitBlock(pb, true);
        if (sim->Tip()->GetBlockHash() != pb->GetHash()) throw std::runtime_error("cleanup block not connected: " + sim->Reason(pb->GetHash()));
        if (WITH_LOCK(mp().cs, return mp().size()) != 0) throw std::runtime_error("cleanup: mempool not empty");
        for (auto& x : unconf) avail.push_back(x);
        unconf.clear();
    }
    void Kick()
    {
        auto& kn = *sim->m_node.notifications;
        LOCK(kn.m_tip_block_mutex);
        kn.m_tip_block_cv.notify_all();
    }

    UniValue Run(const UniValue& run, CAmount addfee)
    {
        const CAmount prevfees = FromW(run["pf"]);
        const int64_t to = run["to"].getInt<int64_t>(), th = run["th"].getInt<int64_t>(), age = run["age"].getInt<int64_t>();
        const UniValue& sched = run["sched"];
        const int startk = run["startk"].getInt<int>();
        const int calls = run.exists("calls") ? run["calls"].getInt<int>() : 1;
        FastRandomContext rng(uint256{(uint8_t)(run["dseed"].getInt<int>() & 0xff)});
        rng.rand64();
        auto delay = [&](FastRandomContext& r) {
            static const int us[] = {0, 0, 0, 20, 100, 400, 1500};
            const int d = us[r.randrange(7)];
            if (d) std::this_thread::sleep_for(std::chrono::microseconds(d));
        };
        // ---- start state: empty mempool + one transaction paying prevfees, tip `age` seconds old, previous template
        mock += 10; SetMockTime(mock);
        Cleanup();
        if (prevfees >= 1000000) {
            if (prevfees == 2200000000) { Submit(MakeBigTx(prevfees / 2)); Submit(MakeBigTx(prevfees / 2)); }
            else Submit(MakeBigTx(prevfees));
        } else if (prevfees > 0) Submit(MakeTx(prevfees));
        mock += age; SetMockTime(mock);
        std::unique_ptr<interfaces::BlockTemplate> prev = mining->createNewBlock({}, /*cooldown=*/false);
        if (!prev) throw std::runtime_error("no previous template");
        std::map<uint256, int> tipidx;
        uint256 tip = prev->getBlockHeader().hashPrevBlock;
        int height = sim->Tip()->nHeight;
        if (tip != sim->Tip()->GetBlockHash()) throw std::runtime_error("previous template is not on the tip");
        tipidx[tip] = 0;
        {
            CAmount f = 0; for (CAmount x : prev->getTxFees()) f += x;
            if (f != prevfees) throw std::runtime_error("previous template's fees differ from the planned ones");
        }
        std::mutex log_mu; std::vector<Event> log;
        std::mutex idx_mu;
        auto add = [&](Event e) { std::lock_guard<std::mutex> g(log_mu); log.push_back(std::move(e)); };
        std::atomic<int> done_ops{0}, calls_done{0};
        std::atomic<bool> s_logged{false};
        std::promise<void> returned;
        std::future<void> fut = returned.get_future();
        const uint64_t wseed = rng.rand64();
        std::thread waiter([&] {
            FastRandomContext wr(uint256{(uint8_t)(wseed & 0xff)});
            while (done_ops.load() < startk) std::this_thread::yield();
            delay(wr);
            node::BlockWaitOptions wo;
            wo.timeout = to == INF_TIMEOUT ? MillisecondsDouble::max() : MillisecondsDouble{(double)to * 1000.0};
            wo.fee_threshold = th == MAX_THRESHOLD ? MAX_MONEY : th;
            // calls > 1: after the return the caller calls again on the SAME template object with the same options
            for (int call = 0; call < calls; ++call) {
                if (call > 0) delay(wr);
                add({"S"});
                s_logged.store(true);
                std::unique_ptr<interfaces::BlockTemplate> nt = prev->waitNext(wo);
                if (nt) {
                    CAmount f = 0; for (CAmount x : nt->getTxFees()) f += x;
                    const uint256 parent = nt->getBlockHeader().hashPrevBlock;
                    int idx = -1;
                    { std::lock_guard<std::mutex> g(idx_mu); auto it = tipidx.find(parent); if (it != tipidx.end()) idx = it->second; }
                    add({"R", 1, idx, f});
                } else add({"R", 0, 0, 0});
                calls_done.fetch_add(1);
            }
            returned.set_value();
        });
        std::string failure;
        try {
            for (size_t i = 0; i < sched.size(); ++i) {
                // the schedule ends with one interrupt per call; the j-th of them (j >= 2) is issued once j - 1 calls have returned
                const int fin = (int)i - ((int)sched.size() - calls);
                {
                    const auto t0 = std::chrono::steady_clock::now();
                    while (fin >= 1 && calls_done.load() < fin && std::chrono::steady_clock::now() - t0 < std::chrono::seconds(30)) std::this_thread::yield();
                }
                // the waiter is due to start after `startk` completed operations: the driver lets it log its call start first (on a loaded
                // machine the new thread would otherwise start after the whole schedule), then gives it a random moment to get going
                if ((int)i == startk) {
                    const auto t0 = std::chrono::steady_clock::now();
                    while (!s_logged.load() && std::chrono::steady_clock::now() - t0 < std::chrono::seconds(30)) std::this_thread::yield();
                    static const int us[] = {0, 0, 50, 300, 1000, 3000};
                    const int d = us[rng.randrange(6)];
                    if (d) std::this_thread::sleep_for(std::chrono::microseconds(d));
                }
                delay(rng);
                const std::string k = sched[i]["k"].get_str();
                const int64_t d = sched[i]["d"].getInt<int64_t>();
                if (k == "tip") {
                    ChainSim::BlockSpec s; s.prev = tip; s.height = ++height; s.time = (uint32_t)mock; s.extra_nonce = (int64_t)(++counter);
                    auto b = sim->BuildBlock(s);
                    { std::lock_guard<std::mutex> g(idx_mu); const int idx = (int)tipidx.size(); tipidx[b->GetHash()] = idx; }   // known before anybody can see it
                    sim->SubmitBlock(b, true);
                    if (sim->Tip()->GetBlockHash() != b->GetHash()) throw std::runtime_error("tip operation: block not connected: " + sim->Reason(b->GetHash()));
                    tip = b->GetHash();
                } else if (k == "add") {
                    Submit(MakeTx(addfee));
                } else if (k == "int") {
                    prev->interruptWait();
                } else if (k == "tick") {
                    mock += d; SetMockTime(mock); Kick();
                } else throw std::runtime_error("unknown operation " + k);
                add({k, d});
                done_ops.fetch_add(1);
            }
        } catch (const std::exception& e) { failure = e.what(); done_ops.store(1 << 20); prev->interruptWait(); }
        // every schedule ends with an interrupt: the call must return
        bool hung = false;
        if (fut.wait_for(std::chrono::seconds(30)) != std::future_status::ready) {
            hung = true;
            // last resort, so that the thread can be joined
            for (int i = 0; i < 100 && fut.wait_for(std::chrono::milliseconds(50)) != std::future_status::ready; ++i) { prev->interruptWait(); mock += 100000; SetMockTime(mock); Kick(); }
        }
        if (fut.wait_for(std::chrono::seconds(5)) != std::future_status::ready) { Emit(Obj({{"kind", "abort"}, {"test", (int64_t)R().cur_test}, {"why", "waitNext never returned"}})); std::cout.flush(); _exit(3); }
        waiter.join();
        if (!failure.empty()) throw std::runtime_error(failure);
        UniValue h(UniValue::VARR);
        for (const auto& e : log) h.push_back(Obj({{"e", e.e}, {"a", e.a}, {"b", e.b}, {"c", W(e.c)}}));
        return Obj({{"to", to}, {"th", th}, {"age", age}, {"pf", W(prevfees)}, {"sched", sched}, {"startk", startk}, {"calls", calls}, {"dseed", run["dseed"]}, {"h", h}, {"hung", hung},
                    {"tip_after", (int)tipidx.at(sim->Tip()->GetBlockHash())}});
    }
};
} // namespace

int main(int argc, char** argv)
{
    if (argc < 3 || std::string(argv[1]) != "run") { std::cerr << "usage: waitnext run <cases.ndjson>\n"; return 2; }
    InstallAbortHandlers();
    ForEachLine(argv[2], [&](size_t n, const UniValue& c) {
        R().cur_test = n; R().cur_step = 0; R().cur_action = UniValue::VNULL;
        auto w = std::make_unique<World>();
        const UniValue& runs = c["runs"];
        for (size_t i = 0; i < runs.size(); ++i) {
            R().cur_step = i;
            try {
                UniValue t = w->Run(runs[i], c["addfee"].getInt<int64_t>());
                t.pushKV("kind", "trace"); t.pushKV("test", (int64_t)n); t.pushKV("run", (int64_t)i);
                Emit(t);
            } catch (const std::exception& e) { R().Mismatch(runs[i], std::string("exception: ") + e.what()); break; }
            ++R().steps;
        }
        ++R().tests;
    });
    R().Summary();
    return 0;
}
