// Adapter for specs/VersionBits (C53): replays model transitions on the real VersionBitsConditionChecker /
// AbstractThresholdConditionChecker over synthetic CBlockIndex trees (built as src/test/versionbits_tests.cpp builds them).
// One persistent ThresholdConditionCache receives the replayed queries (warm); the projection asks every block again with a
// fresh cache (cold). The consensus entry point VersionBitsCache::IsActiveAfter (its own, differently warmed cache) is
// asked alongside GetStateFor.
// Model times are offsets: every test is replayed once per epoch E given on the command line, with model time t realised as
// E + 600 * t in the uint32 block times and in the deployment's int64 nStartTime / nTimeout (epochs straddle 2^31, lie
// beyond it, and put the largest block time at 2^32 - 1). The specification's answers do not depend on E (ShiftInvariant).
#include <vfh.h>
#include <chain.h>
#include <consensus/params.h>
#include <versionbits.h>
#include <versionbits_impl.h>
#include <memory>

using namespace vfh;

namespace {
constexpr int DEP_BIT = 3;
constexpr int64_t STEP_TIME = 600;
int64_t g_epoch = 1500000000;               // model time t is g_epoch + 600 * t

int64_t RealTime(int64_t t) { return g_epoch + STEP_TIME * t; }

int32_t VersionOf(const std::string& v)
{
    const int32_t mask = int32_t{1} << DEP_BIT;
    if (v == "sig") return VERSIONBITS_TOP_BITS | mask;                 // signals
    if (v == "sigx") return VERSIONBITS_TOP_BITS | mask | 0x1f37;       // signals, other bits set as well
    if (v == "none") return VERSIONBITS_TOP_BITS;                       // versionbits block, bit clear
    if (v == "other") return VERSIONBITS_TOP_BITS | (mask << 1) | (mask >> 1);   // neighbouring bits only
    if (v == "badtop") return 0x40000000 | mask;                        // bit set but top bits are 010
    if (v == "old") return mask | 4;                                    // bit set in a pre-versionbits version number
    throw std::runtime_error("unknown version class " + v);
}

struct World {
    Consensus::BIP9Deployment dep;
    std::unique_ptr<VersionBitsConditionChecker> checker;
    std::vector<std::unique_ptr<CBlockIndex>> blocks;   // model block b is blocks[b - 1]; 0 is nullptr
    std::vector<std::string> vers;
    std::vector<int64_t> times;
    std::vector<int> parents;
    ThresholdConditionCache warm;                        // the persistent cache of the model
    Consensus::Params params{};
    VersionBitsCache vbcache;                            // production wrapper: one more warm cache
    UniValue dep_json;

    explicit World(const UniValue& init)
    {
        const UniValue& d = init["dep"];
        dep_json = d;
        dep.bit = DEP_BIT;
        dep.period = d["period"].getInt<int>();
        dep.threshold = d["threshold"].getInt<int>();
        const int64_t s = d["start"].getInt<int64_t>();
        dep.nStartTime = s < 0 ? s : RealTime(s);        // -1 / -2 are ALWAYS_ACTIVE / NEVER_ACTIVE themselves
        static_assert(Consensus::BIP9Deployment::ALWAYS_ACTIVE == -1 && Consensus::BIP9Deployment::NEVER_ACTIVE == -2);
        dep.nTimeout = RealTime(d["timeout"].getInt<int64_t>());
        dep.min_activation_height = d["minh"].getInt<int>();
        checker = std::make_unique<VersionBitsConditionChecker>(dep);
        params.vDeployments[Consensus::DEPLOYMENT_TESTDUMMY] = dep;
        for (size_t i = 0; i < init["par"].size(); ++i) Mine(init["par"][i].getInt<int>(), init["ver"][i].get_str(), init["tm"][i].getInt<int64_t>());
        if (init.exists("cache")) {
            for (size_t i = 0; i < init["cache"].size(); ++i) {
                if (init["cache"][i].get_str() != "-") throw std::runtime_error("initial states have an empty cache");
            }
        }
    }
    const CBlockIndex* Blk(int b) const { return b == 0 ? nullptr : blocks.at(b - 1).get(); }
    void Mine(int p, const std::string& v, int64_t t)
    {
        auto idx = std::make_unique<CBlockIndex>();
        CBlockIndex* prev = p == 0 ? nullptr : blocks.at(p - 1).get();
        idx->nHeight = prev ? prev->nHeight + 1 : 0;
        idx->pprev = prev;
        if (RealTime(t) < 0 || RealTime(t) > int64_t{0xffffffff}) throw std::runtime_error("epoch puts a block time outside uint32");
        idx->nTime = static_cast<uint32_t>(RealTime(t));
        idx->nVersion = VersionOf(v);
        idx->BuildSkip();
        blocks.push_back(std::move(idx));
        vers.push_back(v); times.push_back(t); parents.push_back(p);
    }
    UniValue Apply(const UniValue& a)
    {
        const std::string op = a[0].get_str();
        if (op == "mine") { Mine(a[1].getInt<int>(), a[2].get_str(), a[3].getInt<int64_t>()); return UniValue{"none"}; }
        const CBlockIndex* b = Blk(a[1].getInt<int>());
        if (op == "state") {
            const ThresholdState s = checker->GetStateFor(b, warm);
            const bool active = vbcache.IsActiveAfter(b, params, Consensus::DEPLOYMENT_TESTDUMMY);
            return Obj({{"state", StateName(s)}, {"active", active}});
        }
        if (op == "since") return UniValue{checker->GetStateSinceHeightFor(b, warm)};
        if (op == "stats") {
            std::vector<bool> bits;
            const BIP9Stats st = checker->GetStateStatisticsFor(b, &bits);
            const BIP9Stats st2 = checker->GetStateStatisticsFor(b);
            if (st.period != st2.period || st.threshold != st2.threshold || st.elapsed != st2.elapsed || st.count != st2.count || st.possible != st2.possible)
                throw std::runtime_error("GetStateStatisticsFor differs with and without signalling_blocks");
            UniValue bv(UniValue::VARR);
            for (bool x : bits) bv.push_back(x);
            return Obj({{"period", (int64_t)st.period}, {"threshold", (int64_t)st.threshold}, {"elapsed", (int64_t)st.elapsed},
                        {"count", (int64_t)st.count}, {"possible", st.possible}, {"bits", bv}});
        }
        throw std::runtime_error("unknown op " + op);
    }
    UniValue Project()
    {
        UniValue par(UniValue::VARR), ver(UniValue::VARR), tm(UniValue::VARR), st(UniValue::VARR), since(UniValue::VARR), cache(UniValue::VARR);
        for (size_t i = 0; i < blocks.size(); ++i) { par.push_back(parents[i]); ver.push_back(vers[i]); tm.push_back(times[i]); }
        size_t cached = 0;
        for (int b = 0; b <= (int)blocks.size(); ++b) {
            { ThresholdConditionCache fresh; st.push_back(StateName(checker->GetStateFor(Blk(b), fresh))); }
            { ThresholdConditionCache fresh; since.push_back(checker->GetStateSinceHeightFor(Blk(b), fresh)); }
            auto it = warm.find(Blk(b));
            if (it == warm.end()) cache.push_back("-"); else { cache.push_back(StateName(it->second)); ++cached; }
        }
        if (cached != warm.size()) throw std::runtime_error("the cache holds a key that is not a block of the tree");
        return Obj({{"dep", dep_json}, {"par", par}, {"ver", ver}, {"tm", tm}, {"st", st}, {"since", since}, {"cache", cache}});
    }
};
} // namespace

// ReplayMain of vfh.h, with every test run once per epoch (the file is parsed once; `why` names the epoch).
int ReplayEpochs(const std::string& path, const std::vector<int64_t>& epochs)
{
    const std::vector<std::string> internal_keys{"cache"};
    InstallAbortHandlers();
    ForEachLine(path, [&](size_t n, const UniValue& t) {
        for (const int64_t epoch : epochs) {
            g_epoch = epoch;
            const std::string tag = "epoch " + std::to_string(epoch) + ": ";
            R().cur_test = n; R().cur_step = 0; R().cur_action = UniValue::VNULL;
            auto w = std::make_unique<World>(t["init"]);
            const UniValue& st = t["steps"];
            for (size_t i = 0; i < st.size(); ++i) {
                R().cur_step = i; R().cur_action = st[i]["a"];
                std::string why;
                UniValue res;
                try { res = w->Apply(st[i]["a"]); }
                catch (const std::exception& e) { why = std::string("exception: ") + e.what(); }
                ++R().steps;
                if (why.empty() && st[i].exists("r") && !st[i]["r"].isNull()) why = JsonDiff(st[i]["r"], res, "result");
                if (why.empty() && st[i].exists("exp") && !st[i]["exp"].isNull()) {
                    UniValue have;
                    try { have = w->Project(); } catch (const std::exception& e) { why = std::string("exception in projection: ") + e.what(); }
                    if (why.empty()) {
                        const UniValue& exp = st[i]["exp"];
                        std::string internal_diff;
                        for (const auto& k : exp.getKeys()) {
                            const bool internal = std::find(internal_keys.begin(), internal_keys.end(), k) != internal_keys.end();
                            if (!have.exists(k)) { why = "state." + k + ": missing in implementation projection"; break; }
                            std::string d = JsonDiff(exp[k], have[k], "state." + k);
                            if (d.empty()) continue;
                            if (internal) { if (internal_diff.empty()) internal_diff = d; } else { why = d; break; }
                        }
                        if (why.empty() && !internal_diff.empty()) { R().Deviation(st[i]["a"], tag + internal_diff, have); break; }
                    }
                }
                if (!why.empty()) { R().Mismatch(st[i]["a"], tag + why); break; }
            }
            ++R().tests;
        }
    });
    R().Summary();
    return 0;
}

int main(int argc, char** argv)
{
    if (argc < 3) { std::cerr << "usage: versionbits replay <tests.ndjson> [epoch...]\n"; return 2; }
    const std::string mode = argv[1];
    if (mode == "replay") {
        std::vector<int64_t> epochs;
        for (int i = 3; i < argc; ++i) epochs.push_back(std::stoll(argv[i]));
        if (epochs.empty()) epochs.push_back(1500000000);
        return ReplayEpochs(argv[2], epochs);
    }
    std::cerr << "unknown mode\n";
    return 2;
}
