// Adapter for specs/Index (C21): replays UtxoChain behaviours (blocks with real signed transactions, forks, invalidate /
// reconsider, chainstate flushes) on an in-process regtest node while real TxIndex, TxoSpenderIndex, BlockFilterIndex (BASIC)
// and CoinStatsIndex objects are created, synced, stopped, destroyed and re-created over their on-disk databases, exactly as the
// index unit tests drive them (Init, Sync, BlockUntilSyncedToCurrentChain, Interrupt, Stop).
//   indexes replay <tests.ndjson> <universe.json>
//   indexes rollover <jobs.ndjson> <universe.json>   the block filter index across the real 16 MiB roll-over of its flat files (see Rollover())
// After every step, for every active-chain block the specification says the index covers, the lookups are compared with the
// specification's from-scratch table F(chain): txindex tx -> block; spender outpoint -> (tx, block); filter matches every element of
// the BIP158 element set, equals the filter recomputed from block+undo, header = Hash(filter hash, previous header); coin
// statistics count / total amount equal the model's, and the index MuHash equals a MuHash3072 computed here from scratch over the
// model's UTXO set of that height, inserted in a different order (MuHash arithmetic and GCS encoding: agreement only).
#include <utxoworld.h>
#include <blockfilter.h>
#include <crypto/muhash.h>
#include <index/blockfilterindex.h>
#include <index/coinstatsindex.h>
#include <index/txindex.h>
#include <index/txospenderindex.h>
#include <interfaces/chain.h>
#include <kernel/coinstats.h>
#include <undo.h>
using namespace vfh;

namespace {
struct IWorld {
    World w;
    std::unique_ptr<TxIndex> txi;
    std::unique_ptr<TxoSpenderIndex> spd;
    std::unique_ptr<BlockFilterIndex> flt;
    std::unique_ptr<CoinStatsIndex> cst;
    bool running{false};
    bool nofilter{std::getenv("VERIF_C21_PROBE") != nullptr};     // diagnostic runs only: leave the block filter index out
                                                                  // (also set once the filter index refused to start in this behaviour: its own
                                                                  // locator then lags behind the other indexes', which the single-record model does not track)

    void Drain() { w.sim->m_node.validation_signals->SyncWithValidationInterfaceQueue(); }
    std::vector<BaseIndex*> All() { std::vector<BaseIndex*> v{txi.get(), spd.get(), cst.get()}; if (flt) v.push_back(flt.get()); return v; }

    UniValue Apply(const UniValue& a)
    {
        const std::string op = a[0].get_str();
        UniValue res(UniValue::VARR);
        if (op == "istart") {
            auto& node = w.sim->m_node;
            txi = std::make_unique<TxIndex>(interfaces::MakeChain(node), 1 << 20, /*f_memory=*/false);
            spd = std::make_unique<TxoSpenderIndex>(interfaces::MakeChain(node), 1 << 20, /*f_memory=*/false);
            if (!nofilter) flt = std::make_unique<BlockFilterIndex>(interfaces::MakeChain(node), BlockFilterType::BASIC, 1 << 20, /*f_memory=*/false);
            cst = std::make_unique<CoinStatsIndex>(interfaces::MakeChain(node), 1 << 20, /*f_memory=*/false);
            running = true;
            std::string failed;
            for (BaseIndex* i : All()) if (!i->Init()) failed += (failed.empty() ? "" : ",") + i->GetName();
            res.push_back(failed.empty() ? "none" : "init-failed:" + failed);
        } else if (op == "isync") {
            for (BaseIndex* i : All()) i->Sync();
            Drain();
            res.push_back("none");
        } else if (op == "istop") {
            Drain();
            for (BaseIndex* i : All()) { i->Interrupt(); i->Stop(); }
            txi.reset(); spd.reset(); flt.reset(); cst.reset();
            running = false;
            res.push_back("none");
        } else {
            res = w.Apply(a);
            Drain();
            if (running) for (BaseIndex* i : All()) { (void)i->BlockUntilSyncedToCurrentChain(); }
        }
        return res;
    }
    ~IWorld()
    {
        if (running) { Drain(); for (BaseIndex* i : All()) { i->Interrupt(); i->Stop(); } }
        txi.reset(); spd.reset(); flt.reset(); cst.reset();
    }

    CScript ScriptOfClass(const std::string& cls)
    {
        if (cls == "p2pk") return w.sim->coinbaseSpk;
        if (cls == "true") return CScript() << OP_TRUE;
        if (cls == "fail") return CScript() << OP_1 << OP_VERIFY << OP_0;
        throw std::runtime_error("unknown script class " + cls);
    }
    COutPoint RealOp(int t, int i) { return t < 0 ? COutPoint(w.blks.at(-t).block->vtx[0]->GetHash(), 0) : w.ops.at({t, i}); }
    CTxOut RealOut(int t, int i)
    {
        if (t < 0) return w.blks.at(-t).block->vtx[0]->vout[0];
        return w.outs.at({t, i});
    }

    // checks one active-chain block; returns "" or the first disagreement
    std::string CheckBlock(const CBlockIndex* pi, const CBlock& block, const UniValue* row, bool strict_spender, std::string& known)
    {
        // ---- txindex
        for (const auto& tx : block.vtx) {
            if (pi->nHeight == 0) break;                    // the genesis transaction is not indexed
            const auto r = txi->FindTx(tx->GetHash());
            if (!r) return "txindex: transaction " + tx->GetHash().ToString().substr(0, 10) + " of active block at height " + std::to_string(pi->nHeight) + " not found";
            if (r->tx->GetHash() != tx->GetHash()) return "txindex: wrong transaction returned";
            if (r->block_hash != pi->GetBlockHash()) return "txindex: transaction of the active block at height " + std::to_string(pi->nHeight) + " reported in block " + r->block_hash.ToString().substr(0, 10);
        }
        // ---- spender index
        for (size_t k = 1; k < block.vtx.size(); ++k) {
            for (const auto& in : block.vtx[k]->vin) {
                const auto r = spd->FindSpender(in.prevout);
                std::string bad;
                if (!r) bad = "spender index: error " + r.error();
                else if (!r->has_value()) bad = "spender index: no spender for an outpoint spent in the active block at height " + std::to_string(pi->nHeight);
                else if ((*r)->tx->GetHash() != block.vtx[k]->GetHash()) bad = "spender index: wrong spender " + (*r)->tx->GetHash().ToString().substr(0, 10) + " for an outpoint spent at height " + std::to_string(pi->nHeight);
                else if ((*r)->block_hash != pi->GetBlockHash()) bad = "spender index: active spender reported in a block that is not the active one (" + (*r)->block_hash.ToString().substr(0, 10) + ")";
                if (!bad.empty()) { if (strict_spender) return bad; if (known.empty()) known = bad; }
            }
        }
        // ---- block filter index
        if (flt) {
            BlockFilter f;
            if (!flt->LookupFilter(pi, f)) return "filter index: no filter for the active block at height " + std::to_string(pi->nHeight);
            uint256 hdr, prev;
            if (!flt->LookupFilterHeader(pi, hdr)) return "filter index: no filter header at height " + std::to_string(pi->nHeight);
            if (pi->pprev && !flt->LookupFilterHeader(pi->pprev, prev)) return "filter index: no filter header for the parent of height " + std::to_string(pi->nHeight);
            if (f.ComputeHeader(prev) != hdr) return "filter index: header at height " + std::to_string(pi->nHeight) + " is not Hash(filter hash, previous header)";
            if (f.GetBlockHash() != pi->GetBlockHash()) return "filter index: filter of another block returned";
            CBlockUndo undo;
            if (pi->nHeight > 0 && !w.sim->cm().m_blockman.ReadBlockUndo(undo, *pi)) throw std::runtime_error("cannot read undo data");
            const BlockFilter recomputed(BlockFilterType::BASIC, block, undo);
            if (recomputed.GetHash() != f.GetHash()) return "filter index: stored filter at height " + std::to_string(pi->nHeight) + " differs from the filter recomputed from block and undo data";
            if (row) {
                const UniValue& el = (*row)["elems"];
                for (size_t i = 0; i < el.size(); ++i) {
                    const CScript s = ScriptOfClass(el[i].get_str());
                    if (!f.GetFilter().Match(GCSFilter::Element(s.begin(), s.end()))) return "filter index: filter at height " + std::to_string(pi->nHeight) + " does not match element class " + el[i].get_str();
                }
            }
        }
        // ---- coin statistics index
        {
            const auto st = cst->LookUpStats(*pi);
            if (!st) return "coinstatsindex: no statistics for the active block at height " + std::to_string(pi->nHeight);
            if (row) {
                const UniValue& R = *row;
                // base-chain coinbases that carry no value are not part of the model's UTXO set but exist on the node
                std::set<int> model_base;
                for (size_t i = 0; i < g_uni["base"].size(); ++i) model_base.insert(g_uni["base"][i]["h"].getInt<int>());
                std::vector<std::pair<COutPoint, Coin>> coins;
                for (int h = 1; h <= g_base.h0; ++h) if (!model_base.count(h)) coins.emplace_back(COutPoint(g_base.cbs[h]->GetHash(), 0), Coin(g_base.cbs[h]->vout[0], h, true));
                const size_t extra = coins.size();
                const UniValue& U = R["utxo"];
                CAmount total = 0;
                for (size_t i = 0; i < U.size(); ++i) {
                    const int t = U[i]["t"].getInt<int>(), ii = U[i]["i"].getInt<int>();
                    const CTxOut out = RealOut(t, ii);
                    const CAmount want = (CAmount)U[i]["k"].getInt<int>() * 50 * COIN + U[i]["s"].getInt<int64_t>();
                    if (out.nValue != want) throw std::runtime_error("harness: value of model coin differs from the real output");
                    coins.emplace_back(RealOp(t, ii), Coin(out, U[i]["h"].getInt<int>(), U[i]["cb"].get_bool()));
                    total += out.nValue;
                }
                if ((int64_t)st->nTransactionOutputs != R["cnt"].getInt<int64_t>() + (int64_t)extra) return "coinstatsindex: UTXO count at height " + std::to_string(pi->nHeight) + " is " + std::to_string(st->nTransactionOutputs) + ", from scratch " + std::to_string(R["cnt"].getInt<int64_t>() + extra);
                const CAmount amt = (CAmount)R["k"].getInt<int>() * 50 * COIN + R["s"].getInt<int64_t>();
                if (amt != total) throw std::runtime_error("harness: model total differs from the sum of its coins");
                if (!st->total_amount || *st->total_amount != amt) return "coinstatsindex: total amount at height " + std::to_string(pi->nHeight) + " is " + (st->total_amount ? std::to_string(*st->total_amount) : "none") + ", from scratch " + std::to_string(amt);
                // MuHash from scratch, inserted in descending outpoint order (the index inserted in block order and removed spent coins)
                std::sort(coins.begin(), coins.end(), [](const auto& a, const auto& b) { return b.first < a.first; });
                MuHash3072 mu;
                for (const auto& [op, c] : coins) kernel::ApplyCoinHash(mu, op, c);
                uint256 h; mu.Finalize(h);
                if (h != st->hashSerialized) return "coinstatsindex: MuHash at height " + std::to_string(pi->nHeight) + " differs from the MuHash of the from-scratch UTXO set";
            }
        }
        return "";
    }

    // compares the indexes with the expected rows; returns "" or the first disagreement; `known` = spender disagreement in a history
    // with a restart over an uncommitted database (the known weakness of the spender index)
    std::string Check(const UniValue& exp, std::string& known)
    {
        if (!running) return "";
        const UniValue& ixo = exp["ix"];
        if (!ixo["run"].get_bool()) return "";
        Drain();
        auto& cm = w.sim->cm();
        const UniValue& rows = exp["rows"];
        for (size_t i = 0; i < rows.size(); ++i) {
            if (!rows[i]["covered"].get_bool()) continue;
            const Blk& b = w.blks.at(rows[i]["b"].getInt<int>());
            const CBlockIndex* pi = w.sim->Lookup(b.hash);
            if (!pi || !WITH_LOCK(cs_main, return cm.ActiveChain().Contains(*pi))) return "the node's active chain does not contain model block " + std::to_string(rows[i]["b"].getInt<int>());
            const std::string d = CheckBlock(pi, *b.block, &rows[i], rows[i]["clean"].get_bool(), known);
            if (!d.empty()) return d;
        }
        if (ixo["basecovered"].get_bool()) {
            for (int h : {0, 1, 2, g_base.h0 / 2, g_base.h0}) {
                const CBlockIndex* pi = WITH_LOCK(cs_main, return cm.ActiveChain()[h]);
                CBlock blk;
                if (!cm.m_blockman.ReadBlock(blk, *pi)) throw std::runtime_error("cannot read base block");
                std::string k2;
                const std::string d = CheckBlock(pi, blk, nullptr, true, k2);
                if (!d.empty()) return d;
            }
        }
        return "";
    }
    // diagnostic: what the spender index says about the model's base coins
    UniValue Probe()
    {
        UniValue o(UniValue::VARR);
        if (!running) return o;
        for (int i = 1; i <= (int)g_uni["base"].size(); ++i) {
            const auto r = spd->FindSpender(w.ops.at({0, i}));
            std::string v = !r ? "error" : !r->has_value() ? "none" : "";
            if (v.empty()) {
                int t = 0; for (size_t k = 1; k < w.txu.size(); ++k) if (w.txu[k]->GetHash() == (*r)->tx->GetHash()) t = k;
                const int b = w.ids.count((*r)->block_hash) ? w.ids.at((*r)->block_hash) : -1;
                const CBlockIndex* pi = w.sim->Lookup((*r)->block_hash);
                const bool active = pi && WITH_LOCK(cs_main, return w.sim->cm().ActiveChain().Contains(*pi));
                v = "tx" + std::to_string(t) + " in block " + std::to_string(b) + (active ? " (active)" : " (NOT in the active chain)");
            }
            o.push_back("base coin " + std::to_string(i) + ": " + v);
        }
        return o;
    }
    UniValue Summary()
    {
        UniValue o(UniValue::VOBJ);
        if (!running) return o;
        for (BaseIndex* i : All()) { const auto s = i->GetSummary(); o.pushKV(s.name, Obj({{"synced", s.synced}, {"height", s.best_block_height}})); }
        return o;
    }
};

UniValue ShortAct(const UniValue& a) { return a; }

int ReplayTests(const std::string& path)
{
    InstallAbortHandlers();
    ForEachLine(path, [&](size_t n, const UniValue& t) {
        R().cur_test = n; R().cur_step = 0; R().cur_action = UniValue::VNULL;
        IWorld iw;
        const UniValue& st = t["steps"];
        for (size_t i = 0; i < st.size(); ++i) {
            const UniValue& a = st[i]["a"]; const UniValue& exp = st[i]["exp"];
            R().cur_step = i; R().cur_action = a;
            ++R().steps;
            std::string why, known;
            try {
                const UniValue res = iw.Apply(a);
                if (std::getenv("VERIF_C21_PROBE")) { R().Info(Obj({{"kind", "info"}, {"probe", iw.Probe()}, {"after", a}, {"tip", iw.w.Project()["obs"]["tip"]}})); continue; }
                if (a[0].get_str() == "istart" && res[0].get_str() != "none") {
                    // an index refuses to start: the specification predicts this only for the block filter index after a re-creation over
                    // a database that is ahead of its locator (known finding; the other indexes carry on); anything else is a disagreement
                    if (res[0].get_str() == "init-failed:basic block filter index" && exp["ix"]["ferr"].get_bool()) {
                        R().Count("filter_init_failed_after_unclean_restart");
                        R().Info(Obj({{"kind", "info"}, {"known", "blockfilterindex Init() fails: " + res[0].get_str()}, {"key", "filterindex-init-fails-after-unclean-restart"}, {"test", (uint64_t)n}, {"step", (uint64_t)i}}));
                        iw.flt->Interrupt(); iw.flt->Stop(); iw.flt.reset(); iw.nofilter = true;
                    } else {
                        R().Mismatch(a, "index " + res[0].get_str() + " (the specification predicts err=" + exp["ix"]["err"].get_str() + ")");
                        break;
                    }
                } else if (a[0].get_str() == "istart" && exp["ix"]["ferr"].get_bool()) R().Count("diverged_init_succeeded");
                if (a[0].get_str() == "mine" && st[i].exists("r") && !st[i]["r"].isNull() && JsonDiff(st[i]["r"], res, "result") != "") { R().Count("chain_deviations"); R().Deviation(a, JsonDiff(st[i]["r"], res, "result"), iw.w.Project()); break; }
                // the chain itself must be where the model says (otherwise the behaviour is not the model's: counted, not judged here - C08/C09)
                const UniValue have = iw.w.Project();
                if (exp.exists("tip") && have["obs"]["tip"].getInt<int>() != exp["tip"].getInt<int>()) { R().Count("chain_deviations"); R().Deviation(a, "tip differs from the model", have); break; }
                why = iw.Check(exp, known);
                if (iw.running) {
                    // bookkeeping the property does not mention: synced flag and best height of each index against the model
                    const UniValue s = iw.Summary();
                    const bool msynced = exp["ix"]["synced"].get_bool();
                    for (const auto& k : s.getKeys()) if (s[k]["synced"].get_bool() != msynced) { R().Count("synced_flag_deviations"); break; }
                }
            } catch (const std::exception& e) { why = std::string("exception: ") + e.what(); }
            if (!why.empty()) { R().Mismatch(a, why); break; }
            if (!known.empty()) { R().Count("spender_after_unclean_restart"); R().Info(Obj({{"kind", "info"}, {"known", known}, {"key", "spender-index-after-unclean-restart"}, {"test", (uint64_t)n}, {"step", (uint64_t)i}})); }
            R().Count("checked_steps");
        }
        ++R().tests;
    });
    R().Summary();
    return 0;
}

// ------------------------------------------------------------------ the flat-file layer of the block filter index at its real limit
// Blocks with ~95 kB filters (one transaction spending 18000 anyone-can-spend outputs and creating 18000 new ones with distinct scripts)
// are mined until fltr0000<k>.dat exists; then every active block - and every reorged-out block - is looked up (LookupFilter,
// LookupFilterHeader, LookupFilterRange, LookupFilterHashRange) and compared with BlockFilter(block, undo) recomputed here.
// job: {rollovers, reorg, restart}
constexpr int BIG_N = 18000;
CScript BigScript(int family, int i)
{
    const std::vector<unsigned char> data{(unsigned char)(1 + (family % 200)), (unsigned char)(1 + (i >> 8)), (unsigned char)(i & 0xff)};
    return CScript() << data;
}
struct Roller {
    std::unique_ptr<ChainSim> sim{MakeSim()};
    std::unique_ptr<BlockFilterIndex> flt;
    std::vector<CTransactionRef> bigtx;          // bigtx[k] = the big transaction of the k-th big block of the active branch
    std::vector<uint256> bighash;                // hash of that block
    std::vector<uint256> stale;                  // reorged-out blocks
    CAmount value{0};
    int family{0};

    void Drain() { sim->m_node.validation_signals->SyncWithValidationInterfaceQueue(); }
    void Start()
    {
        flt = std::make_unique<BlockFilterIndex>(interfaces::MakeChain(sim->m_node), BlockFilterType::BASIC, 1 << 20, /*f_memory=*/false);
        if (!flt->Init()) throw std::runtime_error("block filter index Init failed");
        flt->Sync(); Drain();
    }
    void Stop() { Drain(); flt->Interrupt(); flt->Stop(); flt.reset(); }
    bool FileExists(int k) { return fs::exists(sim->m_args.GetDataDirNet() / "indexes" / "blockfilter" / "basic" / fs::u8path(strprintf("fltr%05u.dat", k))); }
    CTransactionRef NextTx(const CTransactionRef& prev)
    {
        CMutableTransaction m;
        m.vin.reserve(BIG_N);
        for (int i = 0; i < BIG_N; ++i) m.vin.emplace_back(COutPoint(prev->GetHash(), i));
        m.vout.reserve(BIG_N);
        ++family;
        for (int i = 0; i < BIG_N; ++i) m.vout.emplace_back(value, BigScript(family, i));
        return MakeTransactionRef(m);
    }
    void MineBig(const CTransactionRef& tx)
    {
        CBlockIndex* tip = sim->Tip();
        ChainSim::BlockSpec bs; bs.prev = tip->GetBlockHash(); bs.height = tip->nHeight + 1; bs.time = tip->GetBlockTime() + 1;
        bs.cb_value = GetBlockSubsidy(bs.height, sim->consensus()); bs.txs = {tx}; bs.extra_nonce = family;
        auto b = sim->BuildBlock(bs);
        auto [r, nb] = sim->SubmitBlock(b, true);
        if (!r || sim->Tip()->GetBlockHash() != b->GetHash()) throw std::runtime_error("big block not connected: " + sim->Reason(b->GetHash()));
        bigtx.push_back(tx); bighash.push_back(b->GetHash());
        Drain();
        if (!flt->BlockUntilSyncedToCurrentChain()) throw std::runtime_error("filter index not synced");
    }
    void Fund()
    {
        auto cbs = sim->MineBase(101);
        value = cbs[0]->vout[0].nValue / BIG_N;
        CMutableTransaction m;
        m.vin.emplace_back(COutPoint(cbs[0]->GetHash(), 0));
        for (int i = 0; i < BIG_N; ++i) m.vout.emplace_back(value, BigScript(family, i));
        sim->SignP2PK(m, 0, cbs[0]->vout[0]);
        first = MakeTransactionRef(m);
    }
    CTransactionRef first;
    BlockFilter Recompute(const CBlockIndex* pi)
    {
        CBlock block; CBlockUndo undo;
        if (!sim->cm().m_blockman.ReadBlock(block, *pi)) throw std::runtime_error("cannot read block");
        if (pi->nHeight > 0 && !sim->cm().m_blockman.ReadBlockUndo(undo, *pi)) throw std::runtime_error("cannot read undo");
        return BlockFilter(BlockFilterType::BASIC, block, undo);
    }
    // "" or the first disagreement between the index and the recomputation
    std::string CheckAll()
    {
        Drain();
        auto& cm = sim->cm();
        const int tiph = WITH_LOCK(cs_main, return cm.ActiveChain().Height());
        std::vector<BlockFilter> want;
        uint256 prev_header;
        for (int h = 0; h <= tiph; ++h) {
            const CBlockIndex* pi = WITH_LOCK(cs_main, return cm.ActiveChain()[h]);
            want.push_back(Recompute(pi));
            const uint256 hdr = want.back().ComputeHeader(prev_header); prev_header = hdr;
            BlockFilter got; uint256 got_hdr;
            if (!flt->LookupFilter(pi, got)) return "LookupFilter fails for the active block at height " + std::to_string(h);
            if (got.GetBlockHash() != pi->GetBlockHash() || got.GetEncodedFilter() != want.back().GetEncodedFilter()) return "LookupFilter returns a wrong filter for the active block at height " + std::to_string(h);
            if (!flt->LookupFilterHeader(pi, got_hdr) || got_hdr != hdr) return "filter header at height " + std::to_string(h) + " missing or not chained from the recomputed filters";
        }
        const CBlockIndex* tip = WITH_LOCK(cs_main, return cm.ActiveChain().Tip());
        std::vector<BlockFilter> range; std::vector<uint256> hashes;
        if (!flt->LookupFilterRange(0, tip, range) || range.size() != want.size()) return "LookupFilterRange(0, tip) fails";
        for (size_t i = 0; i < want.size(); ++i) if (range[i].GetEncodedFilter() != want[i].GetEncodedFilter()) return "LookupFilterRange returns a wrong filter at height " + std::to_string(i);
        if (!flt->LookupFilterHashRange(0, tip, hashes) || hashes.size() != want.size()) return "LookupFilterHashRange(0, tip) fails";
        for (size_t i = 0; i < want.size(); ++i) if (hashes[i] != want[i].GetHash()) return "LookupFilterHashRange returns a wrong hash at height " + std::to_string(i);
        for (const auto& h : stale) {
            const CBlockIndex* pi = sim->Lookup(h);
            BlockFilter got;
            if (!flt->LookupFilter(pi, got)) return "LookupFilter fails for the reorged-out block at height " + std::to_string(pi->nHeight) + " (by-hash entry)";
            if (got.GetEncodedFilter() != Recompute(pi).GetEncodedFilter()) return "LookupFilter returns a wrong filter for the reorged-out block at height " + std::to_string(pi->nHeight);
        }
        R().Count("filter_lookups_compared", (int64_t)want.size() + (int64_t)stale.size());
        return "";
    }
};

int Rollover(const std::string& path)
{
    InstallAbortHandlers();
    ForEachLine(path, [&](size_t n, const UniValue& job) {
        R().cur_test = n; R().cur_step = 0; R().cur_action = job;
        std::string why;
        try {
            Roller r;
            r.Fund();
            r.Start();
            CTransactionRef tx = r.first;
            const int rollovers = job["rollovers"].getInt<int>();
            for (int k = 1; k <= rollovers && why.empty(); ++k) {
                int after = 0;
                for (int guard = 0; guard < 400 && after < 3; ++guard) {
                    r.MineBig(tx); ++R().steps;
                    tx = r.NextTx(r.bigtx.back());
                    if (r.FileExists(k)) ++after;
                }
                if (!r.FileExists(k)) throw std::runtime_error("the filter file never rolled over");
                R().Count("rollovers");
                R().cur_step = k * 10;
                why = r.CheckAll();
                if (why.empty() && job["reorg"].get_bool()) {
                    // reorg across the roll-over: the last four big blocks (the first filter of the new file among them) are replaced
                    const size_t keep = r.bigtx.size() - 4;
                    for (size_t i = keep; i < r.bighash.size(); ++i) r.stale.push_back(r.bighash[i]);
                    r.sim->Invalidate(r.bighash[keep]);
                    r.Drain();
                    r.bigtx.resize(keep); r.bighash.resize(keep);
                    r.family += 50;
                    tx = r.NextTx(r.bigtx.back());
                    for (int i = 0; i < 5; ++i) { r.MineBig(tx); ++R().steps; tx = r.NextTx(r.bigtx.back()); }
                    R().Count("reorgs_across_rollover");
                    R().cur_step = k * 10 + 1;
                    why = r.CheckAll();
                }
                if (why.empty() && job["restart"].get_bool()) {
                    r.sim->cm().ActiveChainstate().ForceFlushStateToDisk();
                    r.Stop(); r.Start();
                    for (int i = 0; i < 2; ++i) { r.MineBig(tx); ++R().steps; tx = r.NextTx(r.bigtx.back()); }
                    R().Count("restarts_after_rollover");
                    R().cur_step = k * 10 + 2;
                    why = r.CheckAll();
                }
            }
            r.Stop();
        } catch (const std::exception& e) { why = std::string("exception: ") + e.what(); }
        if (!why.empty()) R().Mismatch(job, why);
        ++R().tests;
    });
    R().Summary();
    return 0;
}
} // namespace

int main(int argc, char** argv)
{
    if (argc < 4) { std::cerr << "usage: indexes replay <tests> <universe.json>\n"; return 2; }
    { std::ifstream f(argv[3]); std::stringstream ss; ss << f.rdbuf(); if (!g_uni.read(ss.str())) { std::cerr << "bad universe\n"; return 2; } }
    if (std::string(argv[1]) == "replay") return ReplayTests(argv[2]);
    if (std::string(argv[1]) == "rollover") return Rollover(argv[2]);
    return 2;
}
