// Adapter for specs/Prune (C19): replays model behaviours on an in-process regtest node in prune mode.
//   replay <tests> [fast=0|1] [target=<bytes>|manual] [sizes=s:300,m:4000,...]
// A test is {init, steps:[{a, r, exp}]}; actions (specs/Prune/Prune.tla):
//   ["connect", n, c]   n blocks of size class c (exact serialized size) on the tip
//   ["reorg", d, c]     a fork of d + 1 blocks from height tip - d
//   ["swap", c]         the headers of the next two blocks, then the body of the second, then the body of the first (stored out of height order)
//   ["manual", h]       PruneBlockFilesManual(h)
//   ["auto"]            Chainstate::PruneAndFlush()
//   ["lock", name, h]   BlockManager::UpdatePruneLock(name, {h});   ["unlock", name]  DeletePruneLock(name)
// After every step the projection (tip, file infos, per file: unlinked on disk / blocks with data / with undo, prune locks, usage)
// is compared with the model's. The first difference is reported as a deviation (a prune lock that is HIGHER than the model's is a
// mismatch: it protects less than a lock that was moved back on a reorg); the behaviour is then played to its end without
// comparison. Independently of the model, every prune event seen on the node is printed as an observation line
// ({"kind":"trace","obs":{...}}) that TLC judges against the clauses of the property (specs/Prune/PruneObs.tla).
// chainsim.h has no switch for BlockManager::Options::fast_prune: PruneSim replaces the fixture's m_make_chainman (a copy of
// chainsim's with that one field added) before the chainstate is loaded.
#include <chainsim.h>
#include <node/blockstorage.h>
using namespace vfh;

namespace {
// read-only access to BlockManager::m_prune_locks (private), the way harness/adapters/headerssync.cpp reads private fields
template <typename Tag, typename Tag::type M> struct Rob { friend typename Tag::type Get(Tag) { return M; } };
struct LocksTag { using type = std::unordered_map<std::string, node::PruneLockInfo> node::BlockManager::*; friend type Get(LocksTag); };
template struct Rob<LocksTag, &node::BlockManager::m_prune_locks>;

bool g_fast = true;
uint64_t g_target = node::BlockManager::PRUNE_TARGET_MANUAL;
std::map<std::string, size_t> g_sizes{{"s", 300}, {"m", 4000}, {"l", 30000}, {"x", 70000}, {"M", 1000000}};

SimOptions Deferred(SimOptions o) { o.defer_load = true; return o; }

class PruneSim : public ChainSim
{
public:
    PruneSim(const SimOptions& o, bool fast, uint64_t target) : ChainSim(Deferred(o))
    {
        const CChainParams& chainparams = Params();
        m_make_chainman = [this, &chainparams, fast, target] {
            Assert(!m_node.chainman);
            ChainstateManager::Options chainman_opts{
                .chainparams = chainparams,
                .datadir = m_args.GetDataDirNet(),
                .check_block_index = 1,
                .notifications = *m_node.notifications,
                .signals = m_node.validation_signals.get(),
            };
            node::BlockManager::Options blockman_opts{
                .chainparams = chainman_opts.chainparams,
                .blocks_dir = m_args.GetBlocksDirPath(),
                .notifications = chainman_opts.notifications,
                .block_tree_db_params = DBParams{
                    .path = m_args.GetDataDirNet() / "blocks" / "index",
                    .cache_bytes = m_kernel_cache_sizes.block_tree_db,
                    .memory_only = true,
                },
            };
            blockman_opts.prune_target = target;
            blockman_opts.fast_prune = fast;
            m_node.chainman = std::make_unique<ChainstateManager>(*Assert(m_node.shutdown_signal), chainman_opts, blockman_opts);
        };
        const std::string err = TryLoad();
        if (!err.empty()) throw std::runtime_error("cannot load the chainstate: " + err);
        BlockValidationState st;
        if (!cm().ActiveChainstate().ActivateBestChain(st)) throw std::runtime_error("ActivateBestChain failed");
    }
};

struct FileInfo { int64_t size, undo, nb, hf, hl; bool on_disk; };
struct Blk { uint256 hash; int height; int file; };

struct World {
    std::unique_ptr<PruneSim> sim;
    std::vector<Blk> blks;                         // index = model id - 1
    int64_t nonce{0};
    std::vector<std::string> lock_names{"a", "b"};

    World()
    {
        SimOptions o; o.prune = true; o.prune_target = g_target;
        o.args.push_back("-fastprune");   // chain parameter only (PruneAfterHeight = 100); the block-file geometry is the fast= argument
        sim = std::make_unique<PruneSim>(o, g_fast, g_target);
        if (!sim->cm().m_blockman.IsPruneMode()) throw std::runtime_error("node is not in prune mode");
    }
    node::BlockManager& bm() { return sim->cm().m_blockman; }

    std::vector<FileInfo> Files(bool with_disk = true)
    {
        LOCK(cs_main);
        std::vector<FileInfo> v;
        for (int f = 0;; ++f) {
            node::CBlockFileInfo* fi = nullptr;
            try { fi = bm().GetBlockFileInfo(f); } catch (const std::out_of_range&) { break; }
            const bool blk = with_disk ? fs::exists(bm().GetBlockPosFilename(FlatFilePos(f, 0))) : fi->nSize > 0;
            v.push_back({(int64_t)fi->nSize, (int64_t)fi->nUndoSize, (int64_t)fi->nBlocks, (int64_t)fi->nHeightFirst, (int64_t)fi->nHeightLast, blk});
        }
        return v;
    }
    // rev file of f on disk?
    bool UndoOnDisk(int f)
    {
        fs::path p = bm().GetBlockPosFilename(FlatFilePos(f, 0));
        std::string name = fs::PathToString(p.filename());
        name.replace(0, 3, "rev");
        return fs::exists(p.parent_path() / fs::PathFromString(name));
    }
    std::map<std::string, int> Locks()
    {
        LOCK(cs_main);
        std::map<std::string, int> m;
        for (const auto& [k, v] : bm().*Get(LocksTag{})) m[k] = v.height_first;
        return m;
    }
    // per original file: heights of the blocks stored there (genesis in file 0)
    std::map<int, std::vector<int>> HeightsByFile()
    {
        std::map<int, std::vector<int>> m;
        m[0].push_back(0);
        for (const auto& b : blks) m[b.file].push_back(b.height);
        return m;
    }
    struct Flags { std::map<int, int> data, undo; std::set<int> lost; };
    Flags BlockFlags()
    {
        LOCK(cs_main);
        Flags fl;
        for (const auto& b : blks) {
            const CBlockIndex* pi = bm().LookupBlockIndex(b.hash);
            if (pi && (pi->nStatus & BLOCK_HAVE_DATA)) ++fl.data[b.file]; else fl.lost.insert(b.file);
            if (pi && (pi->nStatus & BLOCK_HAVE_UNDO)) ++fl.undo[b.file];
        }
        return fl;
    }

    std::shared_ptr<CBlock> Build(const uint256& prev, int height, int64_t time, const std::string& cls)
    {
        const size_t want = g_sizes.at(cls);
        ChainSim::BlockSpec s; s.prev = prev; s.height = height; s.time = time; s.extra_nonce = ++nonce; s.cb_value = 0;
        size_t pad = 0;
        std::shared_ptr<CBlock> b;
        for (int iter = 0; iter < 6; ++iter) {
            s.cb_spk = CScript() << OP_RETURN; s.cb_spk.insert(s.cb_spk.end(), pad, (unsigned char)OP_NOP);
            b = sim->BuildBlock(s);
            const size_t have = ::GetSerializeSize(TX_WITH_WITNESS(*b));
            if (have == want) return b;
            if (have > want + pad) throw std::runtime_error("size class " + cls + " is smaller than an empty block");
            pad = pad + want - have;
        }
        throw std::runtime_error("cannot realise size class " + cls);
    }

    std::vector<UniValue> observations;
    static UniValue FilesJson(const std::vector<FileInfo>& v)
    {
        UniValue a(UniValue::VARR);
        for (const auto& f : v) a.push_back(Obj({{"size", f.size}, {"undo", f.undo}, {"nb", f.nb}, {"hf", f.hf}, {"hl", f.hl}}));
        return a;
    }
    // compares the file state before / after an operation; emits an observation if something was pruned (or always, for explicit calls)
    void Observe(const std::string& kind, bool explicit_call, const std::vector<FileInfo>& before, int64_t usage0, const std::map<std::string, int>& locks0,
                 const std::map<int, std::vector<int>>& heights0, const std::set<int>& lost0, int req)
    {
        const auto after = Files();
        const auto fl = BlockFlags();
        std::set<int> pruned;
        for (size_t f = 0; f < before.size(); ++f) {
            if (before[f].size > 0 && after[f].size == 0) pruned.insert(f);
            if (before[f].on_disk && !after[f].on_disk) pruned.insert(f);
        }
        for (int f : fl.lost) if (!lost0.count(f)) pruned.insert(f);
        if (pruned.empty() && !explicit_call) return;
        int tip; int64_t usage1;
        { LOCK(cs_main); tip = sim->cm().ActiveChain().Height(); usage1 = bm().CalculateCurrentUsage(); }
        UniValue lk(UniValue::VARR); for (const auto& [k, v] : locks0) if (v != std::numeric_limits<int>::max()) lk.push_back(v);
        UniValue hs(UniValue::VARR);
        for (size_t f = 0; f < before.size(); ++f) { UniValue a(UniValue::VARR); auto it = heights0.find(f); if (it != heights0.end()) for (int h : it->second) a.push_back(h); hs.push_back(a); }
        UniValue pr(UniValue::VARR); for (int f : pruned) pr.push_back(f);
        const uint64_t eff_target = std::max<uint64_t>(MIN_DISK_SPACE_FOR_BLOCK_FILES, g_target);
        UniValue o = Obj({{"kind", kind}, {"explicit", explicit_call}, {"tip", tip}, {"locks", lk}, {"req", req}, {"pruned", pr}, {"heights", hs},
                          {"after", FilesJson(after)}, {"usage0", usage0}, {"usage1", usage1},
                          {"target", (int64_t)std::min<uint64_t>(eff_target, 2000000000ULL)}});
        R().Info(Obj({{"kind", "trace"}, {"test", (uint64_t)R().cur_test}, {"step", (uint64_t)R().cur_step}, {"action", R().cur_action}, {"obs", o}}));
        R().Count("observations"); if (!pruned.empty()) R().Count("prune_events"); R().Count("files_pruned", pruned.size());
    }
    // the file infos next to the heights of the blocks stored in each file (judged: every file info covers its blocks)
    void ObserveFiles()
    {
        const auto files = Files(/*with_disk=*/false);
        const auto heights = HeightsByFile();
        int tip; int64_t usage;
        { LOCK(cs_main); tip = sim->cm().ActiveChain().Height(); usage = bm().CalculateCurrentUsage(); }
        UniValue hs(UniValue::VARR);
        for (size_t f = 0; f < files.size(); ++f) { UniValue a(UniValue::VARR); auto it = heights.find(f); if (it != heights.end()) for (int h : it->second) a.push_back(h); hs.push_back(a); }
        UniValue o = Obj({{"kind", "files"}, {"explicit", false}, {"tip", tip}, {"locks", UniValue(UniValue::VARR)}, {"req", 0}, {"pruned", UniValue(UniValue::VARR)}, {"heights", hs},
                          {"after", FilesJson(files)}, {"usage0", usage}, {"usage1", usage}, {"target", (int64_t)2000000000}});
        R().Info(Obj({{"kind", "trace"}, {"test", (uint64_t)R().cur_test}, {"step", (uint64_t)R().cur_step}, {"action", R().cur_action}, {"obs", o}}));
        R().Count("file_info_observations");
    }
    struct Snap { std::vector<FileInfo> files; int64_t usage; std::map<std::string, int> locks; std::map<int, std::vector<int>> heights; std::set<int> lost; };
    Snap Snapshot()
    {
        Snap s; s.files = Files(); s.locks = Locks(); s.heights = HeightsByFile(); s.lost = BlockFlags().lost;
        { LOCK(cs_main); s.usage = bm().CalculateCurrentUsage(); }
        return s;
    }
    // light snapshot for the per-block check while connecting (the heavy parts are only computed if a file disappeared)
    void SubmitObserved(const std::shared_ptr<CBlock>& b, int height, Snap& snap)
    {
        sim->SubmitBlock(b, true);
        int file;
        { LOCK(cs_main); const CBlockIndex* pi = bm().LookupBlockIndex(b->GetHash()); if (!pi || !(pi->nStatus & BLOCK_HAVE_DATA)) throw std::runtime_error("block was not stored"); file = pi->nFile; }
        blks.push_back({b->GetHash(), height, file});
        const auto now = Files(/*with_disk=*/false);
        bool changed = false;
        for (size_t f = 0; f < snap.files.size(); ++f) if (snap.files[f].size > 0 && now[f].size == 0) changed = true;
        if (changed) { Observe("auto", false, snap.files, snap.usage, snap.locks, snap.heights, snap.lost, 0); snap = Snapshot(); }
        else {
            for (size_t f = 0; f < now.size(); ++f) { const bool disk = f < snap.files.size() ? snap.files[f].on_disk : true; if (f < snap.files.size()) snap.files[f] = now[f]; else snap.files.push_back(now[f]); snap.files[f].on_disk = disk; }
            snap.heights[file].push_back(height); LOCK(cs_main); snap.usage = bm().CalculateCurrentUsage();
        }
    }

    UniValue Apply(const UniValue& a)
    {
        const std::string op = a[0].get_str();
        UniValue res(UniValue::VARR);
        if (op == "connect") {
            const int n = a[1].getInt<int>(); const std::string cls = a[2].get_str();
            Snap snap = Snapshot();
            for (int i = 0; i < n; ++i) {
                CBlockIndex* tip = sim->Tip();
                auto b = Build(tip->GetBlockHash(), tip->nHeight + 1, tip->GetBlockTime() + 1, cls);
                SubmitObserved(b, tip->nHeight + 1, snap);
                if (sim->Tip()->GetBlockHash() != b->GetHash()) throw std::runtime_error("block not connected: " + sim->Reason(b->GetHash()));
            }
        } else if (op == "reorg") {
            const int d = a[1].getInt<int>(); const std::string cls = a[2].get_str();
            Snap snap = Snapshot();
            const CBlockIndex* fork;
            { LOCK(cs_main); fork = sim->cm().ActiveChain()[sim->cm().ActiveChain().Height() - d]; }
            if (!fork) throw std::runtime_error("reorg deeper than the chain");
            uint256 prev = fork->GetBlockHash(); int h = fork->nHeight; int64_t t = fork->GetBlockTime();
            for (int i = 0; i < d + 1; ++i) {
                auto b = Build(prev, ++h, ++t, cls);
                SubmitObserved(b, h, snap);
                prev = b->GetHash();
            }
            if (sim->Tip()->GetBlockHash() != prev) throw std::runtime_error("the fork did not become the active chain");
        } else if (op == "swap") {
            const std::string cls = a[1].get_str();
            Snap snap = Snapshot();
            CBlockIndex* tip = sim->Tip();
            auto b1 = Build(tip->GetBlockHash(), tip->nHeight + 1, tip->GetBlockTime() + 1, cls);
            auto b2 = Build(b1->GetHash(), tip->nHeight + 2, tip->GetBlockTime() + 2, cls);
            for (const auto& b : {b1, b2}) { BlockValidationState st; if (!sim->SubmitHeader(static_cast<const CBlockHeader&>(*b), st)) throw std::runtime_error("header rejected: " + st.ToString()); }
            SubmitObserved(b2, tip->nHeight + 2, snap);
            if (sim->Tip() != tip) throw std::runtime_error("the second block was connected before the first was delivered");
            SubmitObserved(b1, tip->nHeight + 1, snap);
            if (sim->Tip()->GetBlockHash() != b2->GetHash()) throw std::runtime_error("the swapped pair was not connected: " + sim->Reason(b2->GetHash()));
        } else if (op == "manual" || op == "auto") {
            const Snap snap = Snapshot();
            const int req = op == "manual" ? a[1].getInt<int>() : 0;
            if (op == "manual") PruneBlockFilesManual(sim->cm().ActiveChainstate(), req);
            else sim->cm().ActiveChainstate().PruneAndFlush();
            Observe(op, true, snap.files, snap.usage, snap.locks, snap.heights, snap.lost, req);
        } else if (op == "lock") {
            LOCK(cs_main); node::PruneLockInfo li; li.height_first = a[2].getInt<int>(); bm().UpdatePruneLock(a[1].get_str(), li);
        } else if (op == "unlock") {
            LOCK(cs_main); bm().DeletePruneLock(a[1].get_str());
        } else throw std::runtime_error("unknown op " + op);
        if (op == "connect" || op == "reorg" || op == "swap") ObserveFiles();
        return res;
    }

    UniValue Project()
    {
        const auto files = Files();
        const auto fl = BlockFlags();
        const auto locks = Locks();
        UniValue fs_(UniValue::VARR);
        for (size_t f = 0; f < files.size(); ++f) {
            const bool any_disk = files[f].on_disk || UndoOnDisk(f);
            fs_.push_back(Obj({{"gone", !any_disk}, {"data", fl.data.count(f) ? fl.data.at(f) : 0}, {"undo", fl.undo.count(f) ? fl.undo.at(f) : 0}}));
        }
        UniValue lk(UniValue::VOBJ);
        for (const auto& n : lock_names) { auto it = locks.find(n); lk.pushKV(n, it == locks.end() || it->second == std::numeric_limits<int>::max() ? -1 : it->second); }
        int tip; int64_t usage;
        { LOCK(cs_main); tip = sim->cm().ActiveChain().Height(); usage = bm().CalculateCurrentUsage(); }
        return Obj({{"tip", tip}, {"nblocks", (int64_t)blks.size()}, {"files", FilesJson(files)}, {"fstat", fs_}, {"locks", lk}, {"usage", usage}});
    }
};

int ReplayLoop(const std::string& path)
{
    InstallAbortHandlers();
    ForEachLine(path, [&](size_t n, const UniValue& t) {
        R().cur_test = n; R().cur_step = 0; R().cur_action = UniValue::VNULL;
        std::unique_ptr<World> w;
        try { w = std::make_unique<World>(); } catch (const std::exception& e) { R().Mismatch(UniValue::VNULL, std::string("cannot build the node: ") + e.what()); ++R().tests; return; }
        const UniValue& st = t["steps"];
        bool diverged = false;
        for (size_t i = 0; i < st.size(); ++i) {
            R().cur_step = i; R().cur_action = st[i]["a"];
            try { w->Apply(st[i]["a"]); }
            catch (const std::exception& e) {
                // after a divergence the remaining actions may be inapplicable (e.g. not enough blocks): stop quietly
                if (!diverged) R().Mismatch(st[i]["a"], std::string("exception: ") + e.what());
                break;
            }
            ++R().steps;
            if (diverged || !st[i].exists("exp") || st[i]["exp"].isNull()) continue;
            const UniValue have = w->Project();
            const UniValue& exp = st[i]["exp"];
            // a lock the node left higher than the model's protects less than the property demands
            bool lock_high = false; std::string lock_why;
            for (const auto& name : exp["locks"].getKeys()) {
                const int e = exp["locks"][name].getInt<int>(), h = have["locks"][name].getInt<int>();
                if (e >= 0 && (h > e || h < 0)) { lock_high = true; lock_why = "prune lock " + name + " is at " + std::to_string(h) + ", the specification moved it back to " + std::to_string(e); }
            }
            if (lock_high) { R().Mismatch(st[i]["a"], lock_why); diverged = true; continue; }
            const std::string d = JsonDiff(exp, have, "state");
            if (!d.empty()) { R().Deviation(st[i]["a"], d, Obj({{"tip", have["tip"]}, {"fstat", have["fstat"]}, {"locks", have["locks"]}})); diverged = true; }
        }
        ++R().tests;
        w.reset();
    });
    R().Summary();
    return 0;
}
} // namespace

int main(int argc, char** argv)
{
    if (argc < 3) return 2;
    for (int i = 3; i < argc; ++i) {
        const std::string a = argv[i];
        if (a.rfind("fast=", 0) == 0) g_fast = a.substr(5) != "0";
        if (a.rfind("target=", 0) == 0) g_target = a.substr(7) == "manual" ? node::BlockManager::PRUNE_TARGET_MANUAL : std::stoull(a.substr(7));
    }
    if (std::string(argv[1]) == "replay") return ReplayLoop(argv[2]);
    return 2;
}
