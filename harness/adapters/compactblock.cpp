// C38 adapter: replays the rows of the CompactBlock oracle table (specs/CompactBlock/MCCompactBlock.tla) on the real
// PartiallyDownloadedBlock (src/blockencodings.cpp) with the real IsBlockMutated (src/validation.cpp).
//
//   compactblock table <rows.ndjson>
//
// A row names a committed block (list of universe transactions, coinbase first, with or without witness commitment), an
// announcement (header null or not, short ids by representative transaction, prefilled transactions with differential
// indexes), a mempool and an extra pool (sequences), a blocktxn answer and the outcome the specification computes.
// The universe: a / a2 are twins (same txid, different witness), b c x without witness, d y with witness, "null" the empty tx;
// as / ds / ys are the witness-stripped forms of a|a2 / d / y and "cbs" is the coinbase without its witness reserved value.
// Short-id collisions are realised the way src/test/blockencodings_tests.cpp does: an entry of the extra pool - and here also
// of the mempool's public wtxid index txns_randomized - is keyed with the wtxid of the representative of its collision class.
//
// Verdict (C38 is a SAFE-mode property): a mismatch is reported only if the code returns READ_STATUS_OK with a block that is
// not exactly the committed one (transactions by wtxid, header hash, merkle root, IsBlockMutated). Every other difference
// to the row (status, available positions) is counted as a divergence: "conservative" (code refuses where the model accepts),
// "liberal" (code accepts the right block where the model refuses) or "other".
#include <vfh.h>

#include <blockencodings.h>
#include <consensus/merkle.h>
#include <consensus/validation.h>
#include <hash.h>
#include <primitives/block.h>
#include <primitives/transaction.h>
#include <script/script.h>
#include <test/util/setup_common.h>
#include <test/util/txmempool.h>
#include <txmempool.h>
#include <util/chaintype.h>
#include <validation.h>

#include <map>

using namespace vfh;

namespace {
const TestingSetup* g_setup{nullptr};

struct Forge : CBlockHeaderAndShortTxIDs {
    Forge(const CBlock& b, uint64_t nonce) : CBlockHeaderAndShortTxIDs(b, nonce) {}
    std::vector<uint64_t>& S() { return shorttxids; }
    std::vector<PrefilledTransaction>& P() { return prefilledtxn; }
};
struct PDB : PartiallyDownloadedBlock {
    using PartiallyDownloadedBlock::PartiallyDownloadedBlock;
    const std::vector<CTransactionRef>& Avail() const { return txn_available; }
};

std::map<std::string, CTransactionRef> g_tx;      // the non-coinbase universe
std::map<uint256, std::string> g_name;            // wtxid -> name

CTransactionRef MakeTx(int id, int w)
{
    CMutableTransaction m;
    m.version = 2;
    m.vin.resize(1);
    m.vin[0].prevout = COutPoint{Txid::FromUint256(uint256{uint8_t(0x40 + id)}), 0};
    m.vin[0].nSequence = 0xfffffffe;
    if (w) m.vin[0].scriptWitness.stack = {{uint8_t(w)}, {0x51}};
    m.vout.resize(1);
    m.vout[0].nValue = 1000 + id;
    m.vout[0].scriptPubKey = CScript() << OP_TRUE;
    return MakeTransactionRef(m);
}
void BuildUniverse()
{
    g_tx["a"] = MakeTx(1, 1); g_tx["a2"] = MakeTx(1, 2); g_tx["b"] = MakeTx(2, 0); g_tx["c"] = MakeTx(3, 0);
    g_tx["d"] = MakeTx(4, 1); g_tx["x"] = MakeTx(5, 0); g_tx["y"] = MakeTx(6, 1);
    // witness-stripped forms: same txid, no witness
    g_tx["as"] = MakeTx(1, 0); g_tx["ds"] = MakeTx(4, 0); g_tx["ys"] = MakeTx(6, 0);
    assert(g_tx["as"]->GetHash() == g_tx["a"]->GetHash() && !g_tx["as"]->HasWitness() && g_tx["ds"]->GetHash() == g_tx["d"]->GetHash());
    g_tx["null"] = MakeTransactionRef(CMutableTransaction{});
    assert(g_tx["a"]->GetHash() == g_tx["a2"]->GetHash() && g_tx["a"]->GetWitnessHash() != g_tx["a2"]->GetWitnessHash());
    assert(g_tx["null"]->IsNull());
    for (auto& [n, t] : g_tx) g_name[t->GetWitnessHash().ToUint256()] = n;
}

// the committed block: coinbase (with a correct witness commitment if asked for) + the named transactions
CBlock BuildBlock(const UniValue& blk, bool commit)
{
    CBlock block;
    block.nVersion = 0x20000000; block.hashPrevBlock = uint256{7}; block.nTime = 1700000000; block.nBits = 0x207fffff; block.nNonce = 5;
    CMutableTransaction cb;
    cb.version = 2; cb.vin.resize(1); cb.vin[0].prevout.SetNull(); cb.vin[0].scriptSig = CScript() << 500 << OP_0;
    cb.vout.resize(1); cb.vout[0].nValue = 50 * COIN; cb.vout[0].scriptPubKey = CScript() << OP_TRUE;
    block.vtx.push_back(MakeTransactionRef(cb));
    for (size_t i = 1; i < blk.size(); ++i) block.vtx.push_back(g_tx.at(blk[i].get_str()));
    if (commit) {
        const std::vector<unsigned char> nonce(32, 0x00);
        uint256 root = BlockWitnessMerkleRoot(block);
        CHash256().Write(root).Write(nonce).Finalize(root);
        CTxOut out; out.nValue = 0;
        out.scriptPubKey.resize(MINIMUM_WITNESS_COMMITMENT);
        out.scriptPubKey[0] = OP_RETURN; out.scriptPubKey[1] = 0x24; out.scriptPubKey[2] = 0xaa; out.scriptPubKey[3] = 0x21; out.scriptPubKey[4] = 0xa9; out.scriptPubKey[5] = 0xed;
        std::memcpy(&out.scriptPubKey[6], root.begin(), 32);
        cb.vout.push_back(out);
        cb.vin[0].scriptWitness.stack = {nonce};
        block.vtx[0] = MakeTransactionRef(cb);
    }
    block.hashMerkleRoot = BlockMerkleRoot(block);
    return block;
}

const char* St(ReadStatus s) { return s == READ_STATUS_OK ? "OK" : s == READ_STATUS_INVALID ? "INVALID" : "FAILED"; }

// the block's coinbase without its witness (the witness reserved value); identical to the coinbase if that has none
CTransactionRef StrippedCoinbase(const CBlock& block)
{
    CMutableTransaction m{*block.vtx[0]};
    m.vin[0].scriptWitness.SetNull();
    return MakeTransactionRef(m);
}
std::string NameOf(const CTransactionRef& t, const CBlock& block)
{
    if (!t) return "none";
    if (t->GetWitnessHash() == block.vtx[0]->GetWitnessHash()) return "cb";
    if (t->GetHash() == block.vtx[0]->GetHash()) return "cbs";
    auto it = g_name.find(t->GetWitnessHash().ToUint256());
    return it == g_name.end() ? "?" + t->GetWitnessHash().ToString().substr(0, 8) : it->second;
}
CTransactionRef TxOf(const std::string& n, const CBlock& block) { return n == "cb" ? block.vtx[0] : n == "cbs" ? StrippedCoinbase(block) : g_tx.at(n); }

// "" if `got` is exactly the committed block, otherwise what differs
std::string SameBlock(const CBlock& got, const CBlock& block, bool segwit)
{
    if (got.GetHash() != block.GetHash()) return "header differs from the announced one";
    if (got.vtx.size() != block.vtx.size()) return "transaction count " + std::to_string(got.vtx.size()) + " instead of " + std::to_string(block.vtx.size());
    for (size_t i = 0; i < got.vtx.size(); ++i) {
        if (!got.vtx[i]) return "null transaction at position " + std::to_string(i);
        if (got.vtx[i]->GetWitnessHash() != block.vtx[i]->GetWitnessHash())
            return "position " + std::to_string(i) + " holds " + NameOf(got.vtx[i], block) + " instead of " + NameOf(block.vtx[i], block);
    }
    bool mutated = false;
    if (BlockMerkleRoot(got, &mutated) != block.hashMerkleRoot || mutated) return "merkle root differs / mutated";
    CBlock fresh; fresh = static_cast<const CBlockHeader&>(got); fresh.vtx = got.vtx;     // no cached "already checked" flags
    if (IsBlockMutated(fresh, segwit)) return "IsBlockMutated says mutated";
    return "";
}

std::string CheckRow(const UniValue& row)
{
    const bool commit = row["commit"].get_bool(), segwit = row["segwit"].get_bool();
    const CBlock block = BuildBlock(row["blk"], commit);
    const UniValue& keys = row["keys"];
    auto key_of = [&](const std::string& n) { return TxOf(keys[n].get_str(), block)->GetWitnessHash(); };

    // ---- the announcement
    CBlock hdr_only; hdr_only = static_cast<const CBlockHeader&>(block); hdr_only.vtx = {block.vtx[0]};
    Forge ann{hdr_only, /*nonce=*/0x1234567890abcdefULL};
    ann.S().clear(); ann.P().clear();
    const UniValue& A = row["ann"];
    for (size_t i = 0; i < A["sids"].size(); ++i) ann.S().push_back(ann.GetShortID(TxOf(A["sids"][i].get_str(), block)->GetWitnessHash()));
    for (size_t i = 0; i < A["pre"].size(); ++i) ann.P().push_back({uint16_t(A["pre"][i]["idx"].getInt<int>()), TxOf(A["pre"][i]["tx"].get_str(), block)});
    if (A["hnull"].get_bool()) ann.header.SetNull();

    // ---- mempool (entries keyed by the representative's wtxid) and extra pool
    bilingual_str error;
    CTxMemPool pool{MemPoolOptionsForTest(g_setup->m_node), error};
    TestMemPoolEntryHelper entry;
    for (size_t i = 0; i < row["pool"].size(); ++i) {
        const std::string n = row["pool"][i].get_str();
        const size_t before = WITH_LOCK(pool.cs, return pool.txns_randomized.size());
        TryAddToMempool(pool, entry.FromTx(g_tx.at(n)));
        LOCK(pool.cs);
        if (pool.txns_randomized.size() != before + 1) throw std::runtime_error("mempool refused " + n);
        pool.txns_randomized.back().first = key_of(n);
    }
    std::vector<std::pair<Wtxid, CTransactionRef>> extra;
    for (size_t i = 0; i < row["extra"].size(); ++i) { const std::string n = row["extra"][i].get_str(); extra.emplace_back(key_of(n), g_tx.at(n)); }

    // ---- InitData, what is available, InitData again
    PDB pdb{&pool};
    const ReadStatus init = pdb.InitData(ann, extra);
    UniValue avail(UniValue::VARR);
    for (const auto& t : pdb.Avail()) avail.push_back(NameOf(t, block));
    const bool hdr = !pdb.header.IsNull();
    if (hdr) for (size_t i = 0; i < pdb.Avail().size(); ++i) if (pdb.IsTxAvailable(i) != (pdb.Avail()[i] != nullptr)) return "IsTxAvailable disagrees with txn_available";
    const ReadStatus reinit = pdb.InitData(ann, extra);

    // ---- FillBlock with the answer; the caller's CBlock is one that was validated before (its cached "checked" flags are set)
    auto answer = [&](const UniValue& names) { std::vector<CTransactionRef> v; for (size_t i = 0; i < names.size(); ++i) v.push_back(TxOf(names[i].get_str(), block)); return v; };
    CBlock out = block;
    (void)IsBlockMutated(out, segwit);
    const ReadStatus fill = pdb.FillBlock(out, answer(row["ans"]), segwit);
    std::string bad;
    if (fill == READ_STATUS_OK) {
        bad = SameBlock(out, block, segwit);
        if (!bad.empty()) return "FillBlock returned READ_STATUS_OK with a block that is not the announced one: " + bad;
    }
    CBlock out2 = block;
    (void)IsBlockMutated(out2, segwit);
    const ReadStatus fill2 = pdb.FillBlock(out2, answer(row["ans2"]), segwit);
    if (fill2 == READ_STATUS_OK) {
        bad = SameBlock(out2, block, segwit);
        if (!bad.empty()) return "a second FillBlock returned READ_STATUS_OK with a block that is not the announced one: " + bad;
    }
    {   // the mempool entries keep their forged keys until the pool dies; nothing else uses them
        LOCK(pool.cs);
    }

    // ---- divergences from the row (never a verdict)
    const std::string e_init = row["init"].get_str(), e_fill = row["fill"].get_str(), e_fill2 = row["fill2"].get_str();
    std::string div;
    if (e_init != St(init)) div = std::string("init ") + St(init) + " (model " + e_init + ")";
    else if (row["hdr"].get_bool() != hdr) div = "header set differs";
    else if (!JsonEq(row["avail"], avail)) div = "available " + avail.write() + " (model " + row["avail"].write() + ")";
    else if (row["reinit"].get_str() != St(reinit)) div = std::string("second InitData ") + St(reinit);
    else if (e_fill != St(fill)) div = std::string("fill ") + St(fill) + " (model " + e_fill + ")";
    else if (e_fill2 != St(fill2)) div = std::string("second fill ") + St(fill2) + " (model " + e_fill2 + ")";
    R().Count(std::string("code_fill_") + St(fill));
    if (fill == READ_STATUS_OK) R().Count("accepted_blocks");
    if (div.empty()) { R().Count("exact"); return ""; }
    const bool code_ok = fill == READ_STATUS_OK || fill2 == READ_STATUS_OK, model_ok = e_fill == "OK" || e_fill2 == "OK";
    const std::string cls = (model_ok && !code_ok) ? "conservative" : (!model_ok && code_ok) ? "liberal" : "other";
    R().Count("divergence_" + cls);
    if (R().counters["divergence_" + cls] <= 5) {
        UniValue o(UniValue::VOBJ); o.pushKV("kind", "info"); o.pushKV("divergence", cls); o.pushKV("what", div); o.pushKV("test", (uint64_t)R().cur_test);
        o.pushKV("fam", row["fam"]); o.pushKV("anskind", row["anskind"]);
        Emit(o);
    }
    return "";
}
} // namespace

int main(int argc, char** argv)
{
    if (argc < 3) { std::cerr << "usage: compactblock table <rows.ndjson>\n"; return 2; }
    static const auto setup = MakeNoLogFileContext<const TestingSetup>(ChainType::REGTEST);
    g_setup = setup.get();
    BuildUniverse();
    if (std::string(argv[1]) == "table") return TableMain(argv[2], CheckRow);
    std::cerr << "unknown mode\n";
    return 2;
}
