// Adapter for specs/Script (C12, C11): every row printed by the TLA+ reference interpreter is concretised into real scripts
// (symbolic blocks -> real hashes, real keys, real signatures made for the execution context the model names) and run on
// EvalScript / VerifyScript.
//   script table <rows.ndjson>      C12: success, ScriptError and (EvalScript rows, on success) the final stack must equal the model's
//   script softfork <rows.ndjson>   C11: per program, the real VerifyScript under every listed flag set (twice: determinism); the
//                                   soft-fork implication on every pair, and STANDARD flags => block flags of the regtest tip
// Vector encoding (see Script.tla): integers 0..255 are literal bytes, a negative integer -t opens a block <<-t, n, payload>>.
#include <vfh.h>
#include <crypto/ripemd160.h>
#include <crypto/sha1.h>
#include <crypto/sha256.h>
#include <hash.h>
#include <key.h>
#include <policy/policy.h>
#include <primitives/transaction.h>
#include <pubkey.h>
#include <script/interpreter.h>
#include <script/script.h>
#include <script/script_error.h>
#include <test/util/setup_common.h>
#include <util/strencodings.h>
#include <validation.h>
#include <secp256k1.h>
using namespace vfh;

namespace {
using Bytes = std::vector<unsigned char>;

const char* ErrName(ScriptError e)
{
    switch (e) {
    case SCRIPT_ERR_OK: return "";
    case SCRIPT_ERR_UNKNOWN_ERROR: return "UNKNOWN_ERROR";
    case SCRIPT_ERR_EVAL_FALSE: return "EVAL_FALSE";
    case SCRIPT_ERR_OP_RETURN: return "OP_RETURN";
    case SCRIPT_ERR_SCRIPTNUM: return "SCRIPTNUM";
    case SCRIPT_ERR_SCRIPT_SIZE: return "SCRIPT_SIZE";
    case SCRIPT_ERR_PUSH_SIZE: return "PUSH_SIZE";
    case SCRIPT_ERR_OP_COUNT: return "OP_COUNT";
    case SCRIPT_ERR_STACK_SIZE: return "STACK_SIZE";
    case SCRIPT_ERR_SIG_COUNT: return "SIG_COUNT";
    case SCRIPT_ERR_PUBKEY_COUNT: return "PUBKEY_COUNT";
    case SCRIPT_ERR_VERIFY: return "VERIFY";
    case SCRIPT_ERR_EQUALVERIFY: return "EQUALVERIFY";
    case SCRIPT_ERR_CHECKMULTISIGVERIFY: return "CHECKMULTISIGVERIFY";
    case SCRIPT_ERR_CHECKSIGVERIFY: return "CHECKSIGVERIFY";
    case SCRIPT_ERR_NUMEQUALVERIFY: return "NUMEQUALVERIFY";
    case SCRIPT_ERR_BAD_OPCODE: return "BAD_OPCODE";
    case SCRIPT_ERR_DISABLED_OPCODE: return "DISABLED_OPCODE";
    case SCRIPT_ERR_INVALID_STACK_OPERATION: return "INVALID_STACK_OPERATION";
    case SCRIPT_ERR_INVALID_ALTSTACK_OPERATION: return "INVALID_ALTSTACK_OPERATION";
    case SCRIPT_ERR_UNBALANCED_CONDITIONAL: return "UNBALANCED_CONDITIONAL";
    case SCRIPT_ERR_NEGATIVE_LOCKTIME: return "NEGATIVE_LOCKTIME";
    case SCRIPT_ERR_UNSATISFIED_LOCKTIME: return "UNSATISFIED_LOCKTIME";
    case SCRIPT_ERR_SIG_HASHTYPE: return "SIG_HASHTYPE";
    case SCRIPT_ERR_SIG_DER: return "SIG_DER";
    case SCRIPT_ERR_MINIMALDATA: return "MINIMALDATA";
    case SCRIPT_ERR_SIG_PUSHONLY: return "SIG_PUSHONLY";
    case SCRIPT_ERR_SIG_HIGH_S: return "SIG_HIGH_S";
    case SCRIPT_ERR_SIG_NULLDUMMY: return "SIG_NULLDUMMY";
    case SCRIPT_ERR_PUBKEYTYPE: return "PUBKEYTYPE";
    case SCRIPT_ERR_CLEANSTACK: return "CLEANSTACK";
    case SCRIPT_ERR_MINIMALIF: return "MINIMALIF";
    case SCRIPT_ERR_SIG_NULLFAIL: return "SIG_NULLFAIL";
    case SCRIPT_ERR_DISCOURAGE_UPGRADABLE_NOPS: return "DISCOURAGE_UPGRADABLE_NOPS";
    case SCRIPT_ERR_DISCOURAGE_UPGRADABLE_WITNESS_PROGRAM: return "DISCOURAGE_UPGRADABLE_WITNESS_PROGRAM";
    case SCRIPT_ERR_DISCOURAGE_UPGRADABLE_TAPROOT_VERSION: return "DISCOURAGE_UPGRADABLE_TAPROOT_VERSION";
    case SCRIPT_ERR_DISCOURAGE_OP_SUCCESS: return "DISCOURAGE_OP_SUCCESS";
    case SCRIPT_ERR_DISCOURAGE_UPGRADABLE_PUBKEYTYPE: return "DISCOURAGE_UPGRADABLE_PUBKEYTYPE";
    case SCRIPT_ERR_WITNESS_PROGRAM_WRONG_LENGTH: return "WITNESS_PROGRAM_WRONG_LENGTH";
    case SCRIPT_ERR_WITNESS_PROGRAM_WITNESS_EMPTY: return "WITNESS_PROGRAM_WITNESS_EMPTY";
    case SCRIPT_ERR_WITNESS_PROGRAM_MISMATCH: return "WITNESS_PROGRAM_MISMATCH";
    case SCRIPT_ERR_WITNESS_MALLEATED: return "WITNESS_MALLEATED";
    case SCRIPT_ERR_WITNESS_MALLEATED_P2SH: return "WITNESS_MALLEATED_P2SH";
    case SCRIPT_ERR_WITNESS_UNEXPECTED: return "WITNESS_UNEXPECTED";
    case SCRIPT_ERR_WITNESS_PUBKEYTYPE: return "WITNESS_PUBKEYTYPE";
    case SCRIPT_ERR_SCHNORR_SIG_SIZE: return "SCHNORR_SIG_SIZE";
    case SCRIPT_ERR_SCHNORR_SIG_HASHTYPE: return "SCHNORR_SIG_HASHTYPE";
    case SCRIPT_ERR_SCHNORR_SIG: return "SCHNORR_SIG";
    case SCRIPT_ERR_TAPROOT_WRONG_CONTROL_SIZE: return "TAPROOT_WRONG_CONTROL_SIZE";
    case SCRIPT_ERR_TAPSCRIPT_VALIDATION_WEIGHT: return "TAPSCRIPT_VALIDATION_WEIGHT";
    case SCRIPT_ERR_TAPSCRIPT_CHECKMULTISIG: return "TAPSCRIPT_CHECKMULTISIG";
    case SCRIPT_ERR_TAPSCRIPT_MINIMALIF: return "TAPSCRIPT_MINIMALIF";
    case SCRIPT_ERR_TAPSCRIPT_EMPTY_PUBKEY: return "TAPSCRIPT_EMPTY_PUBKEY";
    case SCRIPT_ERR_OP_CODESEPARATOR: return "OP_CODESEPARATOR";
    case SCRIPT_ERR_SIG_FINDANDDELETE: return "SIG_FINDANDDELETE";
    case SCRIPT_ERR_ERROR_COUNT: break;
    }
    return "?";
}

script_verify_flags ParseFlags(const UniValue& arr)
{
    script_verify_flags f{SCRIPT_VERIFY_NONE};
    const auto& names = ScriptFlagNamesToEnum();
    for (size_t i = 0; i < arr.size(); ++i) {
        auto it = names.find(arr[i].get_str());
        if (it == names.end()) throw std::runtime_error("unknown flag " + arr[i].get_str());
        f |= it->second;
    }
    return f;
}

// ---------------------------------------------------------------- keys
// secret #id: a fixed scalar whose public key has an even Y (so that the compressed encoding starts with 02 and the hybrid
// one with 06, as the model assumes)
const CKey& Secret(int id)
{
    static std::map<int, CKey> cache;
    auto it = cache.find(id);
    if (it != cache.end()) return it->second;
    for (unsigned ctr = 1;; ++ctr) {
        std::array<unsigned char, 32> k{};
        k[0] = 0x11; k[29] = (unsigned char)id; k[30] = (unsigned char)(ctr >> 8); k[31] = (unsigned char)ctr;
        CKey key; key.Set(k.begin(), k.end(), true);
        if (!key.IsValid()) continue;
        if (key.GetPubKey()[0] == 0x02) return cache.emplace(id, key).first->second;
    }
}
Bytes PubKeyBytes(int id, int enc)
{
    CPubKey pk = Secret(id).GetPubKey();
    if (enc == 0) return Bytes(pk.begin(), pk.end());
    if (!pk.Decompress()) throw std::runtime_error("decompress failed");
    Bytes b(pk.begin(), pk.end());
    if (enc == 2) b[0] = 0x06 | (b[64] & 1);
    return b;
}
XOnlyPubKey XOnly(int id) { return XOnlyPubKey(Secret(id).GetPubKey()); }

// ---------------------------------------------------------------- one row's concretisation context
struct RowCtx {
    // execution contexts a signature can be made for: real script, rep position -> real offset, signature version
    std::map<int, CScript> script;
    std::map<int, std::vector<size_t>> off;
    std::map<int, SigVersion> sv;
    CMutableTransaction credit, spend;
    CAmount amount{12345};
    PrecomputedTransactionData txdata;
    bool tx_ready{false};
    // taproot
    bool tap_parity{false};
    bool tap_hasroot{false};
    uint256 tap_root;
    int tap_id{0};
    uint256 tapleaf_hash;
    bool annex_present{false};
    uint256 annex_hash;
    uint64_t sigs_made{0};
};

Bytes DecodeVec(const UniValue& a, RowCtx& rc, std::vector<size_t>* offs = nullptr);

struct Cursor {
    const UniValue& a; size_t pos; size_t end;
    bool More() const { return pos < end; }
    int Get() { if (pos >= end) throw std::runtime_error("vector encoding: out of range"); return a[pos++].getInt<int>(); }
};
void DecodeItem(Cursor& c, Bytes& out, RowCtx& rc);
Bytes DecodeRange(const UniValue& a, size_t from, size_t to, RowCtx& rc, std::vector<size_t>* offs = nullptr)
{
    Bytes out;
    Cursor c{a, from, to};
    if (offs) offs->assign(to - from + 2, SIZE_MAX);
    while (c.More()) {
        if (offs) (*offs)[c.pos - from + 1] = out.size();
        DecodeItem(c, out, rc);
    }
    if (offs) (*offs)[to - from + 1] = out.size();
    return out;
}
Bytes DecodeVec(const UniValue& a, RowCtx& rc, std::vector<size_t>* offs) { return DecodeRange(a, 0, a.size(), rc, offs); }
// decodes items until exactly n real bytes have been produced
Bytes DecodeN(Cursor& c, size_t n, RowCtx& rc)
{
    Bytes out;
    while (out.size() < n) DecodeItem(c, out, rc);
    if (out.size() != n) throw std::runtime_error("vector encoding: block straddles a push boundary");
    return out;
}
// reads "push(32 bytes)" as written by PushCanon in the model
Bytes DecodePushed32(Cursor& c, RowCtx& rc)
{
    if (c.Get() != 32) throw std::runtime_error("vector encoding: expected a 32-byte push");
    return DecodeN(c, 32, rc);
}

Bytes Sha256B(const Bytes& x) { Bytes h(32); CSHA256().Write(x.data(), x.size()).Finalize(h.data()); return h; }

void NegateS(Bytes& der)
{
    // der: 30 len 02 lenR R 02 lenS S
    const size_t lenR = der[3];
    Bytes r(der.begin() + 4, der.begin() + 4 + lenR);
    Bytes s(der.begin() + 6 + lenR, der.begin() + 6 + lenR + der[5 + lenR]);
    while (s.size() < 33) s.insert(s.begin(), 0x00);
    if (!secp256k1_ec_seckey_negate(secp256k1_context_static, s.data() + 1)) throw std::runtime_error("negate failed");
    if (s[0] == 0 && !(s[1] & 0x80)) s.erase(s.begin());
    der.clear();
    der.push_back(0x30); der.push_back((unsigned char)(4 + r.size() + s.size()));
    der.push_back(0x02); der.push_back((unsigned char)r.size()); der.insert(der.end(), r.begin(), r.end());
    der.push_back(0x02); der.push_back((unsigned char)s.size()); der.insert(der.end(), s.begin(), s.end());
}

// ECDSA signature by secret k over the script code of context ctxid starting at rep position cs
Bytes MakeSig(int k, int ctxid, int cs, int ht, int form, RowCtx& rc)
{
    const CKey& key = Secret(k == 0 ? 99 : k);
    uint256 hash;
    auto it = rc.script.find(ctxid);
    bool real = false;
    if (it != rc.script.end() && rc.tx_ready && cs >= 1 && (size_t)cs < rc.off[ctxid].size() && rc.off[ctxid][cs] != SIZE_MAX) {
        const CScript& sc = it->second;
        const CScript code(sc.begin() + rc.off[ctxid][cs], sc.end());
        const SigVersion sv = rc.sv[ctxid];
        if (sv == SigVersion::BASE || sv == SigVersion::WITNESS_V0) {
            hash = SignatureHash(code, rc.spend, 0, ht, rc.amount, sv);
            real = true;
        }
    }
    if (!real) hash = (HashWriter{} << std::string("no such context") << ctxid << cs << ht).GetSHA256();
    Bytes sig;
    for (uint32_t tc = 0;; ++tc) {
        // (with grind=true the counter is ignored, so grind here: R and S must both take exactly 32 bytes)
        if (!key.Sign(hash, sig, /*grind=*/false, tc)) throw std::runtime_error("sign failed");
        if (sig.size() == 70 && sig[3] == 32 && sig[5 + 32] == 32) break;      // R and S of 32 bytes each
    }
    if (form == 1) {
        NegateS(sig);
        if (sig.size() != 71) throw std::runtime_error("high-S signature has unexpected size");
    } else if (form == 2) {
        // R with a superfluous leading zero byte: not strict DER, accepted by the lax parser
        sig.insert(sig.begin() + 4, 0x00); sig[3] += 1; sig[1] += 1;
    }
    sig.push_back((unsigned char)ht);
    ++rc.sigs_made;
    return sig;
}

Bytes MakeSchnorr(int k, int ctxid, int cspos, int ht, int x, RowCtx& rc)
{
    const CKey& key = Secret(k == 0 ? 99 : k);
    const int base = ctxid % 100;
    ScriptExecutionData ed;
    ed.m_annex_init = true;
    ed.m_annex_present = ctxid >= 100;
    ed.m_annex_hash = rc.annex_hash;
    uint256 sighash;
    bool ok = false;
    SigVersion sv = SigVersion::TAPROOT;
    auto it = rc.sv.find(base);
    if (rc.tx_ready && it != rc.sv.end() && (it->second == SigVersion::TAPROOT || it->second == SigVersion::TAPSCRIPT) &&
        (ctxid >= 100) == rc.annex_present) {
        sv = it->second;
        if (sv == SigVersion::TAPSCRIPT) {
            ed.m_tapleaf_hash = rc.tapleaf_hash; ed.m_tapleaf_hash_init = true;
            ed.m_codeseparator_pos = cspos == 0 ? 0xFFFFFFFFUL : (uint32_t)(cspos - 1); ed.m_codeseparator_pos_init = true;
        }
        ok = SignatureHashSchnorr(sighash, ed, rc.spend, 0, (uint8_t)(x ? ht : 0), sv, rc.txdata, MissingDataBehavior::FAIL);
    }
    Bytes sig(64);
    if (ok) {
        uint256 aux{(uint8_t)7};
        const uint256 null_root;
        const uint256* mr = sv == SigVersion::TAPROOT ? (rc.tap_hasroot ? &rc.tap_root : &null_root) : nullptr;
        if (!key.SignSchnorr(sighash, sig, mr, aux)) throw std::runtime_error("schnorr sign failed");
    } else {
        const uint256 g = (HashWriter{} << std::string("no schnorr context") << ctxid << cspos << ht << k).GetSHA256();
        std::copy(g.begin(), g.end(), sig.begin()); std::copy(g.begin(), g.end(), sig.begin() + 32);
    }
    if (x) sig.push_back((unsigned char)ht);
    ++rc.sigs_made;
    return sig;
}

void DecodeItem(Cursor& c, Bytes& out, RowCtx& rc)
{
    const int v = c.Get();
    if (v >= 0) {
        if (v > 255) throw std::runtime_error("vector encoding: byte out of range");
        out.push_back((unsigned char)v);
        return;
    }
    const int tag = -v;
    const int n = c.Get();
    if (n < 0 || c.pos + n > c.end) throw std::runtime_error("vector encoding: bad block length");
    Cursor p{c.a, c.pos, c.pos + (size_t)n};
    c.pos += n;
    Bytes r;
    switch (tag) {
    case 1: { Bytes x = DecodeRange(p.a, p.pos, p.end, rc); r.resize(20); CRIPEMD160().Write(x.data(), x.size()).Finalize(r.data()); break; }
    case 2: { Bytes x = DecodeRange(p.a, p.pos, p.end, rc); r.resize(20); CSHA1().Write(x.data(), x.size()).Finalize(r.data()); break; }
    case 3: { Bytes x = DecodeRange(p.a, p.pos, p.end, rc); r = Sha256B(x); break; }
    case 10: { const int id = p.Get(), enc = p.Get(); r = PubKeyBytes(id, enc); break; }
    case 13: { const XOnlyPubKey xo = XOnly(p.Get()); r.assign(xo.begin(), xo.end()); break; }
    case 20: { const int k = p.Get(), ctx = p.Get(), cs = p.Get(), ht = p.Get(), form = p.Get(); r = MakeSig(k, ctx, cs, ht, form, rc); break; }
    case 21: { const int k = p.Get(), ctx = p.Get(), cp = p.Get(), ht = p.Get(), x = p.Get(); r = MakeSchnorr(k, ctx, cp, ht, x, rc); break; }
    case 30: {
        const int id = p.Get(); const int hasroot = p.Get();
        uint256 root;
        if (hasroot) { Bytes rb = DecodeRange(p.a, p.pos, p.end, rc); if (rb.size() != 32) throw std::runtime_error("taproot root is not 32 bytes"); root = uint256(rb); }
        auto tw = XOnly(id).CreateTapTweak(hasroot ? &root : nullptr);
        if (!tw) throw std::runtime_error("tap tweak failed");
        r.assign(tw->first.begin(), tw->first.end());
        rc.tap_parity = tw->second; rc.tap_hasroot = hasroot; rc.tap_root = root; rc.tap_id = id;
        break;
    }
    case 31: { const int leafver = p.Get(); Bytes sc = DecodeRange(p.a, p.pos, p.end, rc); const uint256 h = ComputeTapleafHash((uint8_t)leafver, sc); r.assign(h.begin(), h.end()); break; }
    case 32: { Bytes a = DecodePushed32(p, rc), b = DecodePushed32(p, rc); const uint256 h = ComputeTapbranchHash(a, b); r.assign(h.begin(), h.end()); break; }
    case 33: {
        const int leafver = p.Get(), parityok = p.Get(), id = p.Get(), npath = p.Get();
        const bool parity = parityok ? rc.tap_parity : !rc.tap_parity;
        r.push_back((unsigned char)(leafver | (parity ? 1 : 0)));
        const XOnlyPubKey xo = XOnly(id); r.insert(r.end(), xo.begin(), xo.end());
        for (int i = 0; i < npath; ++i) { Bytes nb = DecodePushed32(p, rc); r.insert(r.end(), nb.begin(), nb.end()); }
        break;
    }
    default: throw std::runtime_error("vector encoding: unknown block tag " + std::to_string(tag));
    }
    if (std::all_of(r.begin(), r.end(), [](unsigned char b) { return b == 0; })) throw std::runtime_error("symbolic block decoded to zeros");
    out.insert(out.end(), r.begin(), r.end());
}

CScript ToScript(const Bytes& b) { return CScript(b.begin(), b.end()); }

void BuildTxs(RowCtx& rc, const CScript& spk, const UniValue& tx)
{
    rc.credit.version = 1; rc.credit.nLockTime = 0;
    rc.credit.vin.resize(1); rc.credit.vout.resize(1);
    rc.credit.vin[0].prevout.SetNull();
    rc.credit.vin[0].scriptSig = CScript() << CScriptNum(0) << CScriptNum(0);
    rc.credit.vin[0].nSequence = CTxIn::SEQUENCE_FINAL;
    rc.credit.vout[0].scriptPubKey = spk;
    rc.credit.vout[0].nValue = rc.amount;
    auto le = [](const UniValue& m) { uint64_t v = 0; for (size_t i = 0; i < m.size(); ++i) v |= (uint64_t)m[i].getInt<int>() << (8 * i); return v; };
    rc.spend.version = (uint32_t)tx["ver"].getInt<int>();
    rc.spend.nLockTime = (uint32_t)le(tx["lock"]);
    rc.spend.vin.resize(1); rc.spend.vout.resize(1);
    rc.spend.vin[0].prevout = COutPoint(rc.credit.GetHash(), 0);
    rc.spend.vin[0].nSequence = (uint32_t)le(tx["seq"]);
    rc.spend.vout[0].scriptPubKey = CScript();
    rc.spend.vout[0].nValue = rc.amount;
    std::vector<CTxOut> spent{rc.credit.vout[0]};
    rc.txdata.Init(rc.spend, std::move(spent), /*force=*/true);
    rc.tx_ready = true;
}

std::string StackDiff(const std::vector<Bytes>& have, const UniValue& exp, RowCtx& rc)
{
    if (have.size() != exp.size()) return "final stack has " + std::to_string(have.size()) + " elements, specification says " + std::to_string(exp.size());
    for (size_t i = 0; i < have.size(); ++i) {
        const Bytes e = DecodeVec(exp[i], rc);
        if (e != have[i]) return "final stack element " + std::to_string(i) + " is " + HexStr(have[i]) + ", specification says " + HexStr(e);
    }
    return "";
}

SigVersion ParseSv(const std::string& s)
{
    if (s == "BASE") return SigVersion::BASE;
    if (s == "WITNESS_V0") return SigVersion::WITNESS_V0;
    if (s == "TAPSCRIPT") return SigVersion::TAPSCRIPT;
    throw std::runtime_error("bad sigversion " + s);
}

struct EvalOutcome { bool ok; ScriptError err; std::vector<Bytes> stack; };

EvalOutcome RunEval(const UniValue& row, RowCtx& rc)
{
    const SigVersion sv = ParseSv(row["sv"].get_str());
    std::vector<size_t> offs;
    const CScript script = ToScript(DecodeVec(row["a"], rc, &offs));
    BuildTxs(rc, script, row["tx"]);
    rc.script[0] = script; rc.off[0] = offs; rc.sv[0] = sv;
    if (sv == SigVersion::TAPSCRIPT) rc.tapleaf_hash = ComputeTapleafHash(0xc0, script);
    std::vector<Bytes> stack;
    for (size_t i = 0; i < row["st0"].size(); ++i) stack.push_back(DecodeVec(row["st0"][i], rc));
    const script_verify_flags flags = ParseFlags(row["F"]);
    const MutableTransactionSignatureChecker checker(&rc.spend, 0, rc.amount, rc.txdata, MissingDataBehavior::ASSERT_FAIL);
    ScriptExecutionData ed;
    if (sv == SigVersion::TAPSCRIPT) {
        ed.m_tapleaf_hash = rc.tapleaf_hash; ed.m_tapleaf_hash_init = true;
        ed.m_annex_present = false; ed.m_annex_init = true;
        ed.m_validation_weight_left = row["wl"].getInt<int64_t>(); ed.m_validation_weight_left_init = true;
    }
    EvalOutcome o;
    o.err = SCRIPT_ERR_ERROR_COUNT;
    o.stack = stack;
    o.ok = EvalScript(o.stack, script, flags, checker, sv, ed, &o.err);
    return o;
}

struct VerifyInput { CScript ssig, spk; CScriptWitness wit; };

// concretises a VerifyScript row: spk first (everything else commits to it through the transaction), then the scripts of the
// execution contexts the model lists (redeem script, witness script, leaf script), then scriptSig and witness (signatures)
VerifyInput BuildVerify(const UniValue& row, RowCtx& rc)
{
    VerifyInput in;
    std::vector<size_t> offs;
    in.spk = ToScript(DecodeVec(row["b"], rc, &offs));
    BuildTxs(rc, in.spk, row["tx"]);
    rc.script[0] = in.spk; rc.off[0] = offs; rc.sv[0] = SigVersion::BASE;
    if (row.exists("cx")) {
        const UniValue& cx = row["cx"];
        for (size_t i = 0; i < cx.size(); ++i) {
            const int id = cx[i]["id"].getInt<int>();
            std::vector<size_t> o2;
            const CScript sc = ToScript(DecodeVec(cx[i]["sc"], rc, &o2));
            rc.script[id] = sc; rc.off[id] = o2;
            rc.sv[id] = id == 1 ? SigVersion::BASE : (id == 2 || id == 3) ? SigVersion::WITNESS_V0 : id == 4 ? SigVersion::TAPROOT : SigVersion::TAPSCRIPT;
            if (id == 5) rc.tapleaf_hash = ComputeTapleafHash((uint8_t)cx[i]["lv"].getInt<int>(), sc);
        }
    }
    const UniValue& w = row["st0"];
    // an annex (last witness element starting with 0x50, at least two elements) is literal: decode it first, signatures commit to it
    if (w.size() >= 2 && w[w.size() - 1].size() > 0 && w[w.size() - 1][0].getInt<int>() == 0x50) {
        const Bytes annex = DecodeVec(w[w.size() - 1], rc);
        rc.annex_present = true;
        rc.annex_hash = (HashWriter{} << annex).GetSHA256();
    }
    in.ssig = ToScript(DecodeVec(row["a"], rc));
    for (size_t i = 0; i < w.size(); ++i) in.wit.stack.push_back(DecodeVec(w[i], rc));
    rc.spend.vin[0].scriptSig = in.ssig;
    rc.spend.vin[0].scriptWitness = in.wit;
    return in;
}

std::string CheckRow(const UniValue& row)
{
    RowCtx rc;
    const std::string want = row["err"].get_str();
    if (row["k"].get_str() == "eval") {
        const EvalOutcome o = RunEval(row, rc);
        R().Count("eval_rows");
        if (rc.sigs_made) R().Count("rows_with_signatures");
        if (o.ok != (o.err == SCRIPT_ERR_OK)) return "EvalScript returned " + std::to_string(o.ok) + " with error " + ErrName(o.err);
        const std::string have = ErrName(o.err);
        if (have != want) return "EvalScript says '" + have + "', specification says '" + want + "'";
        if (o.ok) {
            const std::string d = StackDiff(o.stack, row["st"], rc);
            if (!d.empty()) return d;
            R().Count("eval_ok");
        }
        // determinism
        RowCtx rc2;
        const EvalOutcome o2 = RunEval(row, rc2);
        if (o2.ok != o.ok || o2.err != o.err || (o.ok && o2.stack != o.stack)) return "second evaluation differs";
        return "";
    }
    const VerifyInput in = BuildVerify(row, rc);
    const script_verify_flags flags = ParseFlags(row["F"]);
    const MutableTransactionSignatureChecker checker(&rc.spend, 0, rc.amount, rc.txdata, MissingDataBehavior::ASSERT_FAIL);
    ScriptError err = SCRIPT_ERR_ERROR_COUNT;
    const bool ok = VerifyScript(in.ssig, in.spk, &in.wit, flags, checker, &err);
    R().Count("verify_rows");
    if (rc.sigs_made) R().Count("rows_with_signatures");
    if (ok != (err == SCRIPT_ERR_OK)) return "VerifyScript returned " + std::to_string(ok) + " with error " + ErrName(err);
    const std::string have = ErrName(err);
    if (have != want) return "VerifyScript says '" + have + "', specification says '" + want + "'";
    if (ok) R().Count("verify_ok");
    ScriptError err2 = SCRIPT_ERR_ERROR_COUNT;
    if (VerifyScript(in.ssig, in.spk, &in.wit, flags, checker, &err2) != ok || err2 != err) return "second evaluation differs";
    return "";
}
// ---------------------------------------------------------------- C11: the soft-fork relation on the implementation's own results
script_verify_flags g_block_flags{SCRIPT_VERIFY_NONE};

std::string FlagNames(script_verify_flags f)
{
    std::string r = "{";
    for (const auto& n : GetScriptFlagNames(f)) r += (r.size() > 1 ? "," : "") + n;
    return r + "}";
}

std::string CheckSoftFork(const UniValue& row)
{
    RowCtx rc;
    const VerifyInput in = BuildVerify(row, rc);
    const MutableTransactionSignatureChecker checker(&rc.spend, 0, rc.amount, rc.txdata, MissingDataBehavior::ASSERT_FAIL);
    struct Res { script_verify_flags f{SCRIPT_VERIFY_NONE}; bool ok{false}; ScriptError err{SCRIPT_ERR_ERROR_COUNT}; };
    std::vector<Res> res;
    const UniValue& fs = row["fs"];
    auto run = [&](script_verify_flags f, Res& out) -> std::string {
        out.f = f; out.err = SCRIPT_ERR_ERROR_COUNT;
        out.ok = VerifyScript(in.ssig, in.spk, &in.wit, f, checker, &out.err);
        if (out.ok != (out.err == SCRIPT_ERR_OK)) return "VerifyScript returned " + std::to_string(out.ok) + " with error " + ErrName(out.err) + " under " + FlagNames(f);
        // determinism: a second call gives the same result and the same error
        ScriptError e2 = SCRIPT_ERR_ERROR_COUNT;
        const bool ok2 = VerifyScript(in.ssig, in.spk, &in.wit, f, checker, &e2);
        if (ok2 != out.ok || e2 != out.err) return "VerifyScript is not deterministic under " + FlagNames(f) + ": " + ErrName(out.err) + " then " + ErrName(e2);
        return "";
    };
    for (size_t i = 0; i < fs.size(); ++i) {
        Res r;
        const std::string why = run(ParseFlags(fs[i]["F"]), r);
        if (!why.empty()) return why;
        res.push_back(r);
        R().Count("evaluations");
        R().Count(std::string(ErrName(r.err)) == fs[i]["err"].get_str() ? "agree_with_model" : "differ_from_model");
    }
    // how the MODEL's verdict reacts to single flags (vacuity guard of the grammar; independent of the implementation)
    for (size_t i = 0; i < fs.size(); ++i) {
        if (!fs[i]["err"].get_str().empty()) continue;
        for (size_t j = 0; j < fs.size(); ++j) {
            if (fs[j]["err"].get_str().empty() || (res[i].f & res[j].f) != res[i].f) continue;
            const script_verify_flags diff = res[j].f & ~res[i].f;
            if (diff.as_int() != 0 && (diff.as_int() & (diff.as_int() - 1)) == 0) R().Count("mflip_" + GetScriptFlagNames(diff).at(0));
        }
    }
    bool any_ok = false, any_fail = false;
    for (const Res& a : res) { any_ok |= a.ok; any_fail |= !a.ok; }
    if (any_ok && any_fail) R().Count("flag_sensitive_rows");
    for (const Res& big : res) {
        for (const Res& small : res) {
            if ((small.f & big.f) != small.f || small.f == big.f) continue;
            R().Count("pairs");
            if (big.ok && !small.ok)
                return "verifies under " + FlagNames(big.f) + " but fails (" + ErrName(small.err) + ") under the subset " + FlagNames(small.f);
            if (small.ok && !big.ok) {
                const script_verify_flags diff = big.f & ~small.f;
                if ((diff.as_int() & (diff.as_int() - 1)) == 0) R().Count("flip_" + GetScriptFlagNames(diff).at(0));
            }
        }
    }
    // policy => consensus: valid under the standard flags => valid under the script flags of the next block
    Res st, blk;
    std::string why = run(STANDARD_SCRIPT_VERIFY_FLAGS, st);
    if (why.empty()) why = run(g_block_flags, blk);
    if (!why.empty()) return why;
    if (st.ok) R().Count("standard_ok");
    if (blk.ok) R().Count("consensus_ok");
    if (st.ok && !blk.ok) return std::string("verifies under STANDARD_SCRIPT_VERIFY_FLAGS but fails (") + ErrName(blk.err) + ") under the block flags " + FlagNames(g_block_flags);
    return "";
}
} // namespace

int main(int argc, char** argv)
{
    if (argc < 3) return 2;
    const std::string mode = argv[1];
    if (mode == "table") {
        ECC_Context ecc;
        return TableMain(argv[2], CheckRow);
    }
    if (mode == "softfork") {
        // the consensus script flags of the next block, by the public route validation itself uses (MemPoolAccept::ConsensusScriptChecks):
        // GetBlockScriptFlags(tip) of a regtest chain (TestChain100Setup: 100 blocks, every buried deployment and taproot active)
        auto setup = MakeNoLogFileContext<TestChain100Setup>(ChainType::REGTEST);
        {
            LOCK(cs_main);
            ChainstateManager& cm = *setup->m_node.chainman;
            g_block_flags = GetBlockScriptFlags(*cm.ActiveChain().Tip(), cm);
        }
        if ((g_block_flags & MANDATORY_SCRIPT_VERIFY_FLAGS) != g_block_flags || (STANDARD_SCRIPT_VERIFY_FLAGS & g_block_flags) != g_block_flags) {
            // informative only: the check below does not rely on it
            Emit(Obj({{"kind", "info"}, {"what", "block flags are not a subset of the mandatory/standard flags"}}));
        }
        Emit(Obj({{"kind", "info"}, {"block_flags", FlagNames(g_block_flags)}, {"standard_flags", FlagNames(STANDARD_SCRIPT_VERIFY_FLAGS)}}));
        return TableMain(argv[2], CheckSoftFork);
    }
    return 2;
}
