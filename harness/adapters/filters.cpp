// Adapter for specs/Filters (C51): CBloomFilter, CRollingBloomFilter, GCSFilter / BlockFilter.
// The model is an abstract set and the comparison one-sided: the projection reports the real filter's answer for EVERY element
// of the universe (and every query set), the expectation lists only the members the model knows about -- the replay engine compares
// only keys present in the expectation, so false positives are never an alarm and a false negative always is.
//   replay_bloom | replay_rolling | replay_gcs  <paths.ndjson>
#include <vfh.h>
#include <blockfilter.h>
#include <common/bloom.h>
#include <primitives/block.h>
#include <primitives/transaction.h>
#include <script/script.h>
#include <streams.h>
#include <test/util/random.h>
#include <uint256.h>
#include <undo.h>
#include <sys/resource.h>
using namespace vfh;

namespace {
using Bytes = std::vector<unsigned char>;
const std::vector<std::string> MASTER{"empty", "a", "b", "c", "script", "hash", "outpoint"};
constexpr int NBULK = 1000;

COutPoint TheOutPoint() { return COutPoint(Txid::FromUint256(uint256{0x42}), 7); }
Bytes ElementBytes(const std::string& name)
{
    if (name == "empty") return {};
    if (name == "hash") { uint256 h{0x77}; return Bytes(h.begin(), h.end()); }
    if (name == "outpoint") { DataStream s{}; s << TheOutPoint(); auto sp = MakeUCharSpan(s); return Bytes(sp.begin(), sp.end()); }
    if (name == "script") { CScript sc = CScript() << OP_DUP << OP_HASH160 << Bytes(20, 0x11) << OP_EQUALVERIFY << OP_CHECKSIG; return Bytes(sc.begin(), sc.end()); }
    return Bytes(name.begin(), name.end());
}
Bytes Filler(int i) { std::string s = "filler-" + std::to_string(i); return Bytes(s.begin(), s.end()); }

// ---- CBloomFilter ------------------------------------------------------------------------------------------------------------
struct BloomWorld {
    std::string cfg; std::unique_ptr<CBloomFilter> f;
    explicit BloomWorld(const UniValue& init) : cfg(init["cfg"].get_str())
    {
        if (cfg == "c3_01") f = std::make_unique<CBloomFilter>(3, 0.01, 0, BLOOM_UPDATE_ALL);
        else if (cfg == "c10_1e6") f = std::make_unique<CBloomFilter>(10, 0.000001, 2147483649U, BLOOM_UPDATE_NONE);
        else if (cfg == "c1000") f = std::make_unique<CBloomFilter>(1000, 0.001, 5, BLOOM_UPDATE_P2PUBKEY_ONLY);
        else if (cfg == "matchall") f = std::make_unique<CBloomFilter>(1, 0.99, 0, BLOOM_UPDATE_NONE);      // empty bit vector
        else if (cfg == "nohash") f = std::make_unique<CBloomFilter>(100, 0.9, 0, BLOOM_UPDATE_NONE);       // 2 bytes, 0 hash functions
        else if (cfg == "one_byte") f = std::make_unique<CBloomFilter>(4, 0.25, 3, BLOOM_UPDATE_NONE);      // 1 byte, 1 hash function
        else throw std::runtime_error("unknown bloom configuration " + cfg);
    }
    UniValue Apply(const UniValue& a)
    {
        const std::string op = a[0].get_str();
        if (op == "insert") {
            const std::string e = a[1].get_str();
            if (e == "outpoint") f->insert(TheOutPoint()); else f->insert(ElementBytes(e));
        } else if (op == "insertbulk") {
            for (int i = 0; i < NBULK; ++i) f->insert(Filler(i));
        } else throw std::runtime_error("unknown op " + op);
        return UniValue("none");
    }
    UniValue Project()
    {
        UniValue has(UniValue::VOBJ);
        has.pushKV("_", true);
        for (const auto& e : MASTER) {
            bool c = f->contains(ElementBytes(e));
            if (e == "outpoint") c = c && f->contains(TheOutPoint());     // both overloads must agree on a member
            has.pushKV(e, c);
        }
        bool bulk = true;
        for (int i = 0; i < NBULK; ++i) bulk = bulk && f->contains(Filler(i));
        has.pushKV("#bulk", bulk);
        // wire round trip: a filter that was serialised and read back answers the same
        DataStream ss{}; ss << *f; CBloomFilter g; ss >> g;
        for (const auto& e : MASTER) if (g.contains(ElementBytes(e)) != f->contains(ElementBytes(e))) throw std::runtime_error("round-tripped filter answers differently");
        return Obj({{"cfg", cfg}, {"has", has}});
    }
};

// ---- CRollingBloomFilter ------------------------------------------------------------------------------------------------------
struct RollingWorld {
    int n; std::unique_ptr<CRollingBloomFilter> f;
    explicit RollingWorld(const UniValue& init) : n(init["n"].getInt<int>()), f(std::make_unique<CRollingBloomFilter>(n, 0.000001)) {}
    UniValue Apply(const UniValue& a)
    {
        const std::string op = a[0].get_str();
        if (op == "insert") f->insert(ElementBytes(a[1].get_str()));
        else if (op == "reset") f->reset();
        else throw std::runtime_error("unknown op " + op);
        return UniValue("none");
    }
    UniValue Project()
    {
        UniValue has(UniValue::VOBJ);
        has.pushKV("_", true);
        for (const auto& e : MASTER) has.pushKV(e, f->contains(ElementBytes(e)));
        return Obj({{"n", n}, {"lastn", has}, {"gens", has}});
    }
};

// ---- GCSFilter / BlockFilter ----------------------------------------------------------------------------------------------------
struct GcsWorld {
    std::string par, src; std::vector<std::string> useq;
    std::optional<GCSFilter> f;
    explicit GcsWorld(const UniValue& init) : par(init["par"].get_str()), src(init["src"].get_str()) {}
    GCSFilter::Params Params() const
    {
        if (par == "basic") return GCSFilter::Params(0x0706050403020100ULL, 0x0f0e0d0c0b0a0908ULL, BASIC_FILTER_P, BASIC_FILTER_M);
        if (par == "p1m2") return GCSFilter::Params(1, 2, 1, 2);
        if (par == "p0m1") return GCSFilter::Params(0, 0, 0, 1);
        if (par == "p32") return GCSFilter::Params(0xffffffffffffffffULL, 3, 32, 4294967295U);
        if (par == "p10m1000") return GCSFilter::Params(11, 12, 10, 1000);
        throw std::runtime_error("unknown GCS parameter set " + par);
    }
    UniValue Apply(const UniValue& a)
    {
        if (a[0].get_str() != "build") throw std::runtime_error("unknown op");
        std::vector<Bytes> elems;
        for (size_t i = 0; i < a[1].size(); ++i) elems.push_back(ElementBytes(a[1][i].get_str()));
        if (a[2].get_bool()) for (int i = 0; i < NBULK; ++i) elems.push_back(Filler(i));
        if (a[3].get_bool()) { auto copy = elems; elems.insert(elems.end(), copy.begin(), copy.end()); }      // every element twice
        if (src == "set") {
            GCSFilter::ElementSet set;
            for (const auto& e : elems) set.insert(e);
            f.emplace(Params(), set);
        } else {
            // through BlockFilter: elements alternately as output scripts and as scripts of spent coins; an OP_RETURN output, an empty
            // output script and an empty spent script are added (the filter skips them; the model makes no claim about them)
            CBlock block; CBlockUndo undo;
            CMutableTransaction cb; cb.vin.resize(1); cb.vout.resize(1); cb.vout[0].scriptPubKey = CScript() << OP_RETURN << Bytes(4, 0x01);
            block.vtx.push_back(MakeTransactionRef(cb));
            CMutableTransaction tx; tx.vin.resize(1); tx.vout.emplace_back(0, CScript());
            undo.vtxundo.emplace_back();
            undo.vtxundo.back().vprevout.emplace_back(CTxOut(1, CScript()), 1, false);
            for (size_t i = 0; i < elems.size(); ++i) {
                CScript sc(elems[i].begin(), elems[i].end());
                if (i % 2 == 0) tx.vout.emplace_back(1, sc); else undo.vtxundo.back().vprevout.emplace_back(CTxOut(1, sc), 1, false);
            }
            block.vtx.push_back(MakeTransactionRef(tx));
            block.nNonce = 12345;
            BlockFilter bf(BlockFilterType::BASIC, block, undo);
            // ... and once through its encoding, as a peer would receive it
            BlockFilter bf2(BlockFilterType::BASIC, bf.GetBlockHash(), bf.GetEncodedFilter(), /*skip_decode_check=*/false);
            f.emplace(bf2.GetFilter());
        }
        return UniValue("none");
    }
    UniValue Project()
    {
        UniValue has(UniValue::VOBJ), any(UniValue::VOBJ);
        has.pushKV("_", true); any.pushKV("_", true);
        const std::vector<std::string> U{"empty", "a", "b", "c", "script", "hash"};
        if (f) {
            for (const auto& e : U) has.pushKV(e, f->Match(ElementBytes(e)));
            bool bulk = true;
            for (int i = 0; i < NBULK; ++i) bulk = bulk && f->Match(Filler(i));
            { GCSFilter::ElementSet q; for (int i = 0; i < NBULK; i += 7) q.insert(Filler(i)); bulk = bulk && (f->GetN() == 0 || f->MatchAny(q)); }
            has.pushKV("#bulk", bulk);
            // every non-empty query set over the universe, named like the specification names it
            for (unsigned mask = 1; mask < (1u << U.size()); ++mask) {
                GCSFilter::ElementSet q; std::string name;
                for (size_t i = 0; i < U.size(); ++i) if (mask & (1u << i)) { q.insert(ElementBytes(U[i])); name += U[i] + "|"; }
                any.pushKV(name, f->MatchAny(q));
            }
        }
        return Obj({{"par", par}, {"src", src}, {"built", (bool)f}, {"has", has}, {"any", any}});
    }
};
} // namespace

int main(int argc, char** argv)
{
    if (argc < 3) return 2;
    // a defect in the code under test must not take the (shared) machine down: an absurd allocation fails and is reported for the step
    { struct rlimit rl{2ULL << 30, 2ULL << 30}; setrlimit(RLIMIT_AS, &rl); }
    SeedRandomStateForTest(SeedRand::FIXED_SEED);      // CRollingBloomFilter draws its tweak from the global RNG: RANDOM_CTX_SEED fixes it
    const std::string mode = argv[1];
    if (mode == "replay_bloom")
        return ReplayMain<BloomWorld>(argv[2], [](const UniValue& i) { return std::make_unique<BloomWorld>(i); },
                                      [](BloomWorld& w, const UniValue& a) { return w.Apply(a); }, [](BloomWorld& w) { return w.Project(); });
    if (mode == "replay_rolling")
        return ReplayMain<RollingWorld>(argv[2], [](const UniValue& i) { return std::make_unique<RollingWorld>(i); },
                                        [](RollingWorld& w, const UniValue& a) { return w.Apply(a); }, [](RollingWorld& w) { return w.Project(); },
                                        /*internal_keys=*/{"gens"});
    if (mode == "replay_gcs")
        return ReplayMain<GcsWorld>(argv[2], [](const UniValue& i) { return std::make_unique<GcsWorld>(i); },
                                    [](GcsWorld& w, const UniValue& a) { return w.Apply(a); }, [](GcsWorld& w) { return w.Project(); });
    return 2;
}
