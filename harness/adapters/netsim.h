// netsim: the shared net-processing fixture of the adapters peerpunish (C36), txdownload (C64), txprivacy (C39) and
// notifications (C63). Header-only; lives next to the adapters that include it (harness/common is the framework's).
// A real regtest node (TestChain100Setup with setup_net = true: ConnmanTestMsg + PeerManager + AddrMan + BanMan), taken out of
// IBD, the PeerManager subscribed to the node's validation signals (as init.cpp does), peers of every connection type /
// permission set created and handshaken exactly as the repository's own tests do (test/util/net.h), serialized messages pushed
// through the peers' real transports, ProcessMessages / SendMessages driven by hand under mock time. Blocks are built by hand
// (valid or invalid, on any parent); transactions spend P2WPKH coins so that witness malleation is real.
#ifndef VFH_NETSIM_H
#define VFH_NETSIM_H
#include <vfh.h>
#include <test/util/net.h>
#include <test/util/setup_common.h>
#include <test/util/validation.h>
#include <addresstype.h>
#include <banman.h>
#include <blockencodings.h>
#include <chainparams.h>
#include <consensus/merkle.h>
#include <consensus/validation.h>
#include <key.h>
#include <net.h>
#include <net_processing.h>
#include <netmessagemaker.h>
#include <node/protocol_version.h>
#include <pow.h>
#include <primitives/block.h>
#include <primitives/transaction.h>
#include <protocol.h>
#include <script/script.h>
#include <script/sign.h>
#include <script/signingprovider.h>
#include <streams.h>
#include <txmempool.h>
#include <util/rbf.h>
#include <util/time.h>
#include <validation.h>
#include <validationinterface.h>
#include <deque>
#include <malloc.h>
#include <map>
#include <optional>
#include <set>

namespace netsim {
using namespace vfh;

struct SentMsg { std::string addr; std::string type; std::vector<unsigned char> data; };
inline std::vector<SentMsg>& SentLog() { static std::vector<SentMsg> v; return v; }

struct PeerSpec {
    ConnectionType conn{ConnectionType::INBOUND};
    NetPermissionFlags perms{NetPermissionFlags::None};
    bool local{false};          // 127.x.y.z (CNetAddr::IsLocal) instead of a routable address
    bool relay_txs{true};       // fRelay of the peer's version message
    bool wtxid{true};           // sends wtxidrelay before verack
    bool sendcmpct{false};      // sends sendcmpct(0, 2) after verack
    bool onion_inbound{false};
};

inline ConnectionType ConnFromString(const std::string& s)
{
    if (s == "inbound") return ConnectionType::INBOUND;
    if (s == "outbound") return ConnectionType::OUTBOUND_FULL_RELAY;
    if (s == "manual") return ConnectionType::MANUAL;
    if (s == "feeler") return ConnectionType::FEELER;
    if (s == "blockrelay") return ConnectionType::BLOCK_RELAY;
    if (s == "addrfetch") return ConnectionType::ADDR_FETCH;
    if (s == "privbroadcast") return ConnectionType::PRIVATE_BROADCAST;
    throw std::runtime_error("unknown connection type " + s);
}

struct SimCoin { COutPoint op; CTxOut out; };

struct NetOptions {
    std::vector<std::string> args;     // e.g. "-blocksonly=1"
    int extra_blocks{60};              // mined on top of the 100-block chain (matures coinbases, gives > 144 blocks of depth)
    int fund_coins{40};                // P2WPKH coins created and confirmed at start
    bool capture{false};               // record every message the node pushes to a peer (SentLog)
};

class NetSim : public TestChain100Setup
{
public:
    CKey key;                          // owner of the P2WPKH coins
    CScript wpkh;                      // P2WPKH script of `key`
    CScript p2pk;                      // P2PK to coinbaseKey (the fixture's coinbase script)
    std::deque<SimCoin> coins;         // unspent confirmed P2WPKH coins
    std::vector<CTransactionRef> funding;   // confirmed funding transactions
    std::vector<CNode*> peers;
    NodeId next_id{0};
    uint32_t next_ip{1};
    int64_t nonce{0};                  // makes hand-built blocks / transactions unique

    static TestOpts MakeOpts(const NetOptions& o)
    {
        // The code under test allocates and frees megabyte-sized rolling bloom filters all the time (per peer, per TxDownloadManager);
        // keep freed memory in the process instead of returning it to the kernel and faulting it in again.
        mallopt(M_MMAP_THRESHOLD, 256 << 20);
        mallopt(M_TRIM_THRESHOLD, 1 << 30);
        mallopt(M_TOP_PAD, 64 << 20);
        TestOpts t;
        t.setup_net = true;
        t.min_validation_cache = true;      // no 32 MiB signature / script caches to allocate and clear per node
        static std::vector<std::string> keep;
        keep = o.args;
        keep.insert(keep.begin(), {"-nodebuglogfile", "-nodebug"});
        for (auto& s : keep) t.extra_args.push_back(s.c_str());
        return t;
    }

    explicit NetSim(const NetOptions& o = {}) : TestChain100Setup(ChainType::REGTEST, MakeOpts(o))
    {
        constexpr std::array<unsigned char, 32> k2 = {{0, 0, 0, 0, 0, 0, 0, 0, 0, 0, 0, 0, 0, 0, 0, 0, 0, 0, 0, 0, 0, 0, 0, 0, 0, 0, 0, 0, 0, 0, 0, 2}};
        key.Set(k2.begin(), k2.end(), true);
        wpkh = GetScriptForDestination(WitnessV0KeyHash(key.GetPubKey()));
        p2pk = CScript() << ToByteVector(coinbaseKey.GetPubKey()) << OP_CHECKSIG;
        // init.cpp: the PeerManager listens to validation events (BlockChecked is how invalid blocks reach the punishment code)
        m_node.validation_signals->RegisterValidationInterface(m_node.peerman.get());
        if (o.extra_blocks > 0) mineBlocks(o.extra_blocks);
        if (o.fund_coins > 0) Fund(o.fund_coins);
        auto& tcm = static_cast<TestChainstateManager&>(*m_node.chainman);
        if (tcm.IsInitialBlockDownload()) tcm.JumpOutOfIbd();
        if (o.capture) {
            SentLog().clear();
            CaptureMessage = [](const CAddress& addr, const std::string& type, std::span<const unsigned char> data, bool incoming) {
                if (!incoming) SentLog().push_back({addr.ToStringAddr(), type, std::vector<unsigned char>(data.begin(), data.end())});
            };
            m_node.connman->SetCaptureMessages(true);
        }
        Sync();
    }
    ~NetSim()
    {
        DropPeers();
        m_node.validation_signals->SyncWithValidationInterfaceQueue();
        m_node.validation_signals->UnregisterValidationInterface(m_node.peerman.get());
    }

    ConnmanTestMsg& connman() { return static_cast<ConnmanTestMsg&>(*m_node.connman); }
    PeerManager& peerman() { return *m_node.peerman; }
    ChainstateManager& cm() { return *m_node.chainman; }
    CTxMemPool& pool() { return *m_node.mempool; }
    CBlockIndex* Tip() { LOCK(cs_main); return cm().ActiveChain().Tip(); }
    CBlockIndex* AtHeight(int h) { LOCK(cs_main); return cm().ActiveChain()[h]; }
    CBlockIndex* Lookup(const uint256& h) { LOCK(cs_main); return cm().m_blockman.LookupBlockIndex(h); }
    const Consensus::Params& consensus() { return Params().GetConsensus(); }
    void Sync() { m_node.validation_signals->SyncWithValidationInterfaceQueue(); }
    void Advance(std::chrono::seconds d) { m_clock += d; }

    // ------------------------------------------------------------------ peers
    CAddress MakeAddr(bool local)
    {
        const uint32_t n = next_ip++;
        struct in_addr s;
        // local: 127.a.b.c (IsLocal); otherwise 45.a.b.c (routable, one address per peer so that discouragement does not leak)
        s.s_addr = htonl(((local ? 127u : 45u) << 24) | (n & 0xffffff));
        return CAddress(CService(CNetAddr(s), Params().GetDefaultPort()), NODE_NONE);
    }

    // Creates the CNode, registers it with the connection manager and performs the version handshake.
    // Must be called with g_msgproc_mutex held.
    CNode& AddPeer(const PeerSpec& s) EXCLUSIVE_LOCKS_REQUIRED(NetEventsInterface::g_msgproc_mutex)
    {
        const CAddress addr = MakeAddr(s.local);
        CNode* node = new CNode{next_id++, /*sock=*/nullptr, addr, /*nKeyedNetGroupIn=*/(uint64_t)next_id, /*nLocalHostNonceIn=*/(uint64_t)next_id + 1000,
                                CAddress(), /*addrNameIn=*/"", s.conn, /*inbound_onion=*/s.onion_inbound, /*network_key=*/(uint64_t)next_id,
                                CNodeOptions{.permission_flags = s.perms}};
        peers.push_back(node);
        connman().AddTestNode(*node);
        Handshake(*node, s);
        return *node;
    }

    void Handshake(CNode& node, const PeerSpec& s) EXCLUSIVE_LOCKS_REQUIRED(NetEventsInterface::g_msgproc_mutex)
    {
        const ServiceFlags services{ServiceFlags(NODE_NETWORK | NODE_WITNESS)};
        peerman().InitializeNode(node, services);
        peerman().SendMessages(node);
        connman().FlushSendBuffer(node);
        Receive(node, NetMsg::Make(NetMsgType::VERSION, PROTOCOL_VERSION, Using<CustomUintFormatter<8>>(services), int64_t{}, int64_t{},
                                   CNetAddr::V1(CService{}), int64_t{}, CNetAddr::V1(CService{}), uint64_t{1 + (uint64_t)node.GetId()},
                                   std::string{}, int32_t{}, s.relay_txs));
        Step(node);
        if (node.fDisconnect) return;          // feelers are done after the version message
        if (s.wtxid) { Receive(node, NetMsg::Make(NetMsgType::WTXIDRELAY)); Step(node); }
        Receive(node, NetMsg::Make(NetMsgType::VERACK));
        Step(node);
        if (!node.fSuccessfullyConnected) throw std::runtime_error("handshake did not complete");
        if (s.sendcmpct && !node.fDisconnect) { Receive(node, NetMsg::Make(NetMsgType::SENDCMPCT, /*high_bandwidth=*/false, /*version=*/CMPCTBLOCKS_VERSION)); Step(node); }
        connman().FlushSendBuffer(node);
    }

    void Receive(CNode& node, CSerializedNetMsg&& msg)
    {
        connman().FlushSendBuffer(node);
        (void)connman().ReceiveMsgFrom(node, std::move(msg));
    }
    void ReceiveRaw(CNode& node, const std::string& type, std::vector<unsigned char> payload)
    {
        CSerializedNetMsg m; m.m_type = type; m.data = std::move(payload);
        Receive(node, std::move(m));
    }
    // one round of the message handler thread for this peer
    bool Step(CNode& node) EXCLUSIVE_LOCKS_REQUIRED(NetEventsInterface::g_msgproc_mutex)
    {
        node.fPauseSend = false;
        const bool more = connman().ProcessMessagesOnce(node);
        peerman().SendMessages(node);
        return more;
    }
    // the handler runs until the peer has nothing left to process; validation callbacks are drained
    void Pump(CNode& node) EXCLUSIVE_LOCKS_REQUIRED(NetEventsInterface::g_msgproc_mutex)
    {
        for (int i = 0; i < 200; ++i) {
            const bool more = Step(node);
            if (!more) break;
        }
        Sync();
        peerman().SendMessages(node);
    }
    template <typename... Args>
    void Deliver(CNode& node, const std::string& type, Args&&... args) EXCLUSIVE_LOCKS_REQUIRED(NetEventsInterface::g_msgproc_mutex)
    {
        Receive(node, NetMsg::Make(type, std::forward<Args>(args)...));
        Pump(node);
    }
    void DeliverRaw(CNode& node, const std::string& type, std::vector<unsigned char> payload) EXCLUSIVE_LOCKS_REQUIRED(NetEventsInterface::g_msgproc_mutex)
    {
        ReceiveRaw(node, type, std::move(payload));
        Pump(node);
    }
    bool Discouraged(const CNode& node) { return m_node.banman->IsDiscouraged(node.addr); }

    void DropPeers()
    {
        for (CNode* n : peers) peerman().FinalizeNode(*n);
        peers.clear();
        connman().ClearTestNodes();
    }

    // ------------------------------------------------------------------ transactions
    void SignWpkh(CMutableTransaction& mtx, size_t i, const CTxOut& spent)
    {
        FillableSigningProvider keystore; keystore.AddKey(key); keystore.AddKey(coinbaseKey);
        SignatureData sd;
        if (!ProduceSignature(keystore, MutableTransactionSignatureCreator(mtx, i, spent.nValue, SignOptions{.sighash_type = SIGHASH_ALL}), spent.scriptPubKey, sd)) throw std::runtime_error("signing failed");
        UpdateInput(mtx.vin.at(i), sd);
    }
    SimCoin TakeCoin()
    {
        if (coins.empty()) Fund(100);
        SimCoin c = coins.front(); coins.pop_front(); return c;
    }
    // spends `ins` into n_out P2WPKH outputs sharing (inputs - fee); signed
    CMutableTransaction Spend(const std::vector<SimCoin>& ins, int n_out = 1, CAmount fee = 20000, bool sign = true)
    {
        CMutableTransaction m; m.version = 2;
        CAmount total = 0;
        for (const auto& c : ins) { m.vin.emplace_back(c.op, CScript(), MAX_BIP125_RBF_SEQUENCE); total += c.out.nValue; }
        for (int i = 0; i < n_out; ++i) m.vout.emplace_back((total - fee) / n_out, wpkh);
        if (sign) for (size_t i = 0; i < ins.size(); ++i) SignWpkh(m, i, ins[i].out);
        return m;
    }
    static SimCoin OutputOf(const CTransaction& tx, uint32_t n) { return SimCoin{COutPoint(tx.GetHash(), n), tx.vout.at(n)}; }
    static SimCoin OutputOf(const CMutableTransaction& tx, uint32_t n) { return OutputOf(CTransaction(tx), n); }

    // the next coinbase of the active chain (lowest height first) that a block on the current tip may spend; every block of the fixture
    // and every hand-built block pays its subsidy to the P2PK script of coinbaseKey
    int next_cb_height{1};
    CTransactionRef NextMatureCoinbase()
    {
        for (int attempt = 0; attempt < 2; ++attempt) {
            while (next_cb_height + COINBASE_MATURITY <= Tip()->nHeight + 1) {
                CBlockIndex* pi = AtHeight(next_cb_height++);
                CBlock b;
                if (!pi || !cm().m_blockman.ReadBlock(b, *pi)) continue;
                const CTxOut& o = b.vtx[0]->vout[0];
                if (o.scriptPubKey == p2pk && o.nValue >= 50 * CENT) return b.vtx[0];
            }
            mineBlocks(25);         // (only after thousands of tests on one node)
        }
        throw std::runtime_error("netsim: no mature coinbase left");
    }
    // confirms `n` P2WPKH coins (fan-out transactions spending mature coinbases, mined at once)
    void Fund(int n)
    {
        std::vector<CTransactionRef> txs;
        int made = 0;
        while (made < n) {
            const CTransactionRef cb = NextMatureCoinbase();
            const int k = std::min(25, n - made);
            CMutableTransaction m; m.version = 2;
            m.vin.emplace_back(COutPoint(cb->GetHash(), 0), CScript(), MAX_BIP125_RBF_SEQUENCE);
            for (int i = 0; i < k; ++i) m.vout.emplace_back((cb->vout[0].nValue - 100000) / k, wpkh);
            SignWpkh(m, 0, cb->vout[0]);
            txs.push_back(MakeTransactionRef(m)); made += k;
        }
        auto sp = OnTip(); sp.txs = txs;
        const auto b = BuildBlock(sp);
        if (!SubmitOwn(b) || Tip()->GetBlockHash() != b->GetHash()) throw std::runtime_error("netsim: funding block not connected");
        m_clock += std::chrono::seconds{1};
        for (const auto& t : txs) {
            funding.push_back(t);
            for (uint32_t i = 0; i < t->vout.size(); ++i) coins.push_back(OutputOf(*t, i));
        }
    }

    // ------------------------------------------------------------------ blocks
    struct BlockSpec {
        uint256 prev; int height{0}; int64_t time{0};
        std::vector<CTransactionRef> txs;
        CAmount cb_value{-1};                 // -1: the subsidy
        int cb_height{-1};                    // BIP34 height in the coinbase (-1: correct)
        uint32_t bits{0};                     // 0: the regtest limit
        bool second_coinbase{false};
        bool solve{true};                     // false: grind the nonce until the proof of work is INVALID
    };
    BlockSpec OnTip()
    {
        CBlockIndex* tip = Tip();
        BlockSpec s; s.prev = tip->GetBlockHash(); s.height = tip->nHeight + 1;
        s.time = std::max<int64_t>(tip->GetMedianTimePast() + 1, GetTime());
        return s;
    }
    BlockSpec OnBlock(const CBlockIndex* p)
    {
        BlockSpec s; s.prev = p->GetBlockHash(); s.height = p->nHeight + 1;
        s.time = std::max<int64_t>(p->GetMedianTimePast() + 1, p->GetBlockTime() + 1);
        return s;
    }
    std::shared_ptr<CBlock> BuildBlock(const BlockSpec& s)
    {
        auto b = std::make_shared<CBlock>();
        b->nVersion = 0x20000000; b->hashPrevBlock = s.prev; b->nTime = (uint32_t)s.time;
        b->nBits = s.bits ? s.bits : Params().GenesisBlock().nBits;
        CMutableTransaction cb;
        cb.vin.resize(1); cb.vin[0].prevout.SetNull();
        cb.vin[0].scriptSig = CScript() << (s.cb_height < 0 ? s.height : s.cb_height) << CScriptNum(100000 + (++nonce));
        cb.vout.resize(1); cb.vout[0].nValue = s.cb_value < 0 ? GetBlockSubsidy(s.height, consensus()) : s.cb_value; cb.vout[0].scriptPubKey = p2pk;
        b->vtx.push_back(MakeTransactionRef(cb));
        if (s.second_coinbase) { CMutableTransaction cb2(cb); cb2.vin[0].scriptSig = CScript() << s.height << CScriptNum(100000 + (++nonce)); b->vtx.push_back(MakeTransactionRef(cb2)); }
        for (const auto& t : s.txs) b->vtx.push_back(t);
        bool has_witness = false;
        for (const auto& t : b->vtx) has_witness = has_witness || t->HasWitness();
        if (has_witness) AddWitnessCommitment(*b);
        b->hashMerkleRoot = BlockMerkleRoot(*b);
        Grind(*b, s.solve);
        return b;
    }
    static void AddWitnessCommitment(CBlock& b)
    {
        CMutableTransaction cb2(*b.vtx[0]);
        cb2.vin[0].scriptWitness.stack = {std::vector<unsigned char>(32, 0x00)};
        b.vtx[0] = MakeTransactionRef(cb2);
        const uint256 root = BlockWitnessMerkleRoot(b);
        uint256 commit;
        CHash256().Write(root).Write(cb2.vin[0].scriptWitness.stack[0]).Finalize(commit);
        CTxOut out; out.nValue = 0;
        out.scriptPubKey.resize(38);
        out.scriptPubKey[0] = OP_RETURN; out.scriptPubKey[1] = 0x24; out.scriptPubKey[2] = 0xaa; out.scriptPubKey[3] = 0x21; out.scriptPubKey[4] = 0xa9; out.scriptPubKey[5] = 0xed;
        memcpy(&out.scriptPubKey[6], commit.begin(), 32);
        cb2.vout.push_back(out);
        b.vtx[0] = MakeTransactionRef(cb2);
    }
    void Grind(CBlockHeader& b, bool valid) { while (CheckProofOfWork(b.GetHash(), b.nBits, consensus()) != valid) ++b.nNonce; }
    // the node processes a block of its own (no peer involved)
    bool SubmitOwn(const std::shared_ptr<const CBlock>& b)
    {
        bool nb{false};
        const bool r = cm().ProcessNewBlock(b, /*force_processing=*/true, /*min_pow_checked=*/true, &nb);
        Sync();
        return r;
    }
    static std::vector<unsigned char> Ser(const CBlock& b) { DataStream ds; ds << TX_WITH_WITNESS(b); return {UCharCast(ds.data()), UCharCast(ds.data()) + ds.size()}; }
    static std::vector<unsigned char> Ser(const CTransaction& t, bool with_witness = true)
    {
        DataStream ds; if (with_witness) ds << TX_WITH_WITNESS(t); else ds << TX_NO_WITNESS(t);
        return {UCharCast(ds.data()), UCharCast(ds.data()) + ds.size()};
    }
    static std::vector<unsigned char> SerHeaders(const std::vector<CBlockHeader>& hs)
    {
        DataStream ds; WriteCompactSize(ds, hs.size());
        for (const auto& h : hs) { ds << h; WriteCompactSize(ds, 0); }
        return {UCharCast(ds.data()), UCharCast(ds.data()) + ds.size()};
    }
};

// messages the node pushed to `addr` since `from` (index into SentLog)
inline std::vector<const SentMsg*> SentTo(const CNode& node, size_t from = 0)
{
    std::vector<const SentMsg*> v;
    const std::string a = node.addr.ToStringAddr();
    for (size_t i = from; i < SentLog().size(); ++i) if (SentLog()[i].addr == a) v.push_back(&SentLog()[i]);
    return v;
}

} // namespace netsim
#endif
