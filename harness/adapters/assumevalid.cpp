// Adapter for specs/AssumeValid (C57): every row of the TLC-enumerated table is a header tree (main branch, optional side branch),
// the position of one block with a failing-script spend, an assumed-valid block and a minimum chain work. For each row a fresh
// regtest node is configured with that assumed-valid hash / minimum chain work, is given all headers of the tree, then the blocks
// of the bad block's branch in order; the verdict of the bad block is compared with the specification's (SAFE: a node that
// verifies where it could have skipped is counted, not reported).
//   assumevalid table <rows.ndjson>
//   assumevalid history <tests.ndjson> <hb> <fork> <avh> <farh>      connection histories of specs/AssumeValid/AssumeValidHist.tla
#include <chainsim.h>
using namespace vfh;

namespace {
struct Chain {
    uint256 parent_hash; int parent_height{0}; int64_t parent_time{0};
    bool bad{false}; int nonce{0};
    std::vector<std::shared_ptr<CBlock>> blocks;          // blocks[i] has height parent_height + 1 + i
    const CBlock& At(int h) const { return *blocks.at(h - parent_height - 1); }
    std::shared_ptr<CBlock> Ptr(int h) const { return blocks.at(h - parent_height - 1); }
    int Top() const { return parent_height + (int)blocks.size(); }
};
std::map<std::string, Chain> g_chains;      // built once per process, shared by all rows
int g_hb{0};

CTransactionRef BadTx(const CBlock& block1)
{
    // spends the coinbase of height 1 (P2PK) with an empty signature: inputs exist, amounts are fine, only the script fails
    CMutableTransaction m; m.version = 1;
    m.vin.emplace_back(COutPoint(block1.vtx[0]->GetHash(), 0));
    m.vin[0].scriptSig = CScript() << OP_0;
    m.vout.emplace_back(1 * COIN, CScript() << OP_TRUE);
    m.vout.emplace_back(0, CScript() << OP_RETURN << std::vector<unsigned char>(30, 0xAB));
    return MakeTransactionRef(m);
}

// extends chain `c` to height `top` (blocks are only built, never submitted)
struct NeedBuilder {};
void Extend(ChainSim* simp, Chain& c, int top, const CBlock* block1)
{
    if (c.Top() >= top) return;
    if (!simp) throw NeedBuilder{};
    ChainSim& sim = *simp;
    uint256 prev = c.blocks.empty() ? c.parent_hash : c.blocks.back()->GetHash();
    int64_t t = c.blocks.empty() ? c.parent_time : c.blocks.back()->GetBlockTime();
    for (int h = c.Top() + 1; h <= top; ++h) {
        ChainSim::BlockSpec s; s.prev = prev; s.height = h; s.time = ++t; s.extra_nonce = c.nonce;
        s.cb_value = h == 1 ? GetBlockSubsidy(1, sim.consensus()) : 0;
        if (c.bad && h == g_hb) s.txs.push_back(BadTx(block1 ? *block1 : *c.blocks.at(0)));
        auto b = sim.BuildBlock(s);
        c.blocks.push_back(b);
        prev = b->GetHash();
    }
}

struct Tree {
    Chain* main{nullptr}; Chain* side{nullptr}; int fork{0};
    const CBlock& Block(const std::string& br, int h) const { return (br == "s" && h > fork) ? side->At(h) : main->At(h); }
    std::shared_ptr<CBlock> Ptr(const std::string& br, int h) const { return (br == "s" && h > fork) ? side->Ptr(h) : main->Ptr(h); }
};

Tree GetTree(ChainSim* sim, bool bad_on_main, bool bad_on_side, int fork, int mainlen, int sidelen)
{
    if (!sim && g_chains.empty()) throw NeedBuilder{};      // no chain parameters yet
    const CBlock& g = Params().GenesisBlock();
    const std::string mk = bad_on_main ? "main_bad" : "main_clean";
    Chain& m = g_chains[mk];
    if (m.blocks.empty() && m.parent_hash.IsNull()) { m.parent_hash = g.GetHash(); m.parent_height = 0; m.parent_time = g.GetBlockTime(); m.bad = bad_on_main; m.nonce = 7; }
    Extend(sim, m, std::max(mainlen, fork), nullptr);
    Tree t; t.main = &m; t.fork = fork;
    if (sidelen > 0) {
        const std::string sk = mk + "/side@" + std::to_string(fork) + (bad_on_side ? "_bad" : "_clean");
        Chain& s = g_chains[sk];
        if (s.blocks.empty() && s.parent_hash.IsNull()) {
            s.parent_hash = m.At(fork).GetHash(); s.parent_height = fork; s.parent_time = m.At(fork).GetBlockTime(); s.bad = bad_on_side; s.nonce = 1000 + fork;
        }
        Extend(sim, s, sidelen, &m.At(1));
        t.side = &s;
    }
    return t;
}

void FeedHeaders(ChainSim& sim, const Chain& c, int from, int to)
{
    std::vector<CBlockHeader> batch;
    for (int h = from; h <= to; ++h) {
        batch.push_back(static_cast<const CBlockHeader&>(c.At(h)));
        if (batch.size() == 2000 || h == to) {
            BlockValidationState st;
            if (!sim.cm().ProcessNewBlockHeaders(batch, /*min_pow_checked=*/true, st)) throw std::runtime_error("header rejected: " + st.ToString());
            batch.clear();
        }
    }
}

std::string CheckRow(const UniValue& row)
{
    g_hb = row["bad"]["h"].getInt<int>();
    const std::string bad_br = row["bad"]["br"].get_str();
    const int fork = row["fork"].getInt<int>(), mainlen = row["mainlen"].getInt<int>(), sidelen = row["sidelen"].getInt<int>();
    const std::string av = row["av"].get_str();

    // The chains do not depend on the node's configuration and are cached for the whole process; building needs chain parameters,
    // which exist only while a node exists, and the assumed-valid hash must be known before the row's node is created: a shape
    // seen for the first time is built with a throw-away node.
    Tree tree;
    try { tree = GetTree(nullptr, bad_br == "m", bad_br == "s", fork, mainlen, sidelen); }
    catch (const NeedBuilder&) { auto tmp = MakeSim(SimOptions{}); tree = GetTree(tmp.get(), bad_br == "m", bad_br == "s", fork, mainlen, sidelen); }
    SimOptions o;
    o.min_chain_work = arith_uint256((uint64_t)row["minwork"].getInt<int64_t>());
    uint256 av_hash;
    if (av == "unknown") av_hash = uint256{0x77};
    if (av == "set") av_hash = tree.Block(row["avb"]["br"].get_str(), row["avb"]["h"].getInt<int>()).GetHash();
    if (av != "unset") o.assumed_valid = av_hash;
    auto sim = MakeSim(o);
    const int64_t g = Params().GenesisBlock().nTime;
    SetMockTime(g + 1000000);
    if (sim->cm().AssumedValidBlock() != (av == "unset" ? uint256{} : av_hash)) return "harness: the node did not take the assumed-valid setting";
    if (sim->cm().MinimumChainWork() != *o.min_chain_work) return "harness: the node did not take the minimum chain work";

    // all headers first: main, then the side branch
    FeedHeaders(*sim, *tree.main, 1, mainlen);
    if (sidelen > 0) FeedHeaders(*sim, *tree.side, fork + 1, sidelen);
    {
        LOCK(cs_main);
        const CBlockIndex* best = sim->cm().m_best_header;
        const uint256 want = tree.Block(row["best"]["br"].get_str(), row["best"]["h"].getInt<int>()).GetHash();
        if (!best || best->GetBlockHash() != want) return "harness: best header is not the one the row describes";
        if (best->nChainWork != arith_uint256((uint64_t)(2 * (row["best"]["h"].getInt<int>() + 1)))) return "harness: work of the best header is not 2 * (height + 1)";
    }
    // then the blocks of the bad block's branch, in order, up to the bad block
    const uint256 bad_hash = tree.Block(bad_br, g_hb).GetHash();
    for (int h = 1; h <= g_hb; ++h) {
        auto b = tree.Ptr(bad_br, h);
        sim->SubmitBlock(b, true);
        if (h < g_hb && sim->Tip()->GetBlockHash() != b->GetHash()) return "harness: block " + std::to_string(h) + " below the bad block was not connected: " + sim->Reason(b->GetHash());
    }
    const bool accepted = sim->Tip()->GetBlockHash() == bad_hash;
    const std::string why = sim->Reason(bad_hash);
    const bool script_reject = why.rfind("block-script-verify-flag-failed", 0) == 0 || why.rfind("mandatory-script-verify-flag-failed", 0) == 0;
    if (!accepted && !script_reject) return "harness: the bad block was neither connected nor rejected for its script (reason '" + why + "')";
    {
        LOCK(cs_main);
        const CBlockIndex* pi = sim->cm().m_blockman.LookupBlockIndex(bad_hash);
        if (!pi) return "harness: bad block has no index entry";
        if (accepted && !pi->IsValid(BLOCK_VALID_SCRIPTS)) return "connected block is not marked BLOCK_VALID_SCRIPTS";
        if (!accepted && !(pi->nStatus & BLOCK_FAILED_VALID)) return "rejected block is not marked failed";
    }
    const bool skip = row["skip"].get_bool();
    R().Count(accepted ? "accepted" : "rejected_for_script");
    if (accepted && !skip) return "block with a failing script was ACCEPTED although the assumed-valid conditions do not hold (specification: verify, reason '" + row["reason"].get_str() + "')";
    if (!accepted && skip) R().Count("verified_where_skip_allowed");     // more conservative than the property requires: not a violation
    return "";
}

// ---------------------------------------------------------------------------------------------------------------------------------
// Connection histories (specs/AssumeValid/AssumeValidHist.tla): the bad block X = main[hb] is connected, disconnected (reorg to a side
// branch, or invalidateblock), the header tree changes, and X is connected again. Compared after every step: is X in the active
// chain, is it marked failed, the tip, the best header. SAFE: X missing where the model allows skipping = counted, test ends.
struct Geo { int hb, fork, avh, farh; } g_geo;
struct HistWorld {
    std::unique_ptr<ChainSim> sim;
    Tree tree;
    int mainhdr{0}, sidefull{0};
    uint256 xhash;
    explicit HistWorld(const UniValue& cfg)
    {
        g_hb = g_geo.hb;
        const int dist0 = cfg["dist0"].getInt<int>();
        mainhdr = g_geo.hb + dist0; sidefull = g_geo.hb + dist0 + 6;
        try { tree = GetTree(nullptr, true, false, g_geo.fork, mainhdr, sidefull); }
        catch (const NeedBuilder&) { auto tmp = MakeSim(SimOptions{}); tree = GetTree(tmp.get(), true, false, g_geo.fork, mainhdr, sidefull); }
        SimOptions o;
        const uint64_t w = 2 * (uint64_t)(mainhdr + 1);
        o.min_chain_work = arith_uint256(cfg["mcw"].get_str() == "below" ? w - 1 : w + 1);
        if (cfg["av"].get_str() == "set") o.assumed_valid = tree.Block("m", g_geo.avh).GetHash();
        sim = MakeSim(o);
        SetMockTime(Params().GenesisBlock().nTime + 1000000);
        xhash = tree.Block("m", g_geo.hb).GetHash();
    }
    void Apply(const std::string& op)
    {
        if (op == "start") {
            FeedHeaders(*sim, *tree.main, 1, mainhdr);
            for (int h = 1; h <= g_geo.hb; ++h) sim->SubmitBlock(tree.Ptr("m", h), true);
        } else if (op == "forkaway") {
            for (int h = g_geo.fork + 1; h <= g_geo.hb + 1; ++h) sim->SubmitBlock(tree.Ptr("s", h), true);
        } else if (op == "sidehdrs") {
            FeedHeaders(*sim, *tree.side, g_geo.fork + 1, sidefull);
        } else if (op == "invfar") {
            sim->Invalidate(tree.Block("m", g_geo.farh).GetHash());
        } else if (op == "comeback") {
            sim->SubmitBlock(tree.Ptr("m", g_geo.hb + 1), true);
            sim->SubmitBlock(tree.Ptr("m", g_geo.hb + 2), true);
        } else if (op == "invx") {
            sim->Invalidate(xhash);
        } else if (op == "reconsx") {
            sim->Reconsider(xhash);
        } else throw std::runtime_error("unknown op " + op);
    }
    UniValue Where(const CBlockIndex* pi)
    {
        if (!pi) return Obj({{"br", "none"}, {"h", -1}});
        const int h = pi->nHeight;
        if (h == 0) return Obj({{"br", "m"}, {"h", 0}});
        if (h <= tree.main->Top() && tree.main->At(h).GetHash() == pi->GetBlockHash()) return Obj({{"br", "m"}, {"h", h}});
        if (tree.side && h > g_geo.fork && h <= tree.side->Top() && tree.side->At(h).GetHash() == pi->GetBlockHash()) return Obj({{"br", "s"}, {"h", h}});
        return Obj({{"br", "unknown"}, {"h", h}});
    }
    UniValue Project()
    {
        LOCK(cs_main);
        auto& cm = sim->cm();
        const CBlockIndex* px = cm.m_blockman.LookupBlockIndex(xhash);
        return Obj({{"xin", px && cm.ActiveChain().Contains(*px)}, {"xfailed", px && (px->nStatus & BLOCK_FAILED_VALID) != 0},
                    {"tip", Where(cm.ActiveChain().Tip())}, {"best", Where(cm.m_best_header)}});
    }
};

int History(const std::string& path)
{
    InstallAbortHandlers();
    ForEachLine(path, [&](size_t n, const UniValue& t) {
        R().cur_test = n; R().cur_step = 0; R().cur_action = UniValue::VNULL;
        std::unique_ptr<HistWorld> w;
        const UniValue& st = t["steps"];
        for (size_t i = 0; i < st.size(); ++i) {
            R().cur_step = i; R().cur_action = st[i]["a"];
            std::string why; bool diverged = false;
            try {
                if (!w) w = std::make_unique<HistWorld>(t["init"]["cfg"]);
                w->Apply(st[i]["a"][0].get_str());
                const UniValue have = w->Project();
                const UniValue& exp = st[i]["exp"];
                const bool hx = have["xin"].get_bool(), ex = exp["xin"].get_bool();
                if (hx && !ex) why = "the block with the failing script is in the active chain although the assumed-valid conditions did not hold at this connection (model: not connected by this step; conditions at its last successful connection: " + exp["last"].get_str() + ")";
                else if (!hx && ex) { R().Count("verified_where_skip_allowed"); diverged = true; }
                else for (const char* k : {"xfailed", "tip", "best"}) { if (why.empty() && exp["started"].get_bool()) why = JsonDiff(exp[k], have[k], std::string("state.") + k); }
                if (why.empty() && !diverged) R().Count(hx ? "steps_with_bad_block_in_chain" : "steps_with_bad_block_out");
            } catch (const std::exception& e) { why = std::string("exception: ") + e.what(); }
            ++R().steps;
            if (!why.empty()) { R().Mismatch(st[i]["a"], why); break; }
            if (diverged) break;
        }
        ++R().tests;
    });
    R().Summary();
    return 0;
}
} // namespace

int main(int argc, char** argv)
{
    if (argc < 3) { std::cerr << "usage: assumevalid table <rows>\n"; return 2; }
    if (std::string(argv[1]) == "table") return TableMain(argv[2], CheckRow);
    if (std::string(argv[1]) == "history" && argc >= 7) { g_geo = Geo{atoi(argv[3]), atoi(argv[4]), atoi(argv[5]), atoi(argv[6])}; return History(argv[2]); }
    return 2;
}
