#include <chainsim.h>
#include <chrono>
using namespace vfh;
int main(int argc, char** argv) {
    auto t0 = std::chrono::steady_clock::now();
    int n = argc > 1 ? atoi(argv[1]) : 20;
    for (int i = 0; i < n; ++i) { auto s = MakeSim(); }
    auto t1 = std::chrono::steady_clock::now();
    std::cout << "per sim ms: " << std::chrono::duration<double, std::milli>(t1 - t0).count() / n << "\n";
    return 0;
}
