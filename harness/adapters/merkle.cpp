// Adapter for specs/Merkle (C04 part (a), engine E4; also the partial-merkle-tree rows of C51).
//   table       rows of Merkle.tla:      ComputeMerkleRoot / BlockMerkleRoot / TransactionMerklePath / BlockWitnessMerkleRoot
//   pmt         rows of Pmt.tla:         CPartialMerkleTree / CMerkleBlock: build, wire round trip, ExtractMatches (C51)
//   blocktable  rows of MerkleBlock.tla: IsBlockMutated and CheckBlock on real blocks (header root and commitment fixed by the
//                                        genuine block, body changed)
// The specification's values are *terms* over an injective pair constructor: "(" left "," right ")" with identifiers as leaves.
// The harness evaluates a term with plain double-SHA256 over the 64-byte concatenation (CSHA256, written out here; not the
// SHA256D64 / Hash() paths the code under test uses) -- that is the independent reference the property asks for.
#include <vfh.h>
#include <chainparams.h>
#include <consensus/merkle.h>
#include <consensus/validation.h>
#include <core_io.h>
#include <merkleblock.h>
#include <streams.h>
#include <set>
#include <crypto/sha256.h>
#include <primitives/block.h>
#include <primitives/transaction.h>
#include <script/script.h>
#include <uint256.h>
#include <util/chaintype.h>
#include <validation.h>
#include <map>
using namespace vfh;

namespace {
uint256 DSha(const uint256& a, const uint256& b)
{
    unsigned char t[32]; uint256 out;
    CSHA256().Write(a.begin(), 32).Write(b.begin(), 32).Finalize(t);
    CSHA256().Write(t, 32).Finalize(out.begin());
    return out;
}
using LeafFn = std::function<uint256(const std::string&)>;
struct TermEval {
    const std::string& s; size_t pos{0}; const LeafFn& leaf;
    uint256 Node()
    {
        if (pos < s.size() && s[pos] == '(') {
            ++pos; uint256 a = Node();
            if (pos >= s.size() || s[pos] != ',') throw std::runtime_error("term: ',' expected in " + s.substr(0, 80));
            ++pos; uint256 b = Node();
            if (pos >= s.size() || s[pos] != ')') throw std::runtime_error("term: ')' expected in " + s.substr(0, 80));
            ++pos; return DSha(a, b);
        }
        size_t e = pos;
        while (e < s.size() && s[e] != ',' && s[e] != ')' && s[e] != '(') ++e;
        if (e == pos) throw std::runtime_error("term: empty leaf in " + s.substr(0, 80));
        std::string tok = s.substr(pos, e - pos); pos = e;
        return leaf(tok);
    }
};
uint256 Eval(const std::string& term, const LeafFn& leaf)
{
    TermEval ev{term, 0, leaf};
    uint256 r = ev.Node();
    if (ev.pos != term.size()) throw std::runtime_error("term: trailing characters in " + term.substr(0, 80));
    return r;
}

const std::vector<unsigned char> NONCE(32, 0x5a);
uint256 NonceAsHash() { uint256 n; memcpy(n.begin(), NONCE.data(), 32); return n; }

// the transaction standing for leaf `id` in witness version wv ("w0": no witness, "w1", "w2": two different witnesses)
std::map<std::string, CTransactionRef> g_txs;
CTransactionRef Tx(const std::string& id, const std::string& wv)
{
    const std::string key = id + "." + wv;
    auto it = g_txs.find(key);
    if (it != g_txs.end()) return it->second;
    CMutableTransaction mtx;
    if (id == "p" || id == "q" || id == "(p,q)") {
        // the mined triple of src/test/validation_tests.cpp: serialisation of the third = txid(first) || txid(second)
        const char* hex = id == "p" ? "ff204bd0000000000000" : id == "q" ? "8ae53c92000000000000" :
            "cdaf22d00002c6a7f848f8ae4d30054e61dcf3303d6fe01d282163341f06feecc10032b3160fcab87bdfe3ecfb769206ef2d991b92f8a268e423a6ef4d485f06";
        if (!DecodeHexTx(mtx, hex, /*try_no_witness=*/true, /*try_witness=*/false)) throw std::runtime_error("cannot decode fixed transaction");
    } else {
        mtx.vin.resize(1);
        uint256 h; CSHA256().Write((const unsigned char*)id.data(), id.size()).Finalize(h.begin());
        mtx.vin[0].prevout = COutPoint(Txid::FromUint256(h), 0);
        mtx.vin[0].scriptSig = CScript() << std::vector<unsigned char>(id.begin(), id.end());
        mtx.vout.resize(1); mtx.vout[0].nValue = 1; mtx.vout[0].scriptPubKey = CScript() << OP_TRUE;
    }
    if (wv != "w0") {
        if (mtx.vin.empty()) throw std::runtime_error("fixed transactions have no witness version");
        std::vector<unsigned char> item(id.begin(), id.end());
        item.push_back(wv == "w1" ? 0x01 : 0x02);
        mtx.vin[0].scriptWitness.stack = {item};
    }
    auto tx = MakeTransactionRef(mtx);
    g_txs[key] = tx;
    return tx;
}

std::string Hex(const uint256& h) { return h.GetHex(); }

// ---- mode table ------------------------------------------------------------------------------------------------------------
std::string CheckMerkleRow(const UniValue& row)
{
    const UniValue& v = row["v"];
    const UniValue& l = row["l"];
    // every leaf carries a witness so that wtxid != txid and the two trees cannot be confused
    const LeafFn txid = [](const std::string& id) { return id == "0" ? uint256() : Tx(id, "w1")->GetHash().ToUint256(); };
    const LeafFn wtxid = [](const std::string& id) { return id == "0" ? uint256() : Tx(id, "w1")->GetWitnessHash().ToUint256(); };
    CBlock block, base;
    std::vector<uint256> hashes;
    for (size_t i = 0; i < v.size(); ++i) { block.vtx.push_back(Tx(v[i].get_str(), "w1")); hashes.push_back(block.vtx.back()->GetHash().ToUint256()); }
    for (size_t i = 0; i < l.size(); ++i) base.vtx.push_back(Tx(l[i].get_str(), "w1"));
    const uint256 ref_root = Eval(row["root"].get_str(), txid);
    const bool exp_mut = row["mutated"].get_bool();
    bool mut = !exp_mut;
    const uint256 r1 = ComputeMerkleRoot(hashes, &mut);
    if (r1 != ref_root) return "ComputeMerkleRoot = " + Hex(r1) + ", reference evaluation of the specification's term = " + Hex(ref_root);
    if (mut != exp_mut) return std::string("ComputeMerkleRoot reports mutated=") + (mut ? "true" : "false") + ", specification says " + (exp_mut ? "true" : "false");
    if (ComputeMerkleRoot(hashes) != ref_root) return "ComputeMerkleRoot without mutation flag gives a different root";
    bool mut2 = !exp_mut;
    if (BlockMerkleRoot(block, &mut2) != ref_root) return "BlockMerkleRoot differs from the reference";
    if (mut2 != exp_mut) return "BlockMerkleRoot reports a different mutation flag than the specification";
    if (BlockMerkleRoot(block) != ref_root) return "BlockMerkleRoot without mutation flag gives a different root";
    // the CVE-2012-2459 statement on real hashes: the variant and the list it was derived from have one root
    bool mutl = false;
    if (BlockMerkleRoot(base, &mutl) != ref_root) return "real root of the base list differs from the real root of its variant";
    if (mutl != row["lmutated"].get_bool()) return "mutation flag of the base list differs from the specification";
    // paths
    auto check_path = [&](size_t pos, const UniValue& terms) -> std::string {
        const std::vector<uint256> have = TransactionMerklePath(block, pos);
        if (have.size() != terms.size()) return "TransactionMerklePath(" + std::to_string(pos) + ") has " + std::to_string(have.size()) + " entries, specification " + std::to_string(terms.size());
        uint256 fold = hashes[pos]; uint32_t idx = pos;
        for (size_t k = 0; k < have.size(); ++k) {
            if (have[k] != Eval(terms[k].get_str(), txid)) return "TransactionMerklePath(" + std::to_string(pos) + ")[" + std::to_string(k) + "] differs from the specification's sibling";
            fold = (idx & 1) ? DSha(have[k], fold) : DSha(fold, have[k]); idx >>= 1;
        }
        if (fold != ref_root) return "path of position " + std::to_string(pos) + " does not fold to the root";
        R().Count("paths");
        return "";
    };
    if (row.exists("paths")) {
        for (size_t i = 0; i < row["paths"].size(); ++i) { std::string w = check_path(i, row["paths"][i]); if (!w.empty()) return w; }
    }
    if (row.exists("ppos") && row["ppos"].isObject()) {     // (an empty function is printed as [])
        for (const auto& k : row["ppos"].getKeys()) { std::string w = check_path(std::stoul(k) - 1, row["ppos"][k]); if (!w.empty()) return w; }
    }
    // witness tree: coinbase leaf = 0, the other leaves are wtxids
    const uint256 ref_w = Eval(row["wroot"].get_str(), wtxid);
    if (BlockWitnessMerkleRoot(block) != ref_w) return "BlockWitnessMerkleRoot = " + Hex(BlockWitnessMerkleRoot(block)) + ", reference = " + Hex(ref_w);
    if (exp_mut) R().Count("mutated_rows");
    return "";
}

// ---- mode pmt (C51) ----------------------------------------------------------------------------------------------------------
std::string CheckPmtRow(const UniValue& row)
{
    const UniValue& l = row["l"];
    const UniValue& m = row["m"];
    const LeafFn txid = [](const std::string& id) { return id == "0" ? uint256() : Tx(id, "w0")->GetHash().ToUint256(); };
    std::vector<Txid> ids; std::vector<bool> match;
    CBlock block;
    for (size_t i = 0; i < l.size(); ++i) { block.vtx.push_back(Tx(l[i].get_str(), "w0")); ids.push_back(block.vtx.back()->GetHash()); match.push_back(m[i].get_bool()); }
    const bool exp_ok = row["ok"].get_bool();
    const uint256 exp_root = exp_ok ? Eval(row["root"].get_str(), txid) : uint256();
    auto check = [&](CPartialMerkleTree& t, const std::string& how) -> std::string {
        std::vector<Txid> got; std::vector<unsigned int> idx;
        const uint256 root = t.ExtractMatches(got, idx);
        if (root != exp_root) return how + ": ExtractMatches returns root " + Hex(root) + ", specification " + (exp_ok ? Hex(exp_root) + " (the block's merkle root)" : "failure (zero)");
        if (!exp_ok) return "";
        if (got.size() != row["matched"].size() || idx.size() != row["idx"].size()) return how + ": " + std::to_string(got.size()) + " matches extracted, specification " + std::to_string(row["matched"].size());
        for (size_t i = 0; i < got.size(); ++i) {
            if (got[i].ToUint256() != Eval(row["matched"][i].get_str(), txid)) return how + ": extracted match #" + std::to_string(i) + " is not the matched transaction id";
            if ((int64_t)idx[i] != row["idx"][i].getInt<int64_t>()) return how + ": extracted position #" + std::to_string(i) + " = " + std::to_string(idx[i]) + ", specification " + row["idx"][i].getValStr();
        }
        return "";
    };
    CPartialMerkleTree direct(ids, match);
    std::string w = check(direct, "built tree");
    if (!w.empty()) return w;
    DataStream ss{}; ss << direct;
    CPartialMerkleTree wire; ss >> wire;
    w = check(wire, "tree after serialisation round trip");
    if (!w.empty()) return w;
    if (exp_ok && exp_root != BlockMerkleRoot(block)) return "specification's root is not the block's merkle root (reference evaluation)";
    // CMerkleBlock(block, txid set): the flags follow from set membership, so only rows whose flags are closed under equal ids apply
    std::set<Txid> want; bool closed = true;
    for (size_t i = 0; i < ids.size(); ++i) if (match[i]) want.insert(ids[i]);
    for (size_t i = 0; i < ids.size(); ++i) if (!match[i] && want.count(ids[i])) closed = false;
    if (closed) {
        block.hashMerkleRoot = BlockMerkleRoot(block);
        CMerkleBlock mb(block, want);
        w = check(mb.txn, "CMerkleBlock");
        if (!w.empty()) return w;
        R().Count("merkleblocks");
    }
    R().Count(exp_ok ? "rows_ok" : "rows_refused");
    return "";
}

// ---- mode blocktable -------------------------------------------------------------------------------------------------------
std::string CheckBlockRow(const UniValue& row)
{
    const UniValue& ids = row["ids"];
    const UniValue& wv = row["wv"];
    const std::string nonce = row["nonce"].get_str();
    const std::string cterm = row["cterm"].get_str();
    const LeafFn wleaf = [](const std::string& tok) {
        if (tok == "0") return uint256();
        if (tok == "n") return NonceAsHash();
        const size_t dot = tok.find('.');
        return dot == std::string::npos ? Tx(tok, "w0")->GetWitnessHash().ToUint256() : Tx(tok.substr(0, dot), tok.substr(dot + 1))->GetWitnessHash().ToUint256();
    };
    // coinbase: its txid depends on the commitment only (the genuine block's), never on the delivered witness data
    CMutableTransaction cb;
    cb.vin.resize(1); cb.vin[0].prevout.SetNull(); cb.vin[0].scriptSig = CScript() << OP_1 << OP_1;
    cb.vout.resize(1); cb.vout[0].nValue = 50 * COIN; cb.vout[0].scriptPubKey = CScript() << OP_TRUE;
    if (cterm != "none") {
        uint256 commit = Eval(cterm, wleaf);
        if (nonce == "n31c") {
            // a block "mined" with a 31-byte reserved value: the commitment is consistent with it (63-byte preimage)
            const uint256 wroot = Eval(row["cwroot"].get_str(), wleaf);
            unsigned char t[32];
            CSHA256().Write(wroot.begin(), 32).Write(NONCE.data(), 31).Finalize(t);
            CSHA256().Write(t, 32).Finalize(commit.begin());
        }
        CTxOut out; out.nValue = 0; out.scriptPubKey.resize(MINIMUM_WITNESS_COMMITMENT);
        out.scriptPubKey[0] = OP_RETURN; out.scriptPubKey[1] = 0x24; out.scriptPubKey[2] = 0xaa; out.scriptPubKey[3] = 0x21; out.scriptPubKey[4] = 0xa9; out.scriptPubKey[5] = 0xed;
        memcpy(&out.scriptPubKey[6], commit.begin(), 32);
        cb.vout.push_back(out);
    }
    if (nonce == "n32") cb.vin[0].scriptWitness.stack = {NONCE};
    else if (nonce == "n31" || nonce == "n31c") cb.vin[0].scriptWitness.stack = {std::vector<unsigned char>(31, 0x5a)};
    else if (nonce == "n2") cb.vin[0].scriptWitness.stack = {NONCE, NONCE};
    else if (nonce != "none" && nonce != "n0") throw std::runtime_error("unknown nonce kind " + nonce);
    const CTransactionRef cbtx = MakeTransactionRef(cb);
    const LeafFn tleaf = [&](const std::string& tok) { return tok == "0" ? uint256() : tok == "cb" ? cbtx->GetHash().ToUint256() : Tx(tok, "w0")->GetHash().ToUint256(); };

    CBlock block;
    for (size_t i = 0; i < ids.size(); ++i) {
        const std::string id = ids[i].get_str();
        block.vtx.push_back(id == "cb" ? cbtx : Tx(id, wv[i].get_str()));
    }
    block.hashMerkleRoot = Eval(row["hdr"].get_str(), tleaf);
    block.nBits = Params().GenesisBlock().nBits;
    {   // preconditions of the 64-byte construction (infrastructure, not verdict)
        for (size_t i = 0; i < ids.size(); ++i) if (ids[i].get_str() == "(p,q)") {
            const auto& tx = block.vtx[i];
            if (GetSerializeSize(TX_NO_WITNESS(tx)) != 64 || tx->GetHash().ToUint256() != DSha(Tx("p", "w0")->GetHash().ToUint256(), Tx("q", "w0")->GetHash().ToUint256()))
                throw std::runtime_error("the fixed 64-byte transaction does not have the expected structure");
        }
    }
    const bool cw = row["cw"].get_bool();
    const bool exp = row["exp"].get_bool();
    {
        CBlock b1 = block;
        const bool have = IsBlockMutated(b1, cw);
        if (have != exp) return std::string("IsBlockMutated = ") + (have ? "true" : "false") + ", specification says " + (exp ? "true" : "false") + " (" + row["kind"].get_str() + ")";
        CBlock b2 = block;
        if (IsBlockMutated(b2, cw) != have) return "IsBlockMutated is not deterministic";
    }
    {
        CBlock b3 = block;
        BlockValidationState st;
        const bool ok = CheckBlock(b3, st, Params().GetConsensus(), /*fCheckPOW=*/false, /*fCheckMerkleRoot=*/true);
        const std::string have = ok ? "ok" : st.GetResult() == BlockValidationResult::BLOCK_MUTATED ? "mutated" : st.GetResult() == BlockValidationResult::BLOCK_CONSENSUS ? "consensus" : "other";
        const std::string want = row["checkblock"].get_str();
        // "accepted only if": CheckBlock must never pass a body the specification refuses; a body the specification lets pass may
        // be refused for reasons outside this property, but never as MUTATED
        if (want == "mutated" && have != "mutated") return "CheckBlock classifies the body as " + have + " (" + st.GetRejectReason() + "), specification: mutated";
        if (want != "mutated" && have == "mutated") return "CheckBlock reports BLOCK_MUTATED (" + st.GetRejectReason() + ") for a body that matches the header";
        if (want == "ok" && !ok) R().Count("checkblock_stricter");
    }
    R().Count(std::string("kind_") + row["kind"].get_str());
    return "";
}
} // namespace

int main(int argc, char** argv)
{
    if (argc < 3) return 2;
    SHA256AutoDetect();
    SelectParams(ChainType::REGTEST);
    const std::string mode = argv[1];
    if (mode == "table") return TableMain(argv[2], CheckMerkleRow);
    if (mode == "blocktable") return TableMain(argv[2], CheckBlockRow);
    if (mode == "pmt") return TableMain(argv[2], CheckPmtRow);
    return 2;
}
