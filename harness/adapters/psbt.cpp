// Adapter for specs/Psbt (C47). Rows of three TLC-enumerated tables are concretised into real PartiallySignedTransaction
// objects:
//   t = "lock"  : ComputeTimeLock / GetUnsignedTx against the model; serialize -> decode -> serialize; split signing by one
//                 signer per input, CombinePSBTs, FinalizeAndExtractPSBT, txid equality and VerifyScript.
//   t = "merge" : CombinePSBTs of the parts in every order (and of each part with itself) against the model's verdict and union;
//                 serialize -> decode -> serialize of every part and of the result.
//   t = "size"  : one map entry with a key / value at the width boundaries of the compact-size prefix, written by the harness's own
//                 writer; decode, re-encode, decode.
//   t = "raw"   : an input map assembled field by field in an order the serializer under test never produces; decode, re-encode,
//                 decode again.
// The model's records are turned into objects by Build*; objects are turned back into a canonical JSON dump by Project (every
// member of the real classes, named by the real bytes); comparisons are Project(real result) against Project(Build(model record)).
// A difference the specification's own clause predicts (a documented deviation of the code from the statement of C47) is printed
// as a "finding" line instead of a mismatch; props/C47.py reports those under stable keys.
#include <vfh.h>

#include <addresstype.h>
#include <key.h>
#include <policy/policy.h>
#include <primitives/transaction.h>
#include <psbt.h>
#include <pubkey.h>
#include <script/interpreter.h>
#include <script/script.h>
#include <script/sign.h>
#include <script/signingprovider.h>
#include <streams.h>
#include <uint256.h>
#include <util/strencodings.h>

#include <set>

using namespace vfh;

namespace {

using Bytes = std::vector<unsigned char>;

int g_seed = 1;   // VERIF_SEED: varies the key material

const CKey& K(int n)
{
    static std::map<int, CKey> keys;
    auto it = keys.find(n);
    if (it == keys.end()) {
        Bytes b(32, (unsigned char)n);
        b[0] = 0x01;
        b[1] = (unsigned char)g_seed;
        CKey k;
        k.Set(b.begin(), b.end(), /*fCompressedIn=*/true);
        it = keys.emplace(n, k).first;
    }
    return it->second;
}
CPubKey PK(int n) { return K(n).GetPubKey(); }

uint32_t U32(const std::string& s) { return (uint32_t)std::stoull(s); }
std::optional<uint32_t> Opt32(const UniValue& v)
{
    const std::string s = v.get_str();
    if (s == "none") return std::nullopt;
    return U32(s);
}
std::string OptStr(const std::optional<uint32_t>& v) { return v ? std::to_string(*v) : std::string("none"); }

template <typename T>
std::string SerHex(const T& obj)
{
    DataStream s;
    s << obj;
    return HexStr(s);
}

// The transaction funding input i (1-based): output 0 pays K(i), P2WPKH for odd i, P2PKH for even i.
CMutableTransaction PrevTx(int i)
{
    CMutableTransaction m;
    m.version = 2;
    m.vin.emplace_back(COutPoint(Txid::FromUint256(uint256{(uint8_t)(0x40 + i)}), 0));
    const CScript spk = (i % 2) ? GetScriptForDestination(WitnessV0KeyHash(PK(i))) : GetScriptForDestination(PKHash(PK(i)));
    m.vout.emplace_back(100000 + i, spk);
    return m;
}

KeyOriginInfo Origin(int v)
{
    KeyOriginInfo o;
    o.fingerprint = {(unsigned char)v, 2, 3, 4};
    o.path = {0x80000000u | (uint32_t)v, 5};
    return o;
}
PSBTProprietary Prop(char x, int v)
{
    PSBTProprietary p;
    p.identifier = {'v', 'f'};
    p.subtype = x == 'a' ? 1 : 2;
    p.key = {0xFC, 0x02, 'v', 'f', (unsigned char)p.subtype, 0x01};
    p.value = {(unsigned char)v};
    return p;
}
Bytes UnkKey(char x) { return {(unsigned char)(x == 'a' ? 0xF0 : 0xF1), 0x77}; }

int KeyNo(const std::string& key) { return key.back() - '0'; }   // "...k1" -> 1

void ApplyIn(PSBTInput& in, int idx, const std::string& key, int v)
{
    const auto uc = (unsigned char)v;
    if (key == "nwutxo") in.non_witness_utxo = MakeTransactionRef(PrevTx(idx));
    else if (key == "wutxo") { in.witness_utxo = PrevTx(idx).vout[0]; in.witness_utxo.nValue += v - 1; }
    else if (key.rfind("psig.k", 0) == 0) {
        const CKey& k = K(KeyNo(key));
        Bytes sig;
        if (!k.Sign(uint256{uc}, sig)) throw std::runtime_error("sign failed");
        sig.push_back(SIGHASH_ALL);
        in.partial_sigs[k.GetPubKey().GetID()] = SigPair(k.GetPubKey(), sig);
    }
    else if (key == "sighash") in.sighash_type = v == 1 ? SIGHASH_ALL : SIGHASH_NONE;
    else if (key == "redeem") in.redeem_script = CScript() << (int64_t)v << OP_DROP << OP_TRUE;
    else if (key == "wscript") in.witness_script = CScript() << (int64_t)v << OP_NIP << OP_TRUE;
    else if (key.rfind("hd.k", 0) == 0) in.hd_keypaths[PK(KeyNo(key))] = Origin(v);
    else if (key == "fsig") in.final_script_sig = CScript() << Bytes{uc, 0xaa};
    else if (key == "fwit") in.final_script_witness.stack = {Bytes{uc}, Bytes{0xbb}};
    else if (key.rfind("rip.h", 0) == 0) in.ripemd160_preimages[uint160(Bytes(20, 0x10 + KeyNo(key)))] = Bytes{uc, uc};
    else if (key.rfind("sha.h", 0) == 0) in.sha256_preimages[uint256{(uint8_t)(0x20 + KeyNo(key))}] = Bytes{uc, uc, uc};
    else if (key.rfind("h160.h", 0) == 0) in.hash160_preimages[uint160(Bytes(20, 0x30 + KeyNo(key)))] = Bytes{uc};
    else if (key.rfind("h256.h", 0) == 0) in.hash256_preimages[uint256{(uint8_t)(0x40 + KeyNo(key))}] = Bytes{uc, 0x00};
    else if (key == "tapkeysig") in.m_tap_key_sig = Bytes(64, uc);
    else if (key.rfind("tapssig.k", 0) == 0) in.m_tap_script_sigs[{XOnlyPubKey(PK(KeyNo(key))), uint256{(uint8_t)7}}] = Bytes(64, uc);
    else if (key.rfind("tapleaf.c", 0) == 0) {
        Bytes cb(33, (unsigned char)KeyNo(key));
        cb[0] = 0xc0;
        in.m_tap_scripts[{Bytes{0x51, uc}, 0xc0}].insert(cb);
    }
    else if (key.rfind("tapbip32.k", 0) == 0) in.m_tap_bip32_paths[XOnlyPubKey(PK(KeyNo(key)))] = {std::set<uint256>{uint256{uc}}, Origin(v)};
    else if (key == "tapikey") in.m_tap_internal_key = XOnlyPubKey(PK(v));
    else if (key == "tapmroot") in.m_tap_merkle_root = uint256{uc};
    else if (key.rfind("musigpart.a", 0) == 0) in.m_musig2_participants[PK(4 + KeyNo(key) * 10)] = {PK(6), PK(6 + v)};
    else if (key.rfind("musignonce.a1p", 0) == 0) in.m_musig2_pubnonces[{PK(14), uint256()}][PK(5 + KeyNo(key))] = Bytes(66, uc);
    else if (key.rfind("musigpsig.a1p", 0) == 0) in.m_musig2_partial_sigs[{PK(14), uint256()}][PK(5 + KeyNo(key))] = uint256{uc};
    else if (key.rfind("prop.", 0) == 0) in.m_proprietary.insert(Prop(key.back(), v));
    else if (key.rfind("unk.", 0) == 0) in.unknown[UnkKey(key.back())] = Bytes{uc, uc};
    else throw std::runtime_error("unknown input field " + key);
}

void ApplyOut(PSBTOutput& out, const std::string& key, int v)
{
    const auto uc = (unsigned char)v;
    if (key == "redeem") out.redeem_script = CScript() << (int64_t)v << OP_DROP << OP_TRUE;
    else if (key == "wscript") out.witness_script = CScript() << (int64_t)v << OP_NIP << OP_TRUE;
    else if (key.rfind("hd.k", 0) == 0) out.hd_keypaths[PK(KeyNo(key))] = Origin(v);
    else if (key == "tapikey") out.m_tap_internal_key = XOnlyPubKey(PK(v));
    else if (key == "taptree") out.m_tap_tree = {{(uint8_t)0, (uint8_t)0xc0, Bytes{0x51, uc}}};
    else if (key.rfind("tapbip32.k", 0) == 0) out.m_tap_bip32_paths[XOnlyPubKey(PK(KeyNo(key)))] = {std::set<uint256>{uint256{uc}}, Origin(v)};
    else if (key.rfind("musigpart.a", 0) == 0) out.m_musig2_participants[PK(4 + KeyNo(key) * 10)] = {PK(6), PK(6 + v)};
    else if (key.rfind("prop.", 0) == 0) out.m_proprietary.insert(Prop(key.back(), v));
    else if (key.rfind("unk.", 0) == 0) out.unknown[UnkKey(key.back())] = Bytes{uc, uc};
    else throw std::runtime_error("unknown output field " + key);
}

void ApplyGlobal(PartiallySignedTransaction& p, const std::string& key, int v)
{
    const auto uc = (unsigned char)v;
    if (key.rfind("xpub.x", 0) == 0) {
        CExtKey ek;
        const Bytes seed(32, (unsigned char)(0x20 + KeyNo(key)));
        ek.SetSeed(MakeByteSpan(seed));
        CExtPubKey xpub = ek.Neuter();
        const unsigned char ver[4] = {0x04, 0x88, 0xB2, 0x1E};   // Neuter() leaves the version bytes unset
        std::copy(ver, ver + 4, xpub.version);
        p.m_xpubs[Origin(v)].insert(xpub);
    }
    else if (key.rfind("prop.", 0) == 0) p.m_proprietary.insert(Prop(key.back(), v));
    else if (key.rfind("unk.", 0) == 0) p.unknown[UnkKey(key.back())] = Bytes{uc, uc};
    else throw std::runtime_error("unknown global field " + key);
}

// `f` is a JSON object key -> value; TLC prints the empty function as []
template <typename F>
void ForFields(const UniValue& f, F fn)
{
    if (!f.isObject()) return;
    const auto& keys = f.getKeys();
    for (size_t i = 0; i < keys.size(); ++i) fn(keys[i], f[keys[i]].getInt<int>());
}

CMutableTransaction SkeletonTx(const UniValue& j)
{
    CMutableTransaction mtx;
    mtx.version = (uint32_t)j["txver"].getInt<int>();
    mtx.nLockTime = 0;
    for (size_t i = 0; i < j["ins"].size(); ++i) mtx.vin.emplace_back(COutPoint(PrevTx((int)i + 1).GetHash(), 0));
    for (size_t i = 0; i < j["outs"].size(); ++i) {
        mtx.vout.emplace_back(90000 + (j["tx"].getInt<int>() - 1), GetScriptForDestination(WitnessV0KeyHash(PK(9))));
    }
    return mtx;
}

// model record (the J(...) form of specs/Psbt/Psbt.tla) -> object
PartiallySignedTransaction Build(const UniValue& j)
{
    PartiallySignedTransaction p(SkeletonTx(j), (uint32_t)j["ver"].getInt<int>());
    p.fallback_locktime = Opt32(j["fb"]);
    const int mod = j["mod"].getInt<int>();
    if (mod == 0) p.m_tx_modifiable.reset(); else p.m_tx_modifiable = std::bitset<8>((unsigned)(mod - 1));
    ForFields(j["g"], [&](const std::string& k, int v) { ApplyGlobal(p, k, v); });
    for (size_t i = 0; i < j["ins"].size(); ++i) {
        const UniValue& ji = j["ins"][i];
        PSBTInput& in = p.inputs.at(i);
        in.sequence = Opt32(ji["seq"]);
        in.time_locktime = Opt32(ji["t"]);
        in.height_locktime = Opt32(ji["h"]);
        ForFields(ji["f"], [&](const std::string& k, int v) { ApplyIn(in, (int)i + 1, k, v); });
    }
    for (size_t i = 0; i < j["outs"].size(); ++i) {
        ForFields(j["outs"][i]["f"], [&](const std::string& k, int v) { ApplyOut(p.outputs.at(i), k, v); });
    }
    return p;
}

std::string OriginHex(const KeyOriginInfo& o)
{
    std::string s = HexStr(o.fingerprint);
    for (uint32_t x : o.path) s += "/" + std::to_string(x);
    return s;
}

// object -> canonical dump of every member (named by the real bytes)
UniValue ProjectIn(const PSBTInput& in)
{
    UniValue f(UniValue::VOBJ);
    if (in.non_witness_utxo) f.pushKV("nwutxo", SerHex(TX_WITH_WITNESS(*in.non_witness_utxo)));
    if (!in.witness_utxo.IsNull()) f.pushKV("wutxo", SerHex(in.witness_utxo));
    if (!in.redeem_script.empty()) f.pushKV("redeem", HexStr(in.redeem_script));
    if (!in.witness_script.empty()) f.pushKV("wscript", HexStr(in.witness_script));
    if (!in.final_script_sig.empty()) f.pushKV("fsig", HexStr(in.final_script_sig));
    if (!in.final_script_witness.IsNull()) f.pushKV("fwit", SerHex(in.final_script_witness.stack));
    for (const auto& [pk, o] : in.hd_keypaths) f.pushKV("hd." + HexStr(pk), OriginHex(o));
    for (const auto& [id, sp] : in.partial_sigs) f.pushKV("psig." + HexStr(sp.first), HexStr(id) + ":" + HexStr(sp.second));
    for (const auto& [h, pre] : in.ripemd160_preimages) f.pushKV("rip." + HexStr(h), HexStr(pre));
    for (const auto& [h, pre] : in.sha256_preimages) f.pushKV("sha." + HexStr(h), HexStr(pre));
    for (const auto& [h, pre] : in.hash160_preimages) f.pushKV("h160." + HexStr(h), HexStr(pre));
    for (const auto& [h, pre] : in.hash256_preimages) f.pushKV("h256." + HexStr(h), HexStr(pre));
    if (!in.m_tap_key_sig.empty()) f.pushKV("tapkeysig", HexStr(in.m_tap_key_sig));
    for (const auto& [kl, sig] : in.m_tap_script_sigs) f.pushKV("tapssig." + HexStr(kl.first) + "." + HexStr(kl.second), HexStr(sig));
    for (const auto& [leaf, cbs] : in.m_tap_scripts) {
        for (const auto& cb : cbs) f.pushKV("tapleaf." + HexStr(cb), HexStr(leaf.first) + ":" + std::to_string(leaf.second));
    }
    for (const auto& [xo, lo] : in.m_tap_bip32_paths) {
        std::string v;
        for (const auto& h : lo.first) v += HexStr(h) + ",";
        f.pushKV("tapbip32." + HexStr(xo), v + OriginHex(lo.second));
    }
    if (!in.m_tap_internal_key.IsNull()) f.pushKV("tapikey", HexStr(in.m_tap_internal_key));
    if (!in.m_tap_merkle_root.IsNull()) f.pushKV("tapmroot", HexStr(in.m_tap_merkle_root));
    for (const auto& [agg, parts] : in.m_musig2_participants) {
        std::string v;
        for (const auto& p : parts) v += HexStr(p) + ",";
        f.pushKV("musigpart." + HexStr(agg), v);
    }
    for (const auto& [al, m] : in.m_musig2_pubnonces) {
        for (const auto& [part, n] : m) f.pushKV("musignonce." + HexStr(al.first) + "." + HexStr(al.second) + "." + HexStr(part), HexStr(n));
    }
    for (const auto& [al, m] : in.m_musig2_partial_sigs) {
        for (const auto& [part, s] : m) f.pushKV("musigpsig." + HexStr(al.first) + "." + HexStr(al.second) + "." + HexStr(part), HexStr(s));
    }
    for (const auto& [k, v] : in.unknown) f.pushKV("unk." + HexStr(k), HexStr(v));
    for (const auto& p : in.m_proprietary) {
        f.pushKV("prop." + HexStr(p.key), HexStr(p.identifier) + ":" + std::to_string(p.subtype) + ":" + HexStr(p.value));
    }
    if (in.sighash_type) f.pushKV("sighash", std::to_string(*in.sighash_type));
    UniValue o(UniValue::VOBJ);
    o.pushKV("ver", (int)in.GetVersion());
    o.pushKV("prev", in.prev_txid.ToString() + ":" + std::to_string(in.prev_out));
    o.pushKV("seq", OptStr(in.sequence));
    o.pushKV("t", OptStr(in.time_locktime));
    o.pushKV("h", OptStr(in.height_locktime));
    o.pushKV("f", f);
    return o;
}

UniValue ProjectOut(const PSBTOutput& out)
{
    UniValue f(UniValue::VOBJ);
    if (!out.redeem_script.empty()) f.pushKV("redeem", HexStr(out.redeem_script));
    if (!out.witness_script.empty()) f.pushKV("wscript", HexStr(out.witness_script));
    for (const auto& [pk, o] : out.hd_keypaths) f.pushKV("hd." + HexStr(pk), OriginHex(o));
    if (!out.m_tap_internal_key.IsNull()) f.pushKV("tapikey", HexStr(out.m_tap_internal_key));
    if (!out.m_tap_tree.empty()) {
        std::string v;
        for (const auto& [d, lv, s] : out.m_tap_tree) v += std::to_string(d) + ":" + std::to_string(lv) + ":" + HexStr(s) + ",";
        f.pushKV("taptree", v);
    }
    for (const auto& [xo, lo] : out.m_tap_bip32_paths) {
        std::string v;
        for (const auto& h : lo.first) v += HexStr(h) + ",";
        f.pushKV("tapbip32." + HexStr(xo), v + OriginHex(lo.second));
    }
    for (const auto& [agg, parts] : out.m_musig2_participants) {
        std::string v;
        for (const auto& p : parts) v += HexStr(p) + ",";
        f.pushKV("musigpart." + HexStr(agg), v);
    }
    for (const auto& [k, v] : out.unknown) f.pushKV("unk." + HexStr(k), HexStr(v));
    for (const auto& p : out.m_proprietary) {
        f.pushKV("prop." + HexStr(p.key), HexStr(p.identifier) + ":" + std::to_string(p.subtype) + ":" + HexStr(p.value));
    }
    UniValue o(UniValue::VOBJ);
    o.pushKV("ver", (int)out.GetVersion());
    o.pushKV("amount", (int64_t)out.amount);
    o.pushKV("script", HexStr(out.script));
    o.pushKV("f", f);
    return o;
}

UniValue Project(const PartiallySignedTransaction& p)
{
    UniValue g(UniValue::VOBJ);
    for (const auto& [origin, xpubs] : p.m_xpubs) {
        for (const auto& x : xpubs) {
            unsigned char ser[BIP32_EXTKEY_WITH_VERSION_SIZE];
            x.EncodeWithVersion(ser);
            g.pushKV("xpub." + HexStr(ser), OriginHex(origin));
        }
    }
    for (const auto& [k, v] : p.unknown) g.pushKV("unk." + HexStr(k), HexStr(v));
    for (const auto& pr : p.m_proprietary) {
        g.pushKV("prop." + HexStr(pr.key), HexStr(pr.identifier) + ":" + std::to_string(pr.subtype) + ":" + HexStr(pr.value));
    }
    UniValue o(UniValue::VOBJ);
    o.pushKV("ver", (int)p.GetVersion());
    o.pushKV("txver", (int64_t)p.tx_version);
    o.pushKV("fb", OptStr(p.fallback_locktime));
    o.pushKV("mod", p.m_tx_modifiable ? (int)p.m_tx_modifiable->to_ulong() + 1 : 0);
    o.pushKV("g", g);
    UniValue ins(UniValue::VARR), outs(UniValue::VARR);
    for (const auto& in : p.inputs) ins.push_back(ProjectIn(in));
    for (const auto& out : p.outputs) outs.push_back(ProjectOut(out));
    o.pushKV("ins", ins);
    o.pushKV("outs", outs);
    return o;
}

Bytes Ser(const PartiallySignedTransaction& p)
{
    Bytes v;
    VectorWriter w{v, 0};
    w << p;
    return v;
}

// both directions (JsonDiff only walks the keys of its first argument)
std::string Diff(const UniValue& exp, const UniValue& have, const std::string& what)
{
    std::string d = JsonDiff(exp, have, what);
    if (d.empty()) {
        d = JsonDiff(have, exp, what);
        if (!d.empty()) d = "implementation has content the specification does not: " + d;
    }
    return d;
}

void Finding(const std::string& key, const std::string& what, const UniValue& row)
{
    R().Count("finding:" + key);
    UniValue o(UniValue::VOBJ);
    o.pushKV("kind", "finding");
    o.pushKV("key", key);
    o.pushKV("test", (uint64_t)R().cur_test);
    o.pushKV("what", what);
    o.pushKV("row", row);
    static std::map<std::string, int> printed;
    if (printed[key]++ < 3) R().Info(o);
}

// serialize -> decode -> serialize of an object whose surviving content the model gives as `canon`
std::string RoundTrip(const PartiallySignedTransaction& p, const UniValue& canon, const std::string& what)
{
    const Bytes b1 = Ser(p);
    auto d1 = DecodeRawPSBT(MakeByteSpan(b1));
    if (!d1) return what + ": the decoder rejects the encoding (" + util::ErrorString(d1).original + ")";
    std::string d = Diff(Project(Build(canon)), Project(*d1), what + " decoded");
    if (!d.empty()) return d;
    const Bytes b2 = Ser(*d1);
    if (b2 != b1) return what + ": second encoding differs from the first";
    auto d2 = DecodeRawPSBT(MakeByteSpan(b2));
    if (!d2) return what + ": the decoder rejects the second encoding";
    d = Diff(Project(*d1), Project(*d2), what + " decoded twice");
    if (!d.empty()) return d;
    R().Count("roundtrips");
    return "";
}

bool VerifyAll(const CMutableTransaction& mtx, const std::vector<CTxOut>& spent, std::string& why)
{
    PrecomputedTransactionData txdata;
    txdata.Init(mtx, std::vector<CTxOut>(spent), true);
    for (size_t i = 0; i < mtx.vin.size(); ++i) {
        ScriptError err;
        if (!VerifyScript(mtx.vin[i].scriptSig, spent[i].scriptPubKey, &mtx.vin[i].scriptWitness, STANDARD_SCRIPT_VERIFY_FLAGS,
                          MutableTransactionSignatureChecker(&mtx, i, spent[i].nValue, txdata, MissingDataBehavior::FAIL), &err)) {
            why = "input " + std::to_string(i) + ": " + ScriptErrorString(err);
            return false;
        }
    }
    return true;
}

std::string CheckLock(const UniValue& row)
{
    const UniValue& jp = row["p"];
    const PartiallySignedTransaction p = Build(jp);
    const size_t n = p.inputs.size();
    // ComputeTimeLock
    const std::optional<uint32_t> lock = p.ComputeTimeLock();
    const bool lock_ok = row["lock"]["ok"].get_bool();
    if (lock.has_value() != lock_ok) return std::string("ComputeTimeLock is ") + (lock ? "determinate" : "undetermined") + ", specification says the opposite";
    if (lock && *lock != U32(row["lock"]["v"].get_str())) return "ComputeTimeLock = " + std::to_string(*lock) + ", specification says " + row["lock"]["v"].get_str();
    // GetUnsignedTx
    const std::optional<CMutableTransaction> utx = p.GetUnsignedTx();
    const UniValue& ju = row["utx"];
    if (utx.has_value() != ju["ok"].get_bool()) return "GetUnsignedTx presence differs from the specification";
    const CMutableTransaction skel = SkeletonTx(jp);
    if (utx) {
        if (utx->nLockTime != U32(ju["lock"].get_str())) return "GetUnsignedTx nLockTime = " + std::to_string(utx->nLockTime) + ", specification says " + ju["lock"].get_str();
        if (utx->version != (uint32_t)ju["txver"].getInt<int>()) return "GetUnsignedTx version differs";
        if (utx->vin.size() != n || utx->vout.size() != skel.vout.size()) return "GetUnsignedTx shape differs";
        for (size_t i = 0; i < n; ++i) {
            if (utx->vin[i].nSequence != U32(ju["seqs"][i].get_str())) return "GetUnsignedTx vin[" + std::to_string(i) + "].nSequence = " + std::to_string(utx->vin[i].nSequence) + ", specification says " + ju["seqs"][i].get_str();
            if (utx->vin[i].prevout != skel.vin[i].prevout) return "GetUnsignedTx prevout differs";
            if (!utx->vin[i].scriptSig.empty() || !utx->vin[i].scriptWitness.IsNull()) return "GetUnsignedTx is not unsigned";
        }
        for (size_t i = 0; i < skel.vout.size(); ++i) if (utx->vout[i] != skel.vout[i]) return "GetUnsignedTx output differs";
        R().Count("lock_determinate");
    } else {
        R().Count("lock_undetermined");
    }
    // codec
    if (row["dec"].get_bool()) {
        std::string d = RoundTrip(p, jp, "psbt");
        if (!d.empty()) return d;
        auto dec = DecodeRawPSBT(MakeByteSpan(Ser(p)));
        if (dec->ComputeTimeLock() != lock) return "ComputeTimeLock changes over serialize -> decode";
    }
    if (n == 0) return "";
    // one signer per input, combine, finalize, extract
    PartiallySignedTransaction funded = p;
    std::vector<CTxOut> spent;
    for (size_t i = 0; i < n; ++i) {
        const CMutableTransaction prev = PrevTx((int)i + 1);
        spent.push_back(prev.vout[0]);
        if ((i + 1) % 2) funded.inputs[i].witness_utxo = prev.vout[0]; else funded.inputs[i].non_witness_utxo = MakeTransactionRef(prev);
    }
    const std::optional<PrecomputedTransactionData> txdata = PrecomputePSBTData(funded);
    if (txdata.has_value() != lock_ok) return "PrecomputePSBTData presence differs from the determinacy of the locktime";
    std::vector<PartiallySignedTransaction> copies;
    for (size_t i = 0; i < n; ++i) {
        PartiallySignedTransaction c = funded;
        FlatSigningProvider prov;
        prov.keys[PK((int)i + 1).GetID()] = K((int)i + 1);
        prov.pubkeys[PK((int)i + 1).GetID()] = PK((int)i + 1);
        PrecomputedTransactionData dummy;
        const auto res = SignPSBTInput(prov, c, (int)i, txdata ? &*txdata : &dummy, common::PSBTFillOptions{.sign = true, .sighash_type = std::nullopt, .finalize = false});
        if (res.has_value() != lock_ok) return std::string("SignPSBTInput ") + (res ? "succeeds" : "fails") + " on input " + std::to_string(i) + " although the locktime is " + (lock_ok ? "determinate" : "undetermined");
        if (lock_ok && c.inputs[i].partial_sigs.size() != 1) return "SignPSBTInput left no partial signature";
        copies.push_back(c);
    }
    // combine in an order that depends on the row
    if (jp["fb"].get_str() == "none") std::reverse(copies.begin(), copies.end());
    std::optional<PartiallySignedTransaction> comb = CombinePSBTs(copies);
    if (comb.has_value() != lock_ok) return "CombinePSBTs of the signers' copies: presence differs from the determinacy of the locktime";
    CMutableTransaction extracted;
    PartiallySignedTransaction work = comb ? *comb : funded;
    const bool fin = FinalizeAndExtractPSBT(work, extracted);
    if (fin != lock_ok) return std::string("FinalizeAndExtractPSBT ") + (fin ? "succeeds" : "fails") + ", specification says the opposite";
    if (!fin) return "";
    // The txid commits to the scriptSigs: the extracted transaction is the unsigned transaction plus signatures, so the ids are
    // equal once the scriptSigs are blanked, and equal as they stand when every input is native segwit.
    {
        CMutableTransaction blank = extracted;
        bool any_script_sig = false;
        for (auto& in : blank.vin) { any_script_sig |= !in.scriptSig.empty(); in.scriptSig.clear(); in.scriptWitness.SetNull(); }
        if (blank.GetHash() != utx->GetHash()) return "extracted transaction is not the unsigned transaction plus signatures (txid differs after blanking the scriptSigs)";
        if (!any_script_sig && extracted.GetHash() != utx->GetHash()) return "extracted transaction's txid differs from the unsigned transaction's";
        if (!any_script_sig) R().Count("extracted_all_segwit");
    }
    if (extracted.nLockTime != U32(ju["lock"].get_str())) return "extracted nLockTime differs from the specification";
    std::string why;
    if (!VerifyAll(extracted, spent, why)) return "extracted transaction fails script verification: " + why;
    // the finalized PSBT still round-trips and still extracts after a round trip
    auto dec = DecodeRawPSBT(MakeByteSpan(Ser(work)));
    if (!dec) return "finalized PSBT does not decode";
    if (Ser(*dec) != Ser(work)) return "finalized PSBT: second encoding differs";
    CMutableTransaction again;
    if (!FinalizeAndExtractPSBT(*dec, again) || again.GetHash() != extracted.GetHash() || CTransaction(again).GetWitnessHash() != CTransaction(extracted).GetWitnessHash()) {
        return "finalized PSBT extracts differently after serialize -> decode";
    }
    R().Count("extracted");
    return "";
}

// keys of `exp` (an input's f) that `have` lacks or holds with another value, and keys only `have` has
void FieldDelta(const UniValue& exp, const UniValue& have, std::vector<std::string>& missing, std::vector<std::string>& other)
{
    for (const auto& k : exp.getKeys()) {
        if (!have.exists(k)) missing.push_back(k);
        else if (!JsonEq(exp[k], have[k])) other.push_back(k);
    }
    for (const auto& k : have.getKeys()) if (!exp.exists(k)) other.push_back("+" + k);
}

// Compares a combine result with the union the specification prescribes. Two ways in which the code is known to lose a field of
// an operand are reported as findings rather than mismatches (exactly those, nothing else may differ).
std::string CompareUnion(const UniValue& exp, const UniValue& have, const UniValue& row, const std::string& what, bool& deviated)
{
    deviated = false;
    UniValue e2 = exp, h2 = have;
    std::vector<std::string> lost_sighash, lost_leaf;
    if (exp["ins"].size() == have["ins"].size()) {
        UniValue eins(UniValue::VARR), hins(UniValue::VARR);
        for (size_t i = 0; i < exp["ins"].size(); ++i) {
            std::vector<std::string> missing, other;
            FieldDelta(exp["ins"][i]["f"], have["ins"][i]["f"], missing, other);
            bool only_known = other.empty() && !missing.empty();
            for (const auto& k : missing) {
                if (k == "sighash") continue;
                // a lost control block is the known deviation only if the result holds the same leaf script under another control block
                bool same_script_present = false;
                if (k.rfind("tapleaf.", 0) == 0) {
                    for (const auto& hk : have["ins"][i]["f"].getKeys()) {
                        if (hk.rfind("tapleaf.", 0) == 0 && JsonEq(have["ins"][i]["f"][hk], exp["ins"][i]["f"][k])) same_script_present = true;
                    }
                }
                if (!same_script_present) only_known = false;
            }
            if (only_known) {
                for (const auto& k : missing) (k == "sighash" ? lost_sighash : lost_leaf).push_back("input " + std::to_string(i) + " " + k);
                // compare the rest of the input
                UniValue ei = exp["ins"][i], hi = have["ins"][i];
                UniValue ef(UniValue::VOBJ);
                for (const auto& k : exp["ins"][i]["f"].getKeys()) if (have["ins"][i]["f"].exists(k)) ef.pushKV(k, exp["ins"][i]["f"][k]);
                UniValue ei2(UniValue::VOBJ);
                for (const auto& k : ei.getKeys()) ei2.pushKV(k, k == "f" ? ef : ei[k]);
                eins.push_back(ei2);
            } else {
                eins.push_back(exp["ins"][i]);
            }
            hins.push_back(have["ins"][i]);
        }
        UniValue e3(UniValue::VOBJ);
        for (const auto& k : exp.getKeys()) e3.pushKV(k, k == "ins" ? eins : exp[k]);
        e2 = e3;
    }
    std::string d = Diff(e2, h2, what);
    if (!d.empty()) return d;
    deviated = !lost_sighash.empty() || !lost_leaf.empty();
    if (!lost_sighash.empty()) Finding("merge-drops-sighash-type", what + ": the combined PSBT lacks PSBT_IN_SIGHASH_TYPE of an operand (" + lost_sighash[0] + "): PSBTInput::Merge never copies sighash_type", row);
    if (!lost_leaf.empty()) Finding("merge-drops-tapleaf-control-block", what + ": the combined PSBT lacks a PSBT_IN_TAP_LEAF_SCRIPT record of an operand (" + lost_leaf[0] + "): m_tap_scripts is merged per leaf script, the second control block of the same script is dropped", row);
    return "";
}

std::string CheckMerge(const UniValue& row)
{
    const size_t np = row["parts"].size();
    std::vector<PartiallySignedTransaction> parts;
    for (size_t k = 0; k < np; ++k) parts.push_back(Build(row["parts"][k]));
    // combining a PSBT with itself changes nothing
    for (size_t k = 0; k < np; ++k) {
        const auto self = CombinePSBTs({parts[k], parts[k]});
        if (row["lockok"][k].get_bool()) {
            if (!self) return "CombinePSBTs(p, p) fails for part " + std::to_string(k + 1);
            std::string d = Diff(Project(parts[k]), Project(*self), "CombinePSBTs(p, p)");
            if (!d.empty()) return d;
            if (Ser(*self) != Ser(parts[k])) return "CombinePSBTs(p, p) encodes differently from p";
            R().Count("self_merges");
        } else {
            R().Count(self ? "self_merge_of_undetermined_succeeds" : "self_merge_of_undetermined_fails");   // the property is silent here
        }
    }
    // every order
    const UniValue exp_union = Project(Build(row["union"]));
    size_t n_ok = 0, n_fail = 0;
    for (size_t n = 0; n < row["orders"].size(); ++n) {
        std::vector<PartiallySignedTransaction> seq;
        std::string ord;
        for (size_t i = 0; i < np; ++i) { seq.push_back(parts[row["orders"][n][i].getInt<int>() - 1]); ord += std::to_string(row["orders"][n][i].getInt<int>()); }
        const auto res = CombinePSBTs(seq);
        const bool exp_ok = row["ok"][n].get_bool();
        if (res.has_value() != exp_ok) return "CombinePSBTs in order " + ord + (res ? " succeeds" : " fails") + ", specification says the opposite";
        R().Count("combines");
        if (!res) { ++n_fail; continue; }
        ++n_ok;
        bool deviated = false;
        std::string d = CompareUnion(exp_union, Project(*res), row, "CombinePSBTs in order " + ord, deviated);
        if (!d.empty()) return d;
        // the result survives the codec (skipped when a known deviation made it smaller than the specification's union)
        if (n == 0 && !deviated) {
            d = RoundTrip(*res, row["cunion"], "combined");
            if (!d.empty()) return d;
        }
    }
    // all parts are one transaction, conflict-free, and yet the outcome depends on the order
    if (row["flip"].get_bool() && n_ok > 0 && n_fail > 0) {
        Finding("combine-order-dependent-locktime-flip", "CombinePSBTs of conflict-free PSBTs with one unique id succeeds in " + std::to_string(n_ok) + " orders and fails in " +
                std::to_string(n_fail) + ": merging required time and height locktimes changes the computed locktime of the intermediate result, whose id then differs from the remaining operand's", row);
    }
    if (row["flip"].get_bool() && n_ok == 0) {
        Finding("combine-order-dependent-locktime-flip", "CombinePSBTs of conflict-free PSBTs with one unique id fails in every order: merging required time and height locktimes changes the computed locktime", row);
    }
    for (size_t k = 0; k < np; ++k) {
        std::string d = Diff(Project(Build(row["parts"][k])), Project(parts[k]), "operand after combining");
        if (!d.empty()) return d;
        d = RoundTrip(parts[k], row["cparts"][k], "part " + std::to_string(k + 1));
        if (!d.empty()) return d;
    }
    return "";
}

Bytes SerIn(const PSBTInput& in)
{
    Bytes v;
    VectorWriter w{v, 0};
    w << in;
    return v;
}

std::string CheckRaw(const UniValue& row)
{
    const UniValue& jp = row["p"];
    // the frame: a version-0 PSBT with one input and one output, both maps empty
    UniValue frame_j(UniValue::VOBJ);
    for (const auto& k : jp.getKeys()) {
        if (k != "ins") { frame_j.pushKV(k, jp[k]); continue; }
        UniValue in(UniValue::VOBJ);
        for (const auto& kk : jp["ins"][0].getKeys()) in.pushKV(kk, kk == "f" ? UniValue(UniValue::VARR) : jp["ins"][0][kk]);
        UniValue ins(UniValue::VARR);
        ins.push_back(in);
        frame_j.pushKV("ins", ins);
    }
    const PartiallySignedTransaction frame = Build(frame_j);
    Bytes bytes = Ser(frame);
    if (bytes.size() < 2 || bytes[bytes.size() - 1] != 0 || bytes[bytes.size() - 2] != 0) return "harness: unexpected frame";
    bytes.resize(bytes.size() - 2);
    // one record per field, produced by the real per-field encoder on an input that holds only this field
    std::vector<std::string> keys;
    if (jp["ins"][0]["f"].isObject()) keys = jp["ins"][0]["f"].getKeys();
    std::sort(keys.begin(), keys.end());
    if (row["ord"].get_str() == "rev") std::reverse(keys.begin(), keys.end());
    for (const auto& k : keys) {
        PSBTInput one(0, frame.inputs[0].prev_txid, frame.inputs[0].prev_out, frame.inputs[0].sequence);
        ApplyIn(one, 1, k, jp["ins"][0]["f"][k].getInt<int>());
        Bytes rec = SerIn(one);
        if (rec.size() < 2) return "harness: field " + k + " is not encoded on its own";
        rec.pop_back();
        bytes.insert(bytes.end(), rec.begin(), rec.end());
    }
    bytes.push_back(0);   // end of the input map
    bytes.push_back(0);   // the (empty) output map
    auto d1 = DecodeRawPSBT(MakeByteSpan(bytes));
    if (!d1) return "the decoder rejects the assembled encoding (" + util::ErrorString(d1).original + ")";
    std::string d = Diff(Project(Build(jp)), Project(*d1), "decoded");
    if (!d.empty()) return d;
    const Bytes b2 = Ser(*d1);
    auto d2 = DecodeRawPSBT(MakeByteSpan(b2));
    if (!d2) return "the decoder rejects the re-encoding";
    // model of the code: the re-encoding keeps Canon(p)
    d = Diff(Project(Build(row["reenc"])), Project(*d2), "decoded re-encoding");
    if (!d.empty()) return d;
    if (Ser(*d2) != b2) return "third encoding differs from the second";
    R().Count("raw_roundtrips");
    // the statement of C47: the re-encoding decodes to the same content
    d = Diff(Project(*d1), Project(*d2), "re-encoded");
    if (!d.empty()) {
        if (!row["drops"].get_bool()) return "content changes over re-encoding: " + d;
        Finding("reencode-drops-fields-of-finalized-input", "a PSBT the decoder accepts (final scriptSig/scriptWitness next to signer/updater fields) re-encodes to a PSBT with less content: " + d, row);
    } else if (row["drops"].get_bool()) {
        return "specification predicts that the re-encoding drops fields, the implementation keeps them";
    }
    return "";
}


// ---------------------------------------------------------------------------------------------------------------- t = "size"
// The harness's own writer: nothing below uses the serializer under test to produce the entry.
void PutCS(Bytes& out, uint64_t n)
{
    if (n < 253) out.push_back((unsigned char)n);
    else if (n <= 0xffff) { out.push_back(253); out.push_back(n & 0xff); out.push_back((n >> 8) & 0xff); }
    else { out.push_back(254); for (int i = 0; i < 4; ++i) out.push_back((n >> (8 * i)) & 0xff); }
}
void PutBytes(Bytes& out, const Bytes& b) { out.insert(out.end(), b.begin(), b.end()); }
void PutLE32(Bytes& out, uint32_t v) { for (int i = 0; i < 4; ++i) out.push_back((v >> (8 * i)) & 0xff); }
void PutLE64(Bytes& out, uint64_t v) { for (int i = 0; i < 8; ++i) out.push_back((v >> (8 * i)) & 0xff); }
Bytes Fill(size_t n, unsigned salt) { Bytes b(n); for (size_t i = 0; i < n; ++i) b[i] = (unsigned char)(i * 7 + salt); return b; }
uint256 NthHash(uint32_t i)
{
    // big-endian index in the first bytes: ascending i = ascending order of std::set<uint256>
    Bytes b(32, 0x5a);
    b[0] = (i >> 24) & 0xff; b[1] = (i >> 16) & 0xff; b[2] = (i >> 8) & 0xff; b[3] = i & 0xff;
    return uint256(b);
}
KeyOriginInfo PathOrigin(size_t k)
{
    KeyOriginInfo o;
    o.fingerprint = {9, 8, 7, 6};
    for (size_t i = 0; i < k; ++i) o.path.push_back((uint32_t)(i * 3 + 1));
    return o;
}
void PutOrigin(Bytes& out, const KeyOriginInfo& o)
{
    PutBytes(out, Bytes(o.fingerprint.begin(), o.fingerprint.end()));
    for (uint32_t x : o.path) PutLE32(out, x);
}
// depths of a complete binary tree with c leaves, in DFS order
std::vector<int> LeafDepths(size_t c)
{
    if (c == 1) return {0};
    int d = 0;
    while ((size_t{1} << d) < c) ++d;
    const size_t a = (size_t{1} << d) - c;      // leaves one level up
    std::vector<int> r(a, d - 1);
    r.insert(r.end(), c - a, d);
    return r;
}

std::string CheckSize(const UniValue& row)
{
    const int ver = row["ver"].getInt<int>();
    const std::string sc = row["sc"].get_str(), cls = row["cls"].get_str();
    const size_t n = (size_t)row["n"].getInt<int64_t>();
    // the frame: one input, one output, empty maps
    UniValue in(UniValue::VOBJ), out(UniValue::VOBJ), fj(UniValue::VOBJ), ins(UniValue::VARR), outs(UniValue::VARR);
    in.pushKV("seq", ver == 0 ? "4294967294" : "none"); in.pushKV("t", "none"); in.pushKV("h", "none"); in.pushKV("f", UniValue(UniValue::VARR));
    out.pushKV("f", UniValue(UniValue::VARR));
    ins.push_back(in); outs.push_back(out);
    fj.pushKV("ver", ver); fj.pushKV("txver", 2); fj.pushKV("tx", 1); fj.pushKV("fb", ver == 0 ? "1" : "none"); fj.pushKV("mod", 0);
    fj.pushKV("g", UniValue(UniValue::VARR)); fj.pushKV("ins", ins); fj.pushKV("outs", outs);
    PartiallySignedTransaction frame = Build(fj);
    CMutableTransaction big_prev;   // nwutxo.script: the input must spend this transaction
    if (cls == "nwutxo.script") {
        big_prev.version = 2;
        big_prev.vin.emplace_back(COutPoint(Txid::FromUint256(uint256{(uint8_t)0x55}), 3));
        big_prev.vin[0].nSequence = 0xfffffffd;
        big_prev.vout.emplace_back(123456, CScript());
        const Bytes sb = Fill(n, 1);
        big_prev.vout[0].scriptPubKey = CScript(sb.begin(), sb.end());
        big_prev.nLockTime = 7;
        CMutableTransaction sk = SkeletonTx(fj);
        sk.vin[0].prevout = COutPoint(big_prev.GetHash(), 0);
        frame = PartiallySignedTransaction(sk, (uint32_t)ver);
        if (ver == 0) { frame.fallback_locktime = 1; frame.inputs[0].sequence = 4294967294u; } else { frame.fallback_locktime.reset(); frame.inputs[0].sequence.reset(); }
    }
    PartiallySignedTransaction expect = frame;
    PSBTInput& ei = expect.inputs[0];
    PSBTOutput& eo = expect.outputs[0];
    Bytes key, val;
    const CPubKey pk1 = PK(1);
    const Bytes pkb(pk1.begin(), pk1.end());
    const XOnlyPubKey xo1(pk1);
    const Bytes xob(xo1.begin(), xo1.end());
    auto script_of = [](const Bytes& b) { return CScript(b.begin(), b.end()); };

    if (cls == "redeem" || cls == "wscript") {
        const Bytes b = Fill(n, 2);
        key = {(unsigned char)(sc == "i" ? (cls == "redeem" ? 0x04 : 0x05) : (cls == "redeem" ? 0x00 : 0x01))};
        val = b;
        if (sc == "i") (cls == "redeem" ? ei.redeem_script : ei.witness_script) = script_of(b);
        else (cls == "redeem" ? eo.redeem_script : eo.witness_script) = script_of(b);
    } else if (cls == "fsig") {
        const Bytes b = Fill(n, 3);
        key = {0x07}; val = b; ei.final_script_sig = script_of(b);
    } else if (cls == "fwit.item") {
        const Bytes a = Fill(n, 4), b{0x42};
        key = {0x08}; PutCS(val, 2); PutCS(val, a.size()); PutBytes(val, a); PutCS(val, 1); PutBytes(val, b);
        ei.final_script_witness.stack = {a, b};
    } else if (cls == "fwit.count") {
        key = {0x08}; PutCS(val, n);
        for (size_t i = 0; i < n; ++i) { const Bytes it{(unsigned char)(i & 0xff)}; PutCS(val, 1); PutBytes(val, it); ei.final_script_witness.stack.push_back(it); }
    } else if (cls == "sha.pre" || cls == "h256.pre") {
        const Bytes h = Fill(32, 5), pre = Fill(n, 6);
        key = {(unsigned char)(cls == "sha.pre" ? 0x0B : 0x0D)}; PutBytes(key, h); val = pre;
        (cls == "sha.pre" ? ei.sha256_preimages : ei.hash256_preimages)[uint256(h)] = pre;
    } else if (cls == "rip.pre" || cls == "h160.pre") {
        const Bytes h = Fill(20, 7), pre = Fill(n, 8);
        key = {(unsigned char)(cls == "rip.pre" ? 0x0A : 0x0C)}; PutBytes(key, h); val = pre;
        (cls == "rip.pre" ? ei.ripemd160_preimages : ei.hash160_preimages)[uint160(h)] = pre;
    } else if (cls == "wutxo.script") {
        const Bytes b = Fill(n, 9);
        key = {0x01}; PutLE64(val, 54321); PutCS(val, b.size()); PutBytes(val, b);
        ei.witness_utxo = CTxOut(54321, script_of(b));
    } else if (cls == "nwutxo.script") {
        key = {0x00};
        PutLE32(val, 2); PutCS(val, 1);
        { const uint256 h{(uint8_t)0x55}; PutBytes(val, Bytes(h.begin(), h.end())); PutLE32(val, 3); PutCS(val, 0); PutLE32(val, 0xfffffffd); }
        PutCS(val, 1); PutLE64(val, 123456); { const Bytes sb = Fill(n, 1); PutCS(val, sb.size()); PutBytes(val, sb); }
        PutLE32(val, 7);
        ei.non_witness_utxo = MakeTransactionRef(big_prev);
    } else if (cls == "tapleaf.script") {
        Bytes cb(33, 0x21); cb[0] = 0xc0;
        const Bytes scr = Fill(n, 10);
        key = {0x15}; PutBytes(key, cb); val = scr; val.push_back(0xc0);
        ei.m_tap_scripts[{scr, 0xc0}].insert(cb);
    } else if (cls == "tapleaf.cb") {
        Bytes cb = Fill(33 + 32 * n, 11); cb[0] = 0xc0;
        const Bytes scr{0x51};
        key = {0x15}; PutBytes(key, cb); val = scr; val.push_back(0xc0);
        ei.m_tap_scripts[{scr, 0xc0}].insert(cb);
    } else if (cls == "tapbip32.hashes" || cls == "tapbip32.path") {
        const size_t nh = cls == "tapbip32.hashes" ? n : 1, np = cls == "tapbip32.hashes" ? 1 : n;
        std::set<uint256> hs;
        key = {(unsigned char)(sc == "i" ? 0x16 : 0x07)}; PutBytes(key, xob);
        PutCS(val, nh);
        for (size_t i = 0; i < nh; ++i) { const uint256 h = NthHash((uint32_t)i); hs.insert(h); PutBytes(val, Bytes(h.begin(), h.end())); }
        const KeyOriginInfo o = PathOrigin(np);
        PutOrigin(val, o);
        (sc == "i" ? ei.m_tap_bip32_paths : eo.m_tap_bip32_paths)[xo1] = {hs, o};
    } else if (cls == "hd.path") {
        const KeyOriginInfo o = PathOrigin(n);
        key = {(unsigned char)(sc == "i" ? 0x06 : 0x02)}; PutBytes(key, pkb); PutOrigin(val, o);
        (sc == "i" ? ei.hd_keypaths : eo.hd_keypaths)[pk1] = o;
    } else if (cls == "xpub.path") {
        CExtKey ek;
        const Bytes seed(32, 0x31);
        ek.SetSeed(MakeByteSpan(seed));
        CExtPubKey xpub = ek.Neuter();
        const unsigned char v4[4] = {0x04, 0x88, 0xB2, 0x1E};
        std::copy(v4, v4 + 4, xpub.version);
        // BIP32 serialization written by hand: version, depth, parent fingerprint, child number (big endian), chain code, key
        key = {0x01}; PutBytes(key, Bytes(v4, v4 + 4)); key.push_back(xpub.nDepth); PutBytes(key, Bytes(xpub.fingerprint.begin(), xpub.fingerprint.end()));
        for (int i = 3; i >= 0; --i) key.push_back((xpub.nChild >> (8 * i)) & 0xff);
        PutBytes(key, Bytes(xpub.chaincode.begin(), xpub.chaincode.end())); PutBytes(key, Bytes(xpub.pubkey.begin(), xpub.pubkey.end()));
        const KeyOriginInfo o = PathOrigin(n);
        PutOrigin(val, o);
        expect.m_xpubs[o].insert(xpub);
    } else if (cls == "musigpart") {
        std::vector<CPubKey> parts;
        key = {(unsigned char)(sc == "i" ? 0x1a : 0x08)}; PutBytes(key, pkb);
        for (size_t i = 0; i < n; ++i) { const CPubKey p = PK(2 + (int)(i % 5)); parts.push_back(p); PutBytes(val, Bytes(p.begin(), p.end())); }
        (sc == "i" ? ei.m_musig2_participants : eo.m_musig2_participants)[pk1] = parts;
    } else if (cls == "taptree.script") {
        const Bytes scr = Fill(n, 12);
        key = {0x06}; val = {0x00, 0xc0}; PutCS(val, scr.size()); PutBytes(val, scr);
        eo.m_tap_tree = {{(uint8_t)0, (uint8_t)0xc0, scr}};
    } else if (cls == "taptree.leaves") {
        key = {0x06};
        size_t i = 0;
        for (int d : LeafDepths(n)) {
            const Bytes scr{(unsigned char)(0x51 + (i++ % 16))};
            val.push_back((unsigned char)d); val.push_back(0xc0); PutCS(val, 1); PutBytes(val, scr);
            eo.m_tap_tree.emplace_back((uint8_t)d, (uint8_t)0xc0, scr);
        }
    } else if (cls == "prop.id" || cls == "prop.kd" || cls == "prop.val") {
        PSBTProprietary pr;
        pr.identifier = cls == "prop.id" ? Fill(n, 13) : Bytes{'v', 'f'};
        pr.subtype = 3;
        const Bytes kd = cls == "prop.kd" ? Fill(n, 14) : Bytes{0x01};
        pr.value = cls == "prop.val" ? Fill(n, 15) : Bytes{0x09};
        key = {0xFC}; PutCS(key, pr.identifier.size()); PutBytes(key, pr.identifier); PutCS(key, 3); PutBytes(key, kd);
        pr.key = key; val = pr.value;
        (sc == "i" ? ei.m_proprietary : sc == "o" ? eo.m_proprietary : expect.m_proprietary).insert(pr);
    } else if (cls == "unk.key" || cls == "unk.val") {
        key = cls == "unk.key" ? Fill(n, 16) : Bytes{0xF0, 0x77};
        key[0] = 0xF0;
        val = cls == "unk.val" ? Fill(n, 17) : Bytes{0x2a};
        (sc == "i" ? ei.unknown : sc == "o" ? eo.unknown : expect.unknown)[key] = val;
    } else {
        return "harness: unknown size class " + cls;
    }
    // the specification's framing
    Bytes entry;
    PutCS(entry, key.size()); PutBytes(entry, key); PutCS(entry, val.size()); PutBytes(entry, val);
    if ((int64_t)key.size() != row["keylen"].getInt<int64_t>() || (int64_t)val.size() != row["vallen"].getInt<int64_t>() || (int64_t)entry.size() != row["entry"].getInt<int64_t>()) {
        return "assembled entry (key " + std::to_string(key.size()) + ", value " + std::to_string(val.size()) + ", entry " + std::to_string(entry.size()) + " bytes) does not have the lengths of the specification";
    }
    // splice the entry at the front of its map
    const Bytes whole = Ser(frame);
    const size_t in_len = SerIn(frame.inputs[0]).size();
    Bytes out_bytes; { VectorWriter w{out_bytes, 0}; w << frame.outputs[0]; }
    const size_t g_len = whole.size() - in_len - out_bytes.size();
    const size_t at = sc == "g" ? 5 : sc == "i" ? g_len : g_len + in_len;
    Bytes hand(whole.begin(), whole.begin() + at);
    PutBytes(hand, entry);
    hand.insert(hand.end(), whole.begin() + at, whole.end());
    const std::string what = sc + "." + cls + " n=" + std::to_string(n) + " v" + std::to_string(ver);
    auto d1 = DecodeRawPSBT(MakeByteSpan(hand));
    if (!d1) return what + ": the decoder rejects the assembled encoding (" + util::ErrorString(d1).original + ")";
    std::string d = Diff(Project(expect), Project(*d1), what + " decoded");
    if (!d.empty()) return d.substr(0, 600);
    const Bytes b2 = Ser(*d1);
    if (b2.size() != hand.size()) return what + ": the re-encoding has " + std::to_string(b2.size()) + " bytes, the accepted encoding (same fields) has " + std::to_string(hand.size());
    auto d2 = DecodeRawPSBT(MakeByteSpan(b2));
    if (!d2) return what + ": the decoder rejects the re-encoding (" + util::ErrorString(d2).original + ")";
    d = Diff(Project(*d1), Project(*d2), what + " re-encoded");
    if (!d.empty()) return d.substr(0, 600);
    if (Ser(*d2) != b2) return what + ": third encoding differs from the second";
    if (Ser(expect) != b2) return what + ": the object built directly encodes differently from the decoded one";
    if (ver == 0 && sc != "g" && b2 != hand) return what + ": re-encoding is not byte-identical to the accepted canonical encoding";
    R().Count("size_roundtrips");
    R().Count("size_class:" + sc + "." + cls);
    return "";
}

std::string CheckRow(const UniValue& row)
{
    const std::string t = row["t"].get_str();
    if (t == "lock") return CheckLock(row);
    if (t == "merge") return CheckMerge(row);
    if (t == "raw") return CheckRaw(row);
    if (t == "size") return CheckSize(row);
    return "harness: unknown row type " + t;
}

} // namespace

int main(int argc, char** argv)
{
    if (argc < 3) return 2;
    ECC_Context ecc;
    if (argc > 3) g_seed = std::atoi(argv[3]);
    if (std::string(argv[1]) == "table") return TableMain(argv[2], CheckRow);
    return 2;
}
