// Adapter for specs/Orphanage (C35): replays model behaviours on a real node::TxOrphanage built with
// node::MakeTxOrphanage(max_global_latency_score, reserved_peer_usage) and real transactions whose weight, input
// count and prevouts are those of the model's universe. After every call SanityCheck() runs and the whole query
// interface is compared with the model. A difference is reported as a *deviation* together with the implementation's
// observed result and state: whether it violates C35 is decided by TLC (specs/Orphanage/OrphanageStep.tla).
#include <vfh.h>
#include <consensus/validation.h>
#include <node/txorphanage.h>
#include <policy/policy.h>
#include <primitives/block.h>
#include <primitives/transaction.h>
#include <random.h>
#include <script/script.h>
#include <streams.h>
#include <uint256.h>

#include <map>
#include <memory>
#include <set>
#include <stdexcept>

using namespace vfh;

namespace {
struct Universe {
    int npeers{0};
    unsigned int maxlatency{0};
    int64_t reserved{0};
    std::vector<std::string> tx_names;                 // model order
    std::map<std::string, CTransactionRef> txs;
    std::map<Wtxid, std::string> by_wtxid;
    std::vector<std::string> parent_names;
    std::map<std::string, CTransactionRef> parents;
    std::map<std::string, COutPoint> outs;
    std::map<std::string, std::set<std::string>> spends;   // modelled inputs per orphan
};

uint256 Tag(uint8_t a, uint8_t b, uint8_t c)
{
    uint256 h;
    h.data()[0] = a; h.data()[1] = b; h.data()[2] = c; h.data()[31] = 0x35;
    return h;
}

// non-witness part of an orphan: `spends` first, then unique filler prevouts up to nin inputs, one output with a script of length s
CMutableTransaction Shape(size_t idx, const std::vector<COutPoint>& spends, size_t nin, size_t s)
{
    CMutableTransaction m;
    m.version = 2;
    for (const auto& o : spends) m.vin.emplace_back(o);
    for (size_t j = m.vin.size(); j < nin; ++j) m.vin.emplace_back(COutPoint(Txid::FromUint256(Tag(0xf1, (uint8_t)idx, (uint8_t)j)), (uint32_t)j));
    m.vout.emplace_back(1000 * (idx + 1), CScript() << OP_RETURN);
    m.vout[0].scriptPubKey.insert(m.vout[0].scriptPubKey.end(), s, OP_1);
    m.nLockTime = 0;
    return m;
}

std::shared_ptr<const Universe> BuildUniverse(const UniValue& u)
{
    auto U = std::make_shared<Universe>();
    U->npeers = u["npeers"].getInt<int>();
    U->maxlatency = u["maxlatency"].getInt<unsigned int>();
    U->reserved = u["reserved"].getInt<int64_t>();
    // parents: one real transaction per parent with as many outputs as the highest modelled index needs
    std::map<std::string, uint32_t> nout;
    for (size_t i = 0; i < u["outs"].size(); ++i) {
        const std::string name = u["outs"][i]["name"].get_str();
        const uint32_t n = (uint32_t)std::stoul(name.substr(1));
        auto& m = nout[u["outs"][i]["parent"].get_str()];
        m = std::max(m, n + 1);
    }
    for (size_t i = 0; i < u["parents"].size(); ++i) {
        const std::string name = u["parents"][i].get_str();
        CMutableTransaction m;
        m.vin.emplace_back(COutPoint(Txid::FromUint256(Tag(0xa0, (uint8_t)i, 0)), 0));
        for (uint32_t k = 0; k < std::max<uint32_t>(nout[name], 1); ++k) m.vout.emplace_back(50000 + k, CScript() << OP_TRUE);
        m.nLockTime = 100 + i;
        U->parents[name] = MakeTransactionRef(m);
        U->parent_names.push_back(name);
    }
    for (size_t i = 0; i < u["outs"].size(); ++i) {
        const std::string name = u["outs"][i]["name"].get_str();
        U->outs[name] = COutPoint(U->parents.at(u["outs"][i]["parent"].get_str())->GetHash(), (uint32_t)std::stoul(name.substr(1)));
    }
    std::map<std::string, CMutableTransaction> muts;
    for (size_t i = 0; i < u["txs"].size(); ++i) {
        const UniValue& a = u["txs"][i];
        const std::string name = a["name"].get_str();
        const int64_t w = a["w"].getInt<int64_t>();
        const size_t nin = a["nin"].getInt<int>();
        std::vector<COutPoint> spends;
        for (size_t k = 0; k < a["spends"].size(); ++k) { spends.push_back(U->outs.at(a["spends"][k].get_str())); U->spends[name].insert(a["spends"][k].get_str()); }
        U->spends[name];
        if (spends.size() > nin || nin == 0) throw std::runtime_error("universe: nin of " + name + " smaller than its modelled inputs");
        CMutableTransaction found;
        bool ok = false;
        const std::string base = a["base"].get_str();
        if (!base.empty()) {
            // same txid as `base` (same inputs and outputs), another witness: only the weight differs
            for (size_t L = 1; L < 250 && !ok; ++L) {
                CMutableTransaction m = muts.at(base);
                m.vin[0].scriptWitness.stack = {std::vector<unsigned char>(L, 0x42)};
                if (GetTransactionWeight(CTransaction(m)) == w && CTransaction(m).GetWitnessHash() != U->txs.at(base)->GetWitnessHash()) { found = m; ok = true; }
            }
        } else {
            for (size_t L = 1; L <= 4 && !ok; ++L) {
                CMutableTransaction m0 = Shape(i, spends, nin, 0);
                m0.vin[0].scriptWitness.stack = {std::vector<unsigned char>(L, 0x01)};
                const int64_t diff = w - GetTransactionWeight(CTransaction(m0));
                if (diff < 0 || diff % 4 != 0) continue;
                for (int64_t adj : {0, 2, 4}) {
                    const int64_t s = diff / 4 - adj;
                    if (s < 0) continue;
                    CMutableTransaction m = Shape(i, spends, nin, (size_t)s);
                    m.vin[0].scriptWitness.stack = {std::vector<unsigned char>(L, 0x01)};
                    if (GetTransactionWeight(CTransaction(m)) == w) { found = m; ok = true; break; }
                }
            }
        }
        if (!ok) throw std::runtime_error("universe: cannot build " + name + " with weight " + std::to_string(w));
        muts[name] = found;
        auto ref = MakeTransactionRef(found);
        if (ref->vin.size() != nin) throw std::runtime_error("universe: input count");
        if (U->by_wtxid.count(ref->GetWitnessHash())) throw std::runtime_error("universe: duplicate wtxid");
        U->txs[name] = ref;
        U->by_wtxid[ref->GetWitnessHash()] = name;
        U->tx_names.push_back(name);
    }
    return U;
}

std::shared_ptr<const Universe> GetUniverse(const UniValue& u)
{
    static std::map<std::string, std::shared_ptr<const Universe>> cache;
    const std::string key = u.write();
    auto it = cache.find(key);
    if (it != cache.end()) return it->second;
    return cache[key] = BuildUniverse(u);
}

// What a caller holds after receiving the transaction's bytes once more (from another peer, in a block ...): equal content, a separately
// allocated object. The adapter never hands the same CTransactionRef to the orphanage twice: nothing in the interface promises
// that all announcements of an orphan share one object, and code that relies on pointer identity must not pass unnoticed.
CTransactionRef Received(const CTransaction& tx)
{
    DataStream s;
    s << TX_WITH_WITNESS(tx);
    CMutableTransaction m;
    s >> TX_WITH_WITNESS(m);
    CTransactionRef r = MakeTransactionRef(std::move(m));
    if (r->GetWitnessHash() != tx.GetWitnessHash() || r->GetHash() != tx.GetHash()) throw std::runtime_error("serialization round trip changed the transaction");
    return r;
}

struct World {
    std::shared_ptr<const Universe> U;
    std::unique_ptr<node::TxOrphanage> orph;
    std::vector<std::pair<UniValue, int>> history;   // (action, rng seed used) for rebuilding when a random pick must be searched

    explicit World(const UniValue& init) : U{GetUniverse(init["universe"])} { orph = Fresh(); }
    std::unique_ptr<node::TxOrphanage> Fresh() const { return node::MakeTxOrphanage(U->maxlatency, U->reserved); }
    std::string NameOf(const Wtxid& w) const
    {
        auto it = U->by_wtxid.find(w);
        if (it == U->by_wtxid.end()) throw std::runtime_error("the orphanage returned a transaction that was never added");
        return it->second;
    }
    // one public call on `o`
    UniValue Call(node::TxOrphanage& o, const UniValue& a, int seed) const
    {
        const std::string op = a[0].get_str();
        if (op == "addtx") return o.AddTx(Received(*U->txs.at(a[1].get_str())), a[2].getInt<int>()) ? "true" : "false";
        if (op == "addannouncer") return o.AddAnnouncer(U->txs.at(a[1].get_str())->GetWitnessHash(), a[2].getInt<int>()) ? "true" : "false";
        if (op == "erasetx") return o.EraseTx(U->txs.at(a[1].get_str())->GetWitnessHash()) ? "true" : "false";
        if (op == "eraseforpeer") { o.EraseForPeer(a[1].getInt<int>()); return "none"; }
        if (op == "eraseforblock") {
            // a block with a coinbase, an unrelated transaction and one transaction spending all the listed outpoints
            CBlock block;
            CMutableTransaction cb; cb.vin.emplace_back(COutPoint()); cb.vout.emplace_back(1, CScript() << OP_TRUE);
            block.vtx.push_back(MakeTransactionRef(cb));
            CMutableTransaction t1, t2;
            t1.vin.emplace_back(COutPoint(Txid::FromUint256(Tag(0xb1, 0, 0)), 7));
            for (size_t i = 0; i < a[1].size(); ++i) t2.vin.emplace_back(U->outs.at(a[1][i].get_str()));
            t1.vout.emplace_back(1, CScript() << OP_TRUE); t2.vout.emplace_back(2, CScript() << OP_TRUE);
            block.vtx.push_back(MakeTransactionRef(t1));
            // if the listed outpoints are exactly the modelled inputs of an orphan, the block includes that orphan itself (as received
            // with the block: a separate object), otherwise a transaction conflicting with the orphans
            CTransactionRef included;
            std::set<std::string> listed;
            for (size_t i = 0; i < a[1].size(); ++i) listed.insert(a[1][i].get_str());
            for (const auto& n : U->tx_names) {
                if (!included && U->spends.at(n) == listed) included = Received(*U->txs.at(n));
            }
            if (included) block.vtx.push_back(included);
            else if (!t2.vin.empty()) block.vtx.push_back(MakeTransactionRef(t2));
            o.EraseForBlock(block);
            return "none";
        }
        if (op == "addchildren") {
            FastRandomContext rng{uint256{static_cast<uint8_t>(seed)}};
            const CTransactionRef parent = Received(*U->parents.at(a[1].get_str()));
            const auto ret = o.AddChildrenToWorkSet(*parent, rng);
            // the order of the returned pairs is not part of the interface: list them in the universe's order
            std::map<std::string, std::vector<int64_t>> got;
            for (const auto& [w, peer] : ret) got[NameOf(w)].push_back(peer);
            UniValue out(UniValue::VARR);
            for (const auto& n : U->tx_names) {
                auto it = got.find(n);
                if (it == got.end()) continue;
                for (int64_t p : it->second) out.push_back(Obj({{"p", p}, {"t", n}}));
            }
            return out;
        }
        if (op == "gettx") {
            const CTransactionRef r = o.GetTxToReconsider(a[1].getInt<int>());
            return r ? UniValue{NameOf(r->GetWitnessHash())} : UniValue{"none"};
        }
        throw std::runtime_error("unknown op " + op);
    }
    std::unique_ptr<node::TxOrphanage> Rebuild() const
    {
        auto o = Fresh();
        for (const auto& [a, seed] : history) Call(*o, a, seed);
        return o;
    }
    UniValue Apply(const UniValue& a)
    {
        int seed = 0;
        UniValue res;
        bool done = false;
        if (a[0].get_str() == "addchildren") {
            // The announcer is chosen with the caller's random generator. The model's choice is an argument of the action:
            // find a generator seed under which the real code makes that choice (trying seeds on rebuilt copies).
            bool ambiguous = false;
            for (size_t i = 0; i < a[2].size(); ++i) {
                int n = 0;
                for (int p = 1; p <= U->npeers; ++p) n += orph->HaveTxFromPeer(U->txs.at(a[2][i]["t"].get_str())->GetWitnessHash(), p);
                ambiguous = ambiguous || n != 1;
            }
            if (ambiguous) {
                R().Count("pick_searches");
                for (int s = 0; s < 256 && !done; ++s) {
                    auto o = Rebuild();
                    UniValue r = Call(*o, a, s);
                    if (JsonDiff(a[2], r, "").empty() && r.size() == a[2].size()) { orph = std::move(o); res = r; seed = s; done = true; }
                }
                if (!done) R().Count("picks_not_reproduced");
            }
        }
        if (!done) res = Call(*orph, a, seed);
        history.emplace_back(a, seed);
        orph->SanityCheck();   // recomputes every cached counter and asserts !NeedsTrim()
        return res;
    }
    UniValue Project() const
    {
        UniValue ann(UniValue::VOBJ);
        std::map<std::string, std::set<int64_t>> announcers;
        for (const auto& n : U->tx_names) {
            const Wtxid& w = U->txs.at(n)->GetWitnessHash();
            UniValue ps(UniValue::VARR);
            for (int p = 1; p <= U->npeers; ++p) {
                if (orph->HaveTxFromPeer(w, p)) { ps.push_back(p); announcers[n].insert(p); }
            }
            // the by-wtxid queries agree with the per-peer ones
            if (orph->HaveTx(w) != !announcers[n].empty()) throw std::runtime_error("HaveTx(" + n + ") disagrees with HaveTxFromPeer over all peers");
            const CTransactionRef got = orph->GetTx(w);
            if ((got != nullptr) != orph->HaveTx(w) || (got && got->GetWitnessHash() != w)) throw std::runtime_error("GetTx(" + n + ") disagrees with HaveTx");
            ann.pushKV(n, ps);
        }
        size_t listed = 0;
        for (const auto& info : orph->GetOrphanTransactions()) {
            const std::string n = NameOf(info.tx->GetWitnessHash());
            if (info.announcers.empty()) throw std::runtime_error("GetOrphanTransactions lists " + n + " without announcer");
            if (info.announcers != announcers[n]) throw std::runtime_error("GetOrphanTransactions announcers of " + n + " disagree with HaveTxFromPeer");
            ++listed;
        }
        size_t present = 0;
        for (const auto& [n, s] : announcers) present += !s.empty();
        if (listed != present) throw std::runtime_error("GetOrphanTransactions does not list exactly the announced orphans");
        UniValue peers(UniValue::VARR);
        for (int p = 1; p <= U->npeers; ++p) {
            peers.push_back(Obj({{"n", (int64_t)orph->AnnouncementsFromPeer(p)}, {"usage", (int64_t)orph->UsageByPeer(p)},
                                 {"lat", (int64_t)orph->LatencyScoreFromPeer(p)}, {"work", orph->HaveTxToReconsider(p)}}));
        }
        UniValue g = Obj({{"nann", (int64_t)orph->CountAnnouncements()}, {"nuniq", (int64_t)orph->CountUniqueOrphans()},
                          {"lat", (int64_t)orph->TotalLatencyScore()}, {"usage", (int64_t)orph->TotalOrphanUsage()},
                          {"maxusage", (int64_t)orph->MaxGlobalUsage()}, {"maxpeerlat", (int64_t)orph->MaxPeerLatencyScore()}});
        return Obj({{"ann", ann}, {"peer", peers}, {"g", g}});
    }
};

// Like vfh::ReplayMain, but (a) the key "hidden" of the expected state (entry order and reconsider flags, which no query
// exposes) is not compared, (b) the predicted result is r.res, and (c) any difference of result or observable state is
// handed back as a deviation carrying what the implementation did, for TLC to judge against the property's clauses.
int Replay(const std::string& path)
{
    InstallAbortHandlers();
    ForEachLine(path, [&](size_t n, const UniValue& t) {
        R().cur_test = n; R().cur_step = 0; R().cur_action = UniValue::VNULL;
        std::unique_ptr<World> w;
        try { w = std::make_unique<World>(t["init"]); }
        catch (const std::exception& e) { std::cerr << "cannot build the universe: " << e.what() << "\n"; std::exit(2); }
        const UniValue& st = t["steps"];
        for (size_t i = 0; i < st.size(); ++i) {
            R().cur_step = i; R().cur_action = st[i]["a"];
            std::string why, diff;
            UniValue res, have;
            try { res = w->Apply(st[i]["a"]); have = w->Project(); }
            catch (const std::exception& e) { why = std::string("exception: ") + e.what(); }
            ++R().steps;
            if (!why.empty()) { R().Mismatch(st[i]["a"], why); break; }
            if (st[i].exists("r") && !st[i]["r"].isNull()) {
                const UniValue& er = st[i]["r"]["res"];
                diff = JsonDiff(er, res, "result");
                if (diff.empty() && er.isArray() && er.size() != res.size()) diff = "result: different number of picks";
            }
            if (diff.empty() && st[i].exists("exp") && !st[i]["exp"].isNull()) {
                const UniValue& exp = st[i]["exp"];
                for (const auto& k : exp.getKeys()) {
                    if (k == "hidden") continue;
                    diff = JsonDiff(exp[k], have[k], "state." + k);
                    if (!diff.empty()) break;
                }
            }
            if (!diff.empty()) {
                have.pushKV("res", res);
                R().Deviation(st[i]["a"], diff, have);
                break;
            }
        }
        ++R().tests;
    });
    R().Summary();
    return 0;
}
} // namespace

int main(int argc, char** argv)
{
    if (argc < 3) { std::cerr << "usage: orphanage replay <tests.ndjson>\n"; return 2; }
    const std::string mode = argv[1];
    if (mode == "replay") return Replay(argv[2]);
    std::cerr << "unknown mode\n";
    return 2;
}
